// Tests appended to the `tests` module of mock-omaha-server/src/lib.rs to demonstrate D3 (run with cargo test --workspace --lib -- d3_).
// They panic in make_etag before the fix: commit and pass after.
    // ---- demonstration for finding D3 (verif): requests built by the client library ----
    async fn client_request(service_url: &str, cup: bool) -> (Request<Body>, Option<omaha_client::cup_ecdsa::RequestMetadata>) {
        use omaha_client::{
            common::App, configuration::{Config, Updater}, cup_ecdsa::{test_support::*, StandardCupv2Handler},
            protocol::request::OS, request_builder::{RequestBuilder, RequestParams},
        };
        let config = Config {
            updater: Updater { name: "updater".to_string(), version: [1, 2, 3, 4].into() },
            os: OS::default(),
            service_url: service_url.to_string(),
            omaha_public_keys: None,
        };
        let app = App::builder().id("integration-test-appid-1").version([0, 1, 2, 3]).build();
        let handler = StandardCupv2Handler::new(&make_default_public_keys_for_test());
        let builder = RequestBuilder::new(&config, &RequestParams::default()).add_update_check(&app);
        builder.build(if cup { Some(&handler) } else { None }).unwrap()
    }

    fn server() -> Mutex<OmahaServer> {
        Mutex::new(
            OmahaServerBuilder::default()
                .responses_by_appid([("integration-test-appid-1".to_string(), ResponseAndMetadata::default())])
                .build()
                .unwrap(),
        )
    }

    #[tokio::test]
    async fn d3_cup_request_to_url_with_existing_query() {
        let (req, meta) = client_request("http://example.com/service/update?channel=stable", true).await;
        let resp = handle_request(req, &server()).await.unwrap();
        assert_eq!(resp.status(), StatusCode::OK);
        assert!(resp.headers().get(header::ETAG).is_some());
        let _ = meta;
    }

    #[tokio::test]
    async fn d3_plain_request_to_url_with_path() {
        let (req, _) = client_request("http://example.com/service/update", false).await;
        let resp = handle_request(req, &server()).await.unwrap();
        assert_eq!(resp.status(), StatusCode::OK);
    }

    #[tokio::test]
    async fn d3_cup_request_verifies_on_client() {
        use omaha_client::cup_ecdsa::{test_support::*, Cupv2RequestHandler, StandardCupv2Handler};
        let (req, meta) = client_request("http://example.com/?a=b", true).await;
        let resp = handle_request(req, &server()).await.unwrap();
        let (parts, body) = resp.into_parts();
        let body = hyper::body::to_bytes(body).await.unwrap().to_vec();
        let resp = hyper::Response::from_parts(parts, body);
        let handler = StandardCupv2Handler::new(&make_default_public_keys_for_test());
        let meta = meta.unwrap();
        handler.verify_response(&meta, &resp, meta.public_key_id).unwrap();
    }
