use omaha_client::time::system_time_conversion::*;
use omaha_client::time::ComplexTime;
use std::time::{Duration, Instant, SystemTime};

#[test]
fn d4_min_roundtrip() {
    let t = micros_from_epoch_to_system_time(i64::MIN);
    assert_eq!(checked_system_time_to_micros_from_epoch(t), Some(i64::MIN));
}

#[test]
fn d5_idempotent_pre_epoch() {
    let t = ComplexTime { wall: SystemTime::UNIX_EPOCH - Duration::from_nanos(5000), mono: Instant::now() };
    let once = t.truncate_submicrosecond_walltime();
    assert_eq!(once.wall, t.wall, "aligned time must not move");
    assert_eq!(once.truncate_submicrosecond_walltime().wall, once.wall);
}

#[test]
fn d6_agrees_with_storage_pre_epoch() {
    let t = ComplexTime { wall: SystemTime::UNIX_EPOCH - Duration::from_nanos(5300), mono: Instant::now() };
    let stored = micros_from_epoch_to_system_time(checked_system_time_to_micros_from_epoch(t.wall).unwrap());
    assert_eq!(t.truncate_submicrosecond_walltime().wall, stored);
}
