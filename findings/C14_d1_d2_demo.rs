// Unit tests appended to the `tests` module of omaha-client/src/state_machine.rs to demonstrate D1/D2.
// They panic ("attempt to add with overflow") before the fix: commits and pass after.
    // ---- demonstration for findings D1/D2 (verif) ----
    #[test]
    fn d1_failed_check_counter_at_u32_max_does_not_panic() {
        block_on(async {
            let storage = Rc::new(Mutex::new(MemStorage::new()));
            {
                let mut storage = storage.lock().await;
                let _ = storage.set_int(CONSECUTIVE_FAILED_UPDATE_CHECKS, u32::MAX as i64).await;
                let _ = storage.commit().await;
            }
            let http = MockHttpRequest::empty();
            let mut state_machine = StateMachineBuilder::new_stub()
                .storage(Rc::clone(&storage))
                .http(http)
                .build()
                .await;
            assert_eq!(state_machine.context.state.consecutive_failed_update_checks, u32::MAX);
            state_machine.run_once().await; // a failed check
            assert_eq!(state_machine.context.state.consecutive_failed_update_checks, u32::MAX);
        });
    }

    #[test]
    fn d1_failed_ping_counter_at_u32_max_does_not_panic() {
        block_on(async {
            let storage = Rc::new(Mutex::new(MemStorage::new()));
            {
                let mut storage = storage.lock().await;
                let _ = storage.set_int(CONSECUTIVE_FAILED_UPDATE_CHECKS, u32::MAX as i64).await;
                let _ = storage.commit().await;
            }
            let mut http = MockHttpRequest::empty();
            http.add_error(http_request::mock_errors::make_transport_error());
            let mut state_machine = StateMachineBuilder::new_stub()
                .storage(Rc::clone(&storage))
                .http(http)
                .build()
                .await;
            async_generator::generate(move |mut co| async move {
                state_machine.ping_omaha(&mut co).await;
                assert_eq!(state_machine.context.state.consecutive_failed_update_checks, u32::MAX);
            })
            .into_complete()
            .await;
        });
    }

    #[test]
    fn d2_failed_install_counter_at_i64_max_does_not_panic() {
        block_on(async {
            let mut http = MockHttpRequest::new(make_update_available_response());
            http.add_response(HttpResponse::new(vec![]));
            http.add_response(HttpResponse::new(vec![]));
            let storage = Rc::new(Mutex::new(MemStorage::new()));
            {
                let mut storage = storage.lock().await;
                let _ = storage.set_int(CONSECUTIVE_FAILED_INSTALL_ATTEMPTS, i64::MAX).await;
                let _ = storage.commit().await;
            }
            let mock_time = MockTimeSource::new_from_now();
            let mut state_machine = StateMachineBuilder::new_stub()
                .http(http)
                .installer(TestInstaller::builder(mock_time.clone()).add_install_fail().build())
                .policy_engine(StubPolicyEngine::new(mock_time.clone()))
                .storage(Rc::clone(&storage))
                .build()
                .await;
            state_machine.run_once().await;
            let storage = storage.lock().await;
            assert_eq!(storage.get_int(CONSECUTIVE_FAILED_INSTALL_ATTEMPTS).await, Some(i64::MAX));
        });
    }
