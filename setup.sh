#!/bin/bash
# Build the facts driver (rustc_private, nightly, zero dependencies). Offline by construction.
set -e
cd "$(dirname "$0")"
export CARGO_NET_OFFLINE=true
( cd driver && CARGO_TARGET_DIR=../.build/driver cargo build --release --offline )
mkdir -p .cache evidence
echo "setup ok"
