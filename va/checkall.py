"""python3 -m va.checkall C01 C02 ... — run several properties' quick checks in one process (facts, supergraphs and
reachability memos are shared).  Used by the campaign runner only; the registered commands run one property per process.
Prints `@@ <id> <exit status>` followed by that check's output."""
import contextlib, importlib, io, sys, traceback
from . import facts, report


def main():
    pids = [a.upper() for a in sys.argv[1:]]
    F = facts.get()
    for pid in pids:
        buf = io.StringIO()
        rc = 2
        with contextlib.redirect_stdout(buf):
            run = report.Run(pid, "quick", 0)
            try:
                mod = importlib.import_module("va.rules.%s" % pid.lower())
                try:
                    mod.run(F, run)
                except report.Inconclusive as e:
                    run.inconclusive("engine", "exception", str(e))
                except Exception as e:
                    traceback.print_exc(file=buf)
                    run.inconclusive("engine", "crash", "%s: %s" % (type(e).__name__, e))
                rc = run.finish()
            except Exception as e:
                traceback.print_exc(file=buf)
        print("@@ %s %d" % (pid, rc))
        sys.stdout.write(buf.getvalue())
        sys.stdout.flush()


if __name__ == "__main__":
    main()
