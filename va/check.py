"""Entry point: python3 -m va.check <Cnn> [--tier quick|thorough] [--replay file]"""
import argparse, importlib, json, os, sys, traceback
from . import facts, report


def main():
    ap = argparse.ArgumentParser()
    ap.add_argument("pid")
    ap.add_argument("--tier", default=os.environ.get("VERIF_TIER", "quick"))
    ap.add_argument("--replay")
    a = ap.parse_args()
    pid = a.pid.upper()
    seed = int(os.environ.get("VERIF_SEED", "0") or 0)
    run = report.Run(pid, a.tier, seed)
    try:
        mod = importlib.import_module("va.rules.%s" % pid.lower())
    except ImportError as e:
        print("no rules for %s: %s" % (pid, e))
        return 2
    F = facts.get()
    only = None
    if a.replay:
        with open(a.replay) as fh:
            rp = json.load(fh)
        only = (rp["rule"], rp["key"])
        print("replaying rule %s key %s" % only)
    try:
        mod.run(F, run)
        if a.tier == "thorough":
            from . import thorough
            thorough.run(pid, F, run, mod)
    except report.Inconclusive as e:
        run.inconclusive("engine", "exception", str(e))
    except Exception as e:  # a crash of the analysis is never a verdict on the property
        traceback.print_exc()
        run.inconclusive("engine", "crash", "%s: %s" % (type(e).__name__, e))
    if only:
        run.instances = [i for i in run.instances if (i["rule"], i["key"]) == only]
        for i in run.instances:
            print(json.dumps(i, indent=1, default=str))
    return run.finish()


if __name__ == "__main__":
    sys.exit(main())
