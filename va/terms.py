"""E4: canonical rendering of value terms (closures inlined, selected generic arguments shown),
so that rules can compare an extracted computation with the formula stated in a property."""
from . import lib
from .core import BV, fmt_t

TRANSPARENT = {
    "std::clone::Clone::clone", "std::borrow::ToOwned::to_owned", "std::convert::Into::into", "std::convert::From::from",
    "std::option::Option::<T>::as_ref", "std::ops::Deref::deref", "std::ops::DerefMut::deref_mut", "std::convert::AsRef::as_ref",
    "std::future::IntoFuture::into_future", "std::pin::Pin::<Ptr>::new_unchecked", "std::option::Option::<T>::as_deref",
    "std::borrow::Borrow::borrow", "std::string::String::as_str", "std::string::String::as_bytes", "core::str::<impl str>::as_bytes",
    "std::vec::Vec::<T, A>::as_slice",
}
SHOW_GENERIC = {"parse": 0, "try_into": 1, "collect": 1, "digest": None, "new": None}


def type_arg(bv, bi, idx):
    t = bv.blocks[bi]["t"]
    ss = [s for s in t.get("substs", [])]
    if idx is None or idx >= len(ss):
        return None
    s = ss[idx]
    return bv.crate.types[s]["s"] if isinstance(s, int) else str(s)


def render(bv, t, world=None, names=None, depth=0, transparent=TRANSPARENT):
    names = names or {}
    if depth > 40:
        return "…"
    r = lambda x, nm=None: render(bv, x, world, nm if nm is not None else names, depth + 1, transparent)
    while t[0] in ("ref", "deref"):
        t = t[1]
    k = t[0]
    if k == "param":
        return names.get(t[1], "param%d" % t[1])
    if k == "field":
        return r(t[1]) + "." + str(t[2])
    if k == "downcast":
        return r(t[1]) + "@" + str(t[2])
    if k == "okpayload":
        return "ok(%s)" % r(t[1])
    if k == "const":
        v = lib.term_const(bv.crate, t)
        if v is not None:
            return repr(v)
        s = t[1]["s"]
        return lib.norm(s[6:] if s.startswith("const ") else s)
    if k == "phi":
        return "phi(" + "|".join(sorted(r(a) for a in t[1])) + ")"
    if k == "agg":
        if t[1] == "closure" and world is not None and t[2] in world.by_id:
            cb = world.bv(t[2])
            nm = {}
            for i in range(2, cb.argc + 1):
                nm[i] = cb.names.get(i, "x%d" % i) if False else "$%d" % (i - 1)
            # captured values
            caps = [r(a) for a in t[3]]
            body = render(cb, cb.trace_local(0), world, nm, depth + 1, transparent)
            for i, cv in enumerate(caps):
                body = body.replace("param1.%d" % i, cv)
            return "|%s| %s" % (",".join(nm[i] for i in sorted(nm)), body)
        nm_ = (t[2] or t[1]).split("::")[-1] if t[2] else t[1]
        return "%s{%s}" % (nm_, ", ".join(r(a) for a in t[3]))
    if k == "call":
        callee = lib.norm(t[1])
        if callee in transparent and t[2]:
            return r(t[2][0])
        name = callee.split("::")[-1]
        res = ""
        if t[3] is not None and t[3] < len(bv.blocks) and bv.blocks[t[3]]["t"].get("k") == "call" and lib.norm(bv.blocks[t[3]]["t"].get("callee") or "") == callee:
            tt = bv.blocks[t[3]]["t"]
            if name in SHOW_GENERIC and SHOW_GENERIC[name] is not None:
                ta = type_arg(bv, t[3], SHOW_GENERIC[name])
                if ta:
                    name += "::<%s>" % lib.norm(ta)
            rs = lib.norm(tt.get("resolved") or "")
            if name == "try_from" and " for " in rs:
                name = rs.split(" for ")[-1].split(">")[0].strip() + "::try_from"
            if callee.endswith("Digest::digest") or callee.endswith("Digest::new") or callee.endswith("Digest::finalize") or callee.endswith("Digest::update"):
                st = type_arg(bv, t[3], 0)
                if st:
                    name = "%s::%s" % (lib.norm(st).split("::")[-1].split("<")[0], name)
        return "%s(%s)" % (name, ", ".join(r(a) for a in t[2]))
    if k == "binop":
        return "%s(%s, %s)" % (t[1], r(t[2]), r(t[3]))
    if k == "unop":
        return "%s(%s)" % (t[1], r(t[2]))
    if k == "cast":
        return "cast<%s>(%s)" % (t[1].split("(")[0], r(t[2]))
    if k == "discr":
        return "discr(%s)" % r(t[1])
    if k == "subslice":
        return "%s[%d..%s%d]" % (r(t[1]), t[2], "-" if t[4] else "", t[3])
    return fmt_t(t)


def arm_terms(bv, sbi, local=0):
    """{variant/truth name: term of `local` when that arm of the switch at block sbi is taken}."""
    from . import guards
    si = guards.switch_info(bv, sbi)
    out = {}
    for b in bv.succ[sbi]:
        region = bv.arm_region(sbi, b)
        with bv.restrict(region):
            t = bv.trace_local(local)
        for n in si.edge_names(bv, b):
            out[n] = t
    return si, out
