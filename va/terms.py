"""E4: canonical rendering of value terms (closures inlined, selected generic arguments shown),
so that rules can compare an extracted computation with the formula stated in a property."""
from . import lib
from .core import BV, fmt_t

TRANSPARENT = {
    "std::clone::Clone::clone", "std::borrow::ToOwned::to_owned", "std::convert::Into::into", "std::convert::From::from",
    "std::option::Option::<T>::as_ref", "std::ops::Deref::deref", "std::ops::DerefMut::deref_mut", "std::convert::AsRef::as_ref",
    "std::future::IntoFuture::into_future", "std::pin::Pin::<Ptr>::new_unchecked", "std::option::Option::<T>::as_deref",
    "std::borrow::Borrow::borrow", "std::string::String::as_str", "std::string::String::as_bytes", "core::str::<impl str>::as_bytes",
    "std::vec::Vec::<T, A>::as_slice",
}
SHOW_GENERIC = {"parse": 0, "try_into": 1, "collect": 1, "digest": None, "new": None}


def hash_name(tystr):
    for h in ("Sha256", "Sha512", "Sha384", "Sha224", "Sha1", "Md5"):
        if h + "VarCore" in tystr or ("::" + h) in tystr or tystr.endswith(h):
            return h
    return lib.norm(tystr).split("::")[-1].split("<")[0]


def type_arg(bv, bi, idx):
    t = bv.blocks[bi]["t"]
    ss = [s for s in t.get("substs", [])]
    if idx is None or idx >= len(ss):
        return None
    s = ss[idx]
    return bv.crate.types[s]["s"] if isinstance(s, int) else str(s)


def display_name(bv, t):
    """Short name of a call term, with the generic instantiation where it carries meaning (parse::<u32>, Sha256::digest,
    <T>::try_from), looked up in the body `bv` the term was traced in."""
    callee = lib.norm(t[1])
    name = callee.split("::")[-1]
    if t[3] is not None and isinstance(t[3], int) and t[3] < len(bv.blocks) and bv.blocks[t[3]]["t"].get("k") == "call" and lib.norm(bv.blocks[t[3]]["t"].get("callee") or "") == callee:
        tt = bv.blocks[t[3]]["t"]
        if name in SHOW_GENERIC and SHOW_GENERIC[name] is not None:
            ta = type_arg(bv, t[3], SHOW_GENERIC[name])
            if ta:
                name += "::<%s>" % lib.norm(ta)
        rs = lib.norm(tt.get("resolved") or "")
        if name == "try_from" and " for " in rs:
            name = rs.split(" for ")[-1].split(">")[0].strip() + "::try_from"
        if callee.endswith("Digest::digest") or callee.endswith("Digest::new") or callee.endswith("Digest::finalize") or callee.endswith("Digest::update"):
            st = type_arg(bv, t[3], 0)
            if st:
                name = "%s::%s" % (hash_name(st), name)
    return name


def annotate_names(bv, t):
    """Fix the display names of the call terms of `t` while the body they were traced in is known (before the term is
    substituted into another body's term)."""
    if isinstance(t, list):
        return [annotate_names(bv, x) for x in t]
    if not isinstance(t, tuple):
        return t
    if t and t[0] == "call" and len(t) == 4 and isinstance(t[2], list):
        return ("call", t[1], [annotate_names(bv, a) for a in t[2]], t[3], display_name(bv, t))
    return tuple(annotate_names(bv, x) if isinstance(x, (tuple, list)) else x for x in t)


def render(bv, t, world=None, names=None, depth=0, transparent=TRANSPARENT):
    names = names or {}
    if depth > 40:
        return "…"
    r = lambda x, nm=None: render(bv, x, world, nm if nm is not None else names, depth + 1, transparent)
    while t[0] in ("ref", "deref"):
        t = t[1]
    k = t[0]
    if k == "param":
        return names.get(t[1], "param%d" % t[1])
    if k == "field":
        return r(t[1]) + "." + str(t[2])
    if k == "downcast":
        return r(t[1]) + "@" + str(t[2])
    if k == "okpayload":
        return "ok(%s)" % r(t[1])
    if k == "const":
        v = lib.term_const(bv.crate, t)
        if v is not None:
            return repr(v)
        s = t[1]["s"]
        return lib.norm(s[6:] if s.startswith("const ") else s)
    if k == "phi":
        return "phi(" + "|".join(sorted(r(a) for a in t[1])) + ")"
    if k == "agg":
        if t[1] == "closure" and world is not None and t[2] in world.by_id:
            cb = world.bv(t[2])
            nm = {}
            for i in range(2, cb.argc + 1):
                nm[i] = cb.names.get(i, "x%d" % i) if False else "$%d" % (i - 1)
            # captured values
            caps = [r(a) for a in t[3]]
            body = render(cb, cb.trace_local(0), world, nm, depth + 1, transparent)
            for i, cv in enumerate(caps):
                body = body.replace("param1.%d" % i, cv)
            return "|%s| %s" % (",".join(nm[i] for i in sorted(nm)), body)
        nm_ = (t[2] or t[1]).split("::")[-1] if t[2] else t[1]
        return "%s{%s}" % (nm_, ", ".join(r(a) for a in t[3]))
    if k == "call":
        callee = lib.norm(t[1])
        if callee in ("std::hint::must_use", "std::fmt::format", "alloc::fmt::format") and t[2]:
            ft = format_term(bv, t)
            if ft is not None and ft[0] is not None:
                return "fmt(%r%s)" % (ft[0], "".join(", %s(%s)" % (kd, r(a)) for kd, a in ft[1]))
            return r(t[2][0])
        if callee in transparent and t[2]:
            return r(t[2][0])
        name = t[4] if len(t) > 4 and isinstance(t[4], str) else display_name(bv, t)
        return "%s(%s)" % (name, ", ".join(r(a) for a in t[2]))
    if k == "binop":
        return "%s(%s, %s)" % (t[1], r(t[2]), r(t[3]))
    if k == "unop":
        return "%s(%s)" % (t[1], r(t[2]))
    if k == "cast":
        return "cast<%s>(%s)" % (t[1].split("(")[0], r(t[2]))
    if k == "discr":
        return "discr(%s)" % r(t[1])
    if k == "subslice":
        return "%s[%d..%s%d]" % (r(t[1]), t[2], "-" if t[4] else "", t[3])
    return fmt_t(t)


def decode_fmt(b):
    """Decode a fmt::Arguments template (encoding documented in core/src/fmt/mod.rs of this toolchain)
    into a format string with explicit positional arguments, or None."""
    out = []
    i = 0
    nxt = 0
    n = len(b)
    while i < n:
        c = b[i]
        if c == 0:
            return "".join(out)
        if c & 0xC0 == 0xC0:
            i += 1
            spec = ""
            idx = None
            if c & 0x01:
                spec += ":flags=%x" % int.from_bytes(b[i:i + 4], "little")
                i += 4
            if c & 0x02:
                spec += ":w%d" % int.from_bytes(b[i:i + 2], "little")
                i += 2
            if c & 0x04:
                spec += ":p%d" % int.from_bytes(b[i:i + 2], "little")
                i += 2
            if c & 0x08:
                idx = int.from_bytes(b[i:i + 2], "little")
                i += 2
            if idx is None:
                idx = nxt
            nxt = idx + 1
            out.append("{%d%s}" % (idx, spec))
        elif c == 0x80:
            ln = int.from_bytes(b[i + 1:i + 3], "little")
            out.append(bytes(b[i + 3:i + 3 + ln]).decode("utf-8", "replace").replace("{", "{{").replace("}", "}}"))
            i += 3 + ln
        elif c < 0x80:
            out.append(bytes(b[i + 1:i + 1 + c]).decode("utf-8", "replace").replace("{", "{{").replace("}", "}}"))
            i += 1 + c
        else:
            return None
    return None


def format_term(bv, t):
    """If t is `format!(..)`/`format_args!` (fmt::format(Arguments::new(template, &[args]))) return
    (format string, [(kind, arg term)]) else None."""
    x = t
    while x[0] in ("ref", "deref") or (x[0] == "call" and (lib.norm(x[1]) in ("std::hint::must_use", "std::fmt::format", "alloc::fmt::format") or lib.norm(x[1]) in TRANSPARENT) and x[2]):
        x = x[1] if x[0] in ("ref", "deref") else x[2][0]
    if not (x[0] == "call" and lib.norm(x[1]).endswith("fmt::Arguments::<'a>::new") and len(x[2]) == 2):
        if x[0] == "call" and lib.norm(x[1]).endswith("fmt::Arguments::<'a>::from_str") and x[2]:
            v = lib.term_const(bv.crate, _unref(x[2][0]))
            return (v.replace("{", "{{").replace("}", "}}"), []) if isinstance(v, str) else None
        return None
    tpl = lib.term_const(bv.crate, _unref(x[2][0]))
    if not isinstance(tpl, (bytes, bytearray)):
        return None
    fs = decode_fmt(bytes(tpl))
    arr = _unref(x[2][1])
    args = []
    if arr[0] == "agg" and arr[1] == "array":
        for a in arr[3]:
            a = _unref(a)
            if a[0] == "call" and "fmt::rt::Argument" in a[1]:
                kind = a[1].split("::")[-1].replace("new_", "")
                args.append((kind, a[2][0]))
            else:
                args.append(("?", a))
    return (fs, args)


def _unref(t):
    while t[0] in ("ref", "deref") or (t[0] == "cast" and "PointerCoercion" in t[1]):
        t = t[2] if t[0] == "cast" else t[1]
    return t


def _digest_chain_term(bv, world, t, names, transparent, xform):
    """finalize(chain_update(chain_update(new(), a), b)) spelt as one expression"""
    parts = []
    x = _unref(t)
    hty = None
    for _ in range(64):
        if x[0] != "call":
            return None
        cal = lib.norm(x[1])
        if cal.endswith("Digest::chain_update") and len(x[2]) == 2:
            parts.insert(0, render(bv, xform(x[2][1]), world, names, transparent=transparent))
            x = _unref(x[2][0])
            continue
        if cal.endswith("Digest::new_with_prefix") and x[2]:
            parts.insert(0, render(bv, xform(x[2][0]), world, names, transparent=transparent))
            hty = type_arg(bv, x[3], 0) if x[3] is not None else None
            break
        if cal.endswith("Digest::new"):
            hty = type_arg(bv, x[3], 0) if x[3] is not None else None
            break
        return None
    return (hash_name(hty or "?"), parts)


def digest_chain(bv, world, finalize_bi, names=None, transparent=TRANSPARENT, xform=lambda t: t):
    """For a `Digest::finalize(h)` call at block finalize_bi: the rendered sequence of data fed into h
    (new / new_with_prefix / update / chain_update, in CFG order on the straight-line path) and the
    hash type, or None when the hasher is updated on a branching path."""
    t = bv.blocks[finalize_bi]["t"]
    a0 = t["args"][0]
    pl = a0.get("m") or a0.get("c")
    if pl is None or pl.get("p"):
        return None
    # resolve plain moves back to the hasher local
    h = pl["l"]
    seen = set()
    while True:
        ds = [d for d in bv.defs.get(h, []) if d[0] in bv.reach0]
        if len(ds) == 1 and ds[0][2] == "rv" and ds[0][3]["k"] == "use":
            src = ds[0][3]["o"].get("m") or ds[0][3]["o"].get("c")
            if src and not src.get("p") and src["l"] not in seen:
                seen.add(h)
                h = src["l"]
                continue
        break
    ds = [d for d in bv.defs.get(h, []) if d[0] in bv.reach0]
    if len(ds) != 1 or ds[0][2] != "call":
        return None
    start_bi = ds[0][0]
    st = ds[0][3]
    if lib.norm(st.get("callee") or "").endswith("Digest::chain_update"):
        return _digest_chain_term(bv, world, bv.trace_op(a0), names, transparent, xform)
    parts = []
    hty = type_arg(bv, start_bi, 0)
    cal = lib.norm(st.get("callee") or "")
    if cal.endswith("Digest::new_with_prefix"):
        parts.append(render(bv, xform(bv.trace_op(st["args"][0])), world, names, transparent=transparent))
    elif not cal.endswith("Digest::new"):
        return None
    # walk the straight line from new() to finalize
    cur = start_bi
    guard = 0
    while cur != finalize_bi and guard < 200:
        guard += 1
        ss = bv.succ[cur]
        if len(ss) != 1:
            return None
        cur = ss[0]
        tt = bv.blocks[cur]["t"]
        if tt["k"] == "call" and cur != finalize_bi:
            c2 = lib.norm(tt.get("callee") or "")
            if c2.endswith("Digest::update") or c2.endswith("Digest::chain_update"):
                recv = _unref(bv.trace_op(tt["args"][0]))
                # the receiver must be our hasher
                rl = (tt["args"][0].get("m") or tt["args"][0].get("c") or {})
                parts.append(render(bv, xform(bv.trace_op(tt["args"][1])), world, names, transparent=transparent))
    if cur != finalize_bi:
        return None
    return (hash_name(hty or "?"), parts)


def arm_terms(bv, sbi, local=0):
    """{variant/truth name: term of `local` when that arm of the switch at block sbi is taken}."""
    from . import guards
    si = guards.switch_info(bv, sbi)
    out = {}
    for b in bv.succ[sbi]:
        region = bv.arm_region(sbi, b)
        with bv.restrict(region):
            t = bv.trace_local(local)
        for n in si.edge_names(bv, b):
            out[n] = t
    return si, out


def plus_one_base(v):
    """If the rendered term `v` is `X + 1` in one of its equivalent spellings, return X (rendered), else None.
    Spellings: plain/compound addition (overflow-checked), saturating_add, checked_add(..).unwrap_or(<T>::MAX).
    (wrapping_add and checked_add(..).unwrap_or(<anything else>) are *not* increments: they can move the value down.)"""
    import re
    v = v.strip()
    for op, suffix in (("AddWithOverflow(", ", 1).0"), ("saturating_add(", ", 1)"), ("Add(", ", 1)"), ("add_assign(", ", 1)")):
        if v.startswith(op) and v.endswith(suffix):
            return v[len(op):-len(suffix)]
    m = re.fullmatch(r"unwrap_or\(checked_add\((.*), 1\), ([^,()]*(?:::MAX|MAX)|9223372036854775807|4294967295|18446744073709551615|2147483647)\)", v)
    if m:
        return m.group(1)
    return None
