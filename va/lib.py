"""Lookup helpers over facts."""
from .core import BV


def bodies(crate, item=None, impl_self=None, impl_trait=None, kind="fn", name_contains=None):
    out = []
    for b in crate.bodies:
        if kind and b["kind"] != kind:
            continue
        if item is not None and b.get("item") != item:
            continue
        if impl_self is not None and impl_self not in (b.get("impl_self") or ""):
            continue
        if impl_trait is not None and b.get("impl_trait") != impl_trait:
            continue
        if name_contains is not None and name_contains not in b["name"]:
            continue
        out.append(b)
    return out


def one(run, rule, crate, what, **kw):
    bs = bodies(crate, **kw)
    if len(bs) != 1:
        run.inconclusive(rule, "anchor:" + what, "expected exactly one body for %s (%s), found %d" % (what, kw, len(bs)))
        return None
    return BV.of(bs[0])


def coroutine_of(crate, fn_body):
    """The coroutine body of an async fn."""
    cid = fn_body["id"] + "::{closure#0}"
    b = crate.by_id.get(cid)
    if b is not None and b["kind"] == "coroutine":
        return b
    return None


def closures_of(crate, body_id):
    return [b for b in crate.bodies if b.get("parent") == body_id]


def const_val(k):
    """Python value of a constant operand dict (int / str / bytes) or None."""
    if "v" in k:
        return k["v"]
    if "str" in k:
        return k["str"]
    if "bytes" in k:
        return bytes(k["bytes"])
    sv = k.get("s", "")
    if sv.startswith("const "):
        sv = sv[6:]
    if len(sv) >= 3 and sv[0] == "b" and sv[1] == '"' and sv[-1] == '"' and "def" not in k:
        # a byte-string literal the compiler prints instead of evaluating (named consts of type &[u8])
        import ast as _ast
        try:
            return bytes(_ast.literal_eval(sv))
        except (ValueError, SyntaxError):
            return None
    if len(sv) >= 2 and sv[0] == '"' and sv[-1] == '"' and "def" not in k:
        # a string literal the compiler keeps as a type-level constant (match patterns)
        import json as _json
        try:
            return _json.loads(sv)
        except ValueError:
            return None
    return None


def term_const(crate, t):
    """Evaluate a ('const', k) term, following named consts."""
    if t[0] != "const":
        return None
    k = t[1]
    v = const_val(k)
    if v is not None:
        return v
    d = k.get("def")
    if d and d in crate.consts:
        return const_val(crate.consts[d])
    return None


def loc(bv, bi):
    sp = bv.blocks[bi]["t"]["sp"]
    return "%s:%d" % (sp.get("f", "?"), sp.get("l", 0))


import re
_SERDE = re.compile(r"[\w:]*::_::_serde::")


def norm(path):
    """Normalise def paths that the compiler prints through a derive's private re-export."""
    if not path:
        return path
    return _SERDE.sub("serde::", path)


def callee_is(t, *names):
    c = norm(t.get("callee") or "")
    return any(c == n or c.endswith("::" + n) for n in names)


def has_call(bv, *names, resolved=None):
    out = []
    for bi, t in bv.calls():
        if callee_is(t, *names):
            if resolved is None or resolved in norm(t.get("resolved") or ""):
                out.append((bi, t))
    return out


def alts(t):
    """Flatten phis and strip references: the list of alternative value terms."""
    out = []
    st = [t]
    while st:
        x = st.pop()
        while x[0] in ("ref", "deref"):
            x = x[1]
        if x[0] == "phi":
            st.extend(x[1])
        elif x not in out:
            out.append(x)
    return out


def apath(t, names=None):
    """Access path of a term with references ignored everywhere: param1.params.source"""
    names = names or {}
    while t[0] in ("ref", "deref"):
        t = t[1]
    if t[0] == "param":
        return names.get(t[1], "param%d" % t[1])
    if t[0] == "field":
        return apath(t[1], names) + "." + str(t[2])
    if t[0] == "downcast":
        return apath(t[1], names) + "@" + str(t[2])
    if t[0] == "call" and t[1] in ("std::clone::Clone::clone", "std::borrow::ToOwned::to_owned", "std::convert::Into::into", "std::convert::From::from", "std::option::Option::<T>::as_ref", "std::ops::Deref::deref") and t[2]:
        return apath(t[2][0], names)
    if t[0] == "call":
        return "%s(%s)" % (norm(t[1]).split("::")[-1], ", ".join(apath(a, names) for a in t[2]))
    if t[0] == "const":
        v = const_val(t[1])
        return repr(v) if v is not None else t[1]["s"]
    if t[0] == "agg":
        return "%s{%s}" % ((t[2] or t[1]).split("::")[-1], ", ".join(apath(a, names) for a in t[3]))
    if t[0] == "phi":
        return "phi(" + "|".join(sorted(apath(a, names) for a in t[1])) + ")"
    if t[0] == "okpayload":
        return "ok(%s)" % apath(t[1], names)
    from .core import fmt_t
    return fmt_t(t)


WRAPPERS = ("std::ops::Try::branch", "std::future::IntoFuture::into_future", "std::pin::Pin::<Ptr>::new_unchecked", "futures::Future::poll",
            "std::future::Future::poll", "std::clone::Clone::clone", "std::convert::Into::into", "std::convert::From::from",
            "std::result::Result::<T, E>::map_err", "std::option::Option::<T>::as_ref", "std::result::Result::<T, E>::as_ref",
            "std::option::Option::<T>::ok_or", "std::option::Option::<T>::ok_or_else", "std::result::Result::<T, E>::map", "std::result::Result::<T, E>::ok")


_world = None     # set by flow.World: lets term-level helpers look into closure bodies


def _effect_closure_ret(t):
    """t = opt.map(closure) / opt.and_then(closure) with a closure that performs an environment effect -> the closure's
    return-value term; otherwise None."""
    from .core import BV
    while t[0] in ("ref", "deref"):
        t = t[1]
    if _world is None or t[0] != "call" or norm(t[1]).split("::")[-1] not in ("map", "and_then") or "option::Option" not in norm(t[1]) or len(t[2]) != 2:
        return None
    x = t[2][1]
    while x[0] in ("ref", "deref"):
        x = x[1]
    if not (x[0] == "agg" and x[1] == "closure" and x[2] in _world.by_id):
        return None
    cb = BV.of(_world.by_id[x[2]])
    if not any(tt.get("trait") and "::" in (tt.get("trait") or "") and tt.get("trait").split("::")[0] in ("cup_ecdsa", "policy", "installer", "storage", "http_request", "time", "metrics", "app_set") for _, tt in cb.calls()):
        return None
    return cb.trace_local(0)


def head_call(t):
    """The call that produced a value, looking through await / ? / projections / map_err."""
    for _ in range(64):
        while t[0] in ("ref", "deref"):
            t = t[1]
        if t[0] in ("field", "downcast", "okpayload", "discr"):
            t = t[1]
            continue
        if t[0] == "call" and t[1] in WRAPPERS and t[2]:
            t = t[2][0]
            continue
        if t[0] == "call" and norm(t[1]).endswith("::transpose") and t[2] and _effect_closure_ret(t[2][0]) is not None:
            t = t[2][0]
            continue
        if t[0] == "call" and _effect_closure_ret(t) is not None:
            # `opt.map(|x| env_call(x))`: the value is produced by the effectful call inside the closure
            t = _effect_closure_ret(t)
            continue
        if t[0] == "phi":
            hs = set(head_call(x) for x in t[1])
            return hs.pop() if len(hs) == 1 else None
        if t[0] == "call":
            return norm(t[1])
        return None
    return None


def subst_params(t, args):
    """Replace ('param', i) by args[i-1] everywhere in a term."""
    if isinstance(t, tuple):
        if len(t) == 2 and t[0] == "param" and isinstance(t[1], int) and 1 <= t[1] <= len(args):
            return args[t[1] - 1]
        return tuple(subst_params(x, args) for x in t)
    if isinstance(t, list):
        return [subst_params(x, args) for x in t]
    return t


def inline_local_call(W, bv, t, depth=3):
    """If the value term `t` (traced in body `bv`) is the result of a call to a local, synchronous, non-trait
    function, replace it by the callee's return-value term with the actual arguments substituted (a helper
    extracted from an expression does not change what the expression computes).  Terms that are not such a
    call are returned unchanged.  Block ids inside the inlined part refer to the callee."""
    from .core import BV
    for _ in range(depth):
        x = t
        while x[0] in ("ref", "deref"):
            x = x[1]
        if x[0] != "call" or len(x) < 4 or not isinstance(x[3], int) or x[3] >= len(bv.blocks):
            return t
        term = bv.blocks[x[3]]["t"]
        if term.get("k") != "call" or term.get("callee") != x[1] or term.get("trait"):
            return t
        rid = term.get("resolved_id") or term.get("def_id") or term.get("id")
        cb = W.by_id.get(rid) if rid else None
        if cb is None:
            cands = [b for b in W.by_id.values() if b.get("kind") == "fn" and (b["name"] == x[1] or b["name"].endswith("::" + x[1]) or x[1].endswith(b["name"]))]
            cb = cands[0] if len(cands) == 1 else None
        if cb is None or cb.get("kind") != "fn":
            return t
        cv = BV.of(cb)
        if cv.argc != len(x[2]):
            return t
        t = subst_params(cv.trace_local(0), list(x[2]))
        bv = cv
    return t


def equal_edges(bv, pred, holds=True):
    """Edges [(block, target)] of boolean switches in `bv` on which an equality `a == b` satisfying pred(term)
    HOLDS (or, with holds=False, fails), whichever way it is spelt: `a == b` taken on true, `a != b` taken on
    false (negations are already folded by bool_edges)."""
    out = []
    for (a, b, tr) in bv.bool_edges(lambda t: t[0] == "call" and t[1] in ("std::cmp::PartialEq::eq", "std::cmp::PartialEq::ne") and pred(t)):
        term = bv.trace_op(bv.blocks[a]["t"]["o"])
        while term[0] == "unop" and term[1] == "Not":
            term = term[2]
        heads = set(x[1] for x in alts(term) if x[0] == "call")
        if heads == {"std::cmp::PartialEq::eq"} and tr == holds:
            out.append((a, b))
        elif heads == {"std::cmp::PartialEq::ne"} and tr != holds:
            out.append((a, b))
    # `opt.is_some_and(|x| x == y)` after desugaring: the tested boolean merges the constant false (nothing to compare) with
    # the comparison.  On its true edge the equality holds; its false edge is "absent or different".
    for a in sorted(bv.reach0):
        t = bv.blocks[a]["t"]
        if t["k"] != "switch" or bv.switch_subject(a) is not None or len(bv.succ[a]) < 2 or bv.crate.types[t["ot"]]["s"] != "bool":
            continue
        term = bv.trace_op(t["o"])
        neg = False
        while term[0] == "unop" and term[1] == "Not":
            term = term[2]
            neg = not neg
        xs = alts(term)
        calls = [x for x in xs if x[0] == "call" and x[1] == "std::cmp::PartialEq::eq" and pred(x)]
        consts = [x for x in xs if x[0] == "const"]
        if not calls or not consts or len(calls) + len(consts) != len(xs) or any(term_const(bv.crate, x) not in (0, False) for x in consts):
            continue
        for b in bv.succ[a]:
            labs = bv.edge_label.get((a, b), [])
            is_true = any(l_ == "otherwise" or (isinstance(l_, int) and l_ != 0) for l_ in labs)
            if neg:
                is_true = not is_true
            if is_true == holds and (a, b) not in out:
                out.append((a, b))
    return out


def with_private_callees(W, bv, same_self=True, limit=12):
    """[bv] + the private (non-pub) synchronous local functions it calls, transitively: where a long function was
    split into private helpers, a rule that reads the function's statements reads the helpers' too.  With same_self,
    only helpers whose first parameter has the type of bv's first parameter (methods on the same receiver), so that
    `param1` means the same thing in all of them."""
    from .core import BV
    out = [bv]
    seen = {bv.id}
    work = [bv]
    while work and len(out) < limit:
        v = work.pop()
        for bi, t in v.calls():
            rid = t.get("resolved_id") or t.get("callee_id")
            b = W.by_id.get(rid) if rid else None
            if b is None or b.get("kind") != "fn" or b.get("pub") or b["id"] in seen or t.get("trait"):
                continue
            cv = BV.of(b)
            if same_self:
                if not (cv.argc >= 1 and bv.argc >= 1 and cv.lty(1)["s"] == bv.lty(1)["s"]):
                    continue
                a0 = t["args"][0] if t.get("args") else None
                pl = (a0.get("m") or a0.get("c")) if a0 else None
                # the receiver handed on must be our own receiver
                if pl is None or strip_refs(v.trace_op(a0)) != ("param", 1):
                    continue
            seen.add(b["id"])
            out.append(cv)
            work.append(cv)
    return out


def strip_refs(t):
    while t[0] in ("ref", "deref"):
        t = t[1]
    return t


_BUILDER_OPS = {}


def builder_ops(bv):
    """RequestBuilder operations a body uses: called directly, inside its closures, or handed on as a function item
    (`apps.iter().fold(builder, RequestBuilder::add_ping)`)."""
    import json as _json
    if bv.id in _BUILDER_OPS and _BUILDER_OPS[bv.id][0] is bv:
        return _BUILDER_OPS[bv.id][1]
    names = set()
    _BUILDER_OPS[bv.id] = (bv, names)
    todo = [bv]
    seen = set()
    from .core import BV
    while todo:
        v = todo.pop()
        if v.id in seen:
            continue
        seen.add(v.id)
        for _, t in v.calls():
            if (t.get("callee") or "").startswith("request_builder::RequestBuilder"):
                names.add(t.get("name"))
        # function items mentioned as values
        for bi in v.reach0:
            blob = _json.dumps([v.blocks[bi]["s"], v.blocks[bi]["t"].get("args", [])], default=str)
            for m in re.finditer(r"request_builder::RequestBuilder::<'[a-z_]+>::(\w+)", blob):
                names.add(m.group(1))
        for cb in closures_of(v.crate, v.id):
            todo.append(BV.of(cb))
    return names


def is_ping_body(bv):
    """The ping function: builds a request with add_ping but neither add_update_check nor add_event."""
    ops = builder_ops(bv)
    return "add_ping" in ops and "add_update_check" not in ops and "add_event" not in ops


def callable_body(W, t):
    """The local body behind a callable value passed to a combinator: a closure literal (its element parameter is 2, after the
    environment) or a function item given by path (element parameter 1).  -> (BV, element parameter index) or (None, None)."""
    from .core import BV, walk
    for x in walk(t):
        if x[0] == "agg" and x[1] == "closure" and x[2] in W.by_id:
            return W.bv(x[2]), 2
    y = strip_refs(t)
    if y[0] == "const" and isinstance(y[1], dict):
        path = y[1].get("def") or y[1].get("s") or ""
        path = path[6:] if path.startswith("const ") else path
        cands = [b for b in W.by_id.values() if b.get("kind") == "fn" and (b["name"] == path or b["id"].endswith("::" + path) or path.endswith(b["name"]) or b["id"].replace("omaha_client::", "").replace("mock_omaha_server::", "") == norm(path))]
        if len(cands) == 1:
            return BV.of(cands[0]), 1
    return None, None


def machine_fields_as_configured(W, sm):
    """{field of StateMachine: rendered value} as build() assembles it (e.g. 'param1.0.cup_handler' = the builder's own
    field, handed over untouched), or None when the construction is not found."""
    from . import terms
    from .core import walk
    bco = W.bv(sm.build_co)
    agg = [x for x in walk(bco.trace_local(0)) if x[0] == "agg" and x[2] and x[2].endswith("StateMachine::StateMachine")]
    if len(agg) != 1:
        return None
    names = agg[0][4]
    return {n_: terms.render(bco, agg[0][3][names.index(n_)], W, {}) for n_ in names}


def check_as_configured(R, rule, W, sm, fields):
    got = machine_fields_as_configured(W, sm)
    if got is None:
        R.inconclusive(rule, "as-configured", "construction of the StateMachine in build() not found")
        return
    for f, src in fields.items():
        v = got.get(f)
        if v is None:
            R.inconclusive(rule, "as-configured:" + f, "StateMachine has no field %s" % f)
            continue
        R.check(rule, "as-configured:" + f, v == "param1.0." + src, "build() hands the configured %s to the state machine untouched" % src,
                "build() does not hand the builder's %s to the state machine as configured: %s <- %s" % (src, f, v[:160]))


def async_callees(W, bv):
    """[(block, call terminator, coroutine BV)] for the local `async fn`s called (their future created) in bv."""
    from .core import BV
    out = []
    for bi, t in bv.calls():
        cid = t.get("resolved_id") or t.get("callee_id")
        cb = W.by_id.get((cid or "") + "::{closure#0}")
        if cid in W.by_id and cb is not None and cb.get("kind") == "coroutine":
            out.append((bi, t, BV.of(cb)))
    return out


def async_upvar_param_index(W, cv, term):
    """A term of the async helper body cv that is one of its captured parameters -> 1-based index of that parameter of
    the wrapper fn, else None."""
    from .core import BV
    x = strip_refs(term)
    while x[0] == "deref":
        x = strip_refs(x[1])
    if not (x[0] == "field" and strip_refs(x[1]) == ("param", 1) and isinstance(x[3] if len(x) > 3 else None, int)):
        return None
    k = x[3]
    wb = W.by_id.get(cv.body.get("parent"))
    if wb is None:
        return None
    wv = BV.of(wb)
    for bi in wv.reach0:
        for s_ in wv.blocks[bi]["s"]:
            if s_["k"] == "assign" and s_["r"]["k"] == "agg" and s_["r"].get("id") == cv.id:
                ops = s_["r"]["ops"]
                if k < len(ops):
                    src = strip_refs(wv.trace_op(ops[k]))
                    if src[0] == "param":
                        return src[1]
    return None


def async_param_to_arg(W, bv, t, cv, term):
    """A term of the async helper's body cv that is one of its captured parameters (`param1.k`, possibly dereferenced or
    borrowed) -> the caller's term for the argument handed in at call terminator t of bv; None if it is not one."""
    from .core import BV
    x = strip_refs(term)
    while x[0] == "deref":
        x = strip_refs(x[1])
    if not (x[0] == "field" and strip_refs(x[1]) == ("param", 1) and isinstance(x[3] if len(x) > 3 else None, int)):
        return None
    k = x[3]
    wid = cv.body.get("parent")
    wb = W.by_id.get(wid)
    if wb is None:
        return None
    wv = BV.of(wb)
    for bi in wv.reach0:
        for s_ in wv.blocks[bi]["s"]:
            if s_["k"] == "assign" and s_["r"]["k"] == "agg" and s_["r"].get("id") == cv.id:
                ops = s_["r"]["ops"]
                if k < len(ops):
                    src = strip_refs(wv.trace_op(ops[k]))
                    if src[0] == "param" and src[1] - 1 < len(t.get("args", [])):
                        return bv.trace_op(t["args"][src[1] - 1])
    return None


def builder_setters_preserve(R, rule, W, c, fields):
    """Every by-value setter of StateMachineBuilder (a method that rebuilds the builder, possibly at another type) carries
    each of `fields` over from `self` unless the field is the one it sets (= comes from one of its own parameters)."""
    from . import terms
    from .core import BV, strip
    SB = "state_machine::builder::StateMachineBuilder"
    n = 0
    for b in c.bodies:
        if b.get("kind") != "fn" or not (b.get("impl_self") or "").startswith(SB) or b.get("item") in ("new", "new_stub", "build", "start", "oneshot_check"):
            continue
        bv = BV.of(b)
        ret = strip(bv.trace_local(0))
        if not (ret[0] == "agg" and len(ret) > 4 and (ret[2] or "").endswith("StateMachineBuilder::StateMachineBuilder")):
            continue
        got = dict(zip(ret[4], [terms.render(bv, v_, W, {}) for v_ in ret[3]]))
        for f in fields:
            if f not in got:
                continue
            n += 1
            v = got[f]
            from_self = v == "param1." + f
            from_param = v.startswith("param") and not v.startswith("param1.") or v.startswith("Some{param") or "(param2" in v or "(param3" in v
            R.check(rule, "setter-preserves:%s:%s" % (b.get("item"), f), from_self or from_param, "%s() keeps the configured %s" % (b.get("item"), f),
                    "StateMachineBuilder::%s() replaces the configured %s by %s: a builder configured in another order silently loses it" % (b.get("item"), f, v[:80]), loc(bv, 0))
    R.floor(rule, "builder setters carrying the field over", n, 3)


def calls_verify_response(bv, deep=True):
    """Does this body call Cupv2RequestHandler::verify_response — itself, or (deep) in a closure it creates (the
    verification handed to `Option::map`)?  The exchange function is the coroutine for which this holds."""
    from .core import BV
    if any(t.get("trait") == "cup_ecdsa::Cupv2RequestHandler" and t.get("name") == "verify_response" for _, t in bv.calls()):
        return True
    if deep:
        for cb in closures_of(bv.crate, bv.id):
            if cb.get("kind") == "closure" and calls_verify_response(BV.of(cb), True):
                return True
    return False
