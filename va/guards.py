"""E2: classification of switch blocks (outcome-labelled edges)."""
from .core import BV, strip, fmt_t

STD_VARIANTS = {
    "std::option::Option": {0: "None", 1: "Some"},
    "std::result::Result": {0: "Ok", 1: "Err"},
    "std::task::Poll": {0: "Ready", 1: "Pending"},
    "std::ops::ControlFlow": {0: "Continue", 1: "Break"},
    "std::cmp::Ordering": {-1: "Less", 0: "Equal", 1: "Greater", 255: "Less"},
}


def variant_names(crate, ty, worlds=()):
    d = ty.get("d")
    if ty.get("k") != "adt":
        return {}
    if d in STD_VARIANTS:
        return dict(STD_VARIANTS[d])
    for c in (crate,) + tuple(worlds):
        a = c.adts.get(d)
        if a:
            out = {}
            for i, v in enumerate(a["variants"]):
                try:
                    out[int(v["discr"])] = v["n"]
                except (TypeError, ValueError):
                    out[i] = v["n"]
            return out
    return {}


class SwitchInfo:
    __slots__ = ("bi", "kind", "term", "ty", "arms", "names", "place")

    def edge_names(self, bv, target):
        """Names of the outcomes under which `target` is entered from this switch."""
        labs = bv.edge_label.get((self.bi, target), [])
        out = []
        for v in labs:
            if v == "otherwise":
                covered = set(a for a, _ in self.arms)
                rest = [n for val, n in self.names.items() if val not in covered]
                if self.kind == "bool":
                    out.append("true")
                else:
                    out.extend(rest or ["otherwise"])
            elif self.kind == "bool":
                out.append("false" if v == 0 else "true")
            else:
                out.append(self.names.get(v, str(v)))
        return out


def switch_info(bv, bi, extra_crates=()):
    bl = bv.blocks[bi]
    t = bl["t"]
    if t["k"] != "switch":
        return None
    si = SwitchInfo()
    si.bi = bi
    si.arms = [(v, b) for v, b in t["arms"]]
    sub = bv.switch_subject(bi)
    if sub is not None:
        si.kind = "discr"
        si.place = sub[0]
        si.ty = bv.crate.types[sub[1]]
        # peel references: discriminant((*_x)) has the pointee type already
        si.term = bv.trace_place(sub[0])
        si.names = variant_names(bv.crate, si.ty, extra_crates)
        return si
    o = t["o"]
    oty = bv.crate.types[t["ot"]]
    si.place = o.get("m") or o.get("c")
    si.ty = oty
    si.term = bv.trace_op(o)
    si.names = {}
    si.kind = "bool" if oty["s"] == "bool" else "int"
    return si


def switches_between(bv, starts, target, avoid=()):
    """Switch blocks with >=2 live successors that lie on some path from `starts` to `target`."""
    fwd = bv.reach_from(starts, avoid)
    # backward reach
    back = set()
    st = [target]
    av = set(avoid)
    while st:
        a = st.pop()
        if a in back or a in av:
            continue
        back.add(a)
        st.extend(bv.pred[a])
    on = fwd & back
    out = []
    for b in sorted(on):
        if bv.blocks[b]["t"]["k"] == "switch" and len(bv.succ[b]) >= 2:
            out.append(b)
    return out, on
