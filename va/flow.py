"""E1: interprocedural event skeleton (supergraph with full call-string contexts).

Nodes are (context, body, block).  Local sync calls, awaited local coroutines, type-erased async
blocks, `join`ed async blocks and `select!` arms are spliced in; await Pending arms are pruned
(runs are followed to completion; truncation is handled by the rules as "any prefix")."""
from .core import BV, mkphi, strip, walk, is_logging_span
from . import lib


class Ctx:
    __slots__ = ("idx", "parent", "site", "bv", "how", "entry", "returns", "depth", "chain")

    def __init__(self, idx, parent, site, bv, how):
        self.idx = idx
        self.parent = parent  # Ctx or None
        self.site = site      # node index in parent where it was spliced (or None)
        self.bv = bv
        self.how = how        # ('root',) | ('call', term) | ('poll', term) | ('agg', stmt) | ('select', k, cap_op) | ('chain', term, j)
        self.entry = None
        self.returns = []
        self.depth = 0 if parent is None else parent.depth + 1
        self.chain = (parent.chain if parent else ()) + (bv.id,)


class Node:
    __slots__ = ("idx", "ctx", "bi")

    def __init__(self, idx, ctx, bi):
        self.idx = idx
        self.ctx = ctx
        self.bi = bi

    @property
    def block(self):
        return self.ctx.bv.blocks[self.bi]

    @property
    def term(self):
        return self.ctx.bv.blocks[self.bi]["t"]

    def loc(self):
        sp = self.term["sp"]
        return "%s:%d" % (sp.get("f", "?"), sp.get("l", 0))

    def __repr__(self):
        return "<%s bb%d @%s>" % (self.ctx.bv.id.split("::", 1)[-1], self.bi, self.loc())


class World:
    """All crates' bodies + derived crate-wide indexes."""

    def __init__(self, crates):
        self.crates = crates
        self.by_id = {}
        for c in crates:
            for b in c.bodies:
                self.by_id[b["id"]] = b
        self._mention = {}
        self._driven = None
        lib._world = self

    def bv(self, bid):
        b = self.by_id.get(bid)
        return BV.of(b) if b is not None else None

    def mentions(self, crate, tid):
        """Set of local closure/coroutine ids mentioned (deeply) in a type."""
        key = (id(crate), tid)
        r = self._mention.get(key)
        if r is not None:
            return r
        self._mention[key] = frozenset()  # cycle guard
        t = crate.types[tid]
        out = set()
        if t.get("k") in ("coroutine", "closure", "coroutine_closure") and t.get("id") in self.by_id:
            out.add(t["id"])
        for a in t.get("a", []):
            if isinstance(a, int):
                out |= self.mentions(crate, a)
        if isinstance(t.get("hidden"), int):
            out |= self.mentions(crate, t["hidden"])
        r = frozenset(out)
        self._mention[key] = r
        return r

    def is_select_closure(self, bid):
        b = self.by_id.get(bid)
        return b is not None and b["kind"] == "closure" and b["sp"].get("x", "").startswith("select!")

    def driven(self):
        """Coroutine ids that some poll site (or select capture) can be seen to drive."""
        if self._driven is not None:
            return self._driven
        d = set()
        for c in self.crates:
            for b in c.bodies:
                for bl in b["mir"]["blocks"]:
                    t = bl["t"]
                    if t["k"] != "call":
                        continue
                    if t.get("name") in ("poll", "poll_unpin", "poll_next", "poll_next_unpin", "try_poll"):
                        rid = t.get("resolved_id")
                        if rid in self.by_id and self.by_id[rid]["kind"] == "coroutine":
                            d.add(rid)
                        for s in t.get("substs", []):
                            if isinstance(s, int):
                                for m in self.mentions(c, s):
                                    if self.by_id[m]["kind"] == "coroutine":
                                        d.add(m)
                                    else:
                                        # closure (e.g. select!): whatever it captures
                                        pass
        self._driven = d
        return d


class Super:
    def __init__(self, world, root_id, max_depth=24, inline_filter=None):
        self.w = world
        self.nodes = []
        self.ctxs = []
        self.succ = []
        self.pred = None
        self.elabel = {}     # (a, b) -> list of (kind, ...) labels
        self.inline_filter = inline_filter
        self.max_depth = max_depth
        self.notes = []      # things the construction could not model
        self.root = self._instantiate(None, None, world.bv(root_id), ("root",))
        self._finish()

    # ------------------------------------------------------------------ construction
    def _new_node(self, ctx, bi):
        n = Node(len(self.nodes), ctx, bi)
        self.nodes.append(n)
        self.succ.append([])
        return n

    def _edge(self, a, b, label=None):
        if b not in self.succ[a]:
            self.succ[a].append(b)
        if label is not None:
            self.elabel.setdefault((a, b), []).append(label)

    def _instantiate(self, parent, site, bv, how):
        ctx = Ctx(len(self.ctxs), parent, site, bv, how)
        self.ctxs.append(ctx)
        nmap = {}
        for bi in sorted(bv.reach0):
            nmap[bi] = self._new_node(ctx, bi)
        ctx.entry = nmap[0].idx
        ctx.returns = [nmap[bi].idx for bi in bv.exits()]
        selects = self._select_sites(bv)
        for bi in sorted(bv.reach0):
            n = nmap[bi]
            bl = bv.blocks[bi]
            t = bl["t"]
            units = []  # bodies to run, in order, before continuing to successors
            # erased async blocks created in this block
            for si, s in enumerate(bl["s"]):
                if s["k"] == "assign" and s["r"]["k"] == "agg" and s["r"].get("ak") == "coroutine":
                    cid = s["r"]["id"]
                    if cid in self.w.by_id and cid not in self.w.driven():
                        units.append((cid, ("agg", s)))
            if t["k"] == "call":
                units.extend(self._call_units(bv, bi, t))
            # successors
            if bi in selects:
                arms = selects[bi]
                for b in bv.succ[bi]:
                    labs = bv.edge_label.get((bi, b), [])
                    chain_units = []
                    for v in labs:
                        if v in arms:
                            for cid in arms[v]["coroutines"]:
                                chain_units.append((cid, ("select", v, arms[v]["cap"])))
                    self._chain(ctx, n, chain_units, nmap[b].idx, [("switch", bi, v) for v in labs])
                continue
            labels = {}
            live = self._live_succs(ctx, bv, bi)
            for b in live:
                labels[b] = [("switch", bi, v) for v in bv.edge_label.get((bi, b), [])]
            if units:
                # run the units, then go to every successor
                tail = self._chain_units(ctx, n, units)
                for b in live:
                    for tn in tail:
                        self._edge(tn, nmap[b].idx)
                        for lb in labels[b]:
                            self.elabel.setdefault((tn, nmap[b].idx), []).append(lb)
            else:
                for b in live:
                    self._edge(n.idx, nmap[b].idx)
                    for lb in labels[b]:
                        self.elabel.setdefault((n.idx, nmap[b].idx), []).append(lb)
        return ctx

    def _live_succs(self, ctx, bv, bi):
        """Successors of a block in this calling context: a switch on a parameter whose value is a
        constant at this call site keeps only the matching arm (context-sensitive constants)."""
        ss = bv.succ[bi]
        t = bv.blocks[bi]["t"]
        if t["k"] != "switch" or len(ss) < 2 or ctx.parent is None:
            return ss
        if bv.switch_subject(bi) is not None:
            return ss
        term = bv.trace_op(t["o"])
        x = term
        while x[0] in ("ref", "deref"):
            x = x[1]
        if not (x[0] == "param" or (x[0] == "field" and x[1][0] == "param")):
            return ss
        r = self.resolve(ctx, term)
        if r[0] != "const" or "v" not in r[1]:
            return ss
        v = r[1]["v"]
        keep = []
        for b in ss:
            labs = bv.edge_label.get((bi, b), [])
            arms = [a for a, _ in t["arms"]]
            if v in labs or ("otherwise" in labs and v not in arms):
                keep.append(b)
        self.pruned = getattr(self, "pruned", 0) + (len(ss) - len(keep))
        return keep or ss

    def _chain_units(self, ctx, n, units):
        """Splice bodies sequentially after node n; return the list of tail node ids."""
        tails = [n.idx]
        for (cid, how) in units:
            bv = self.w.bv(cid)
            if bv is None:
                continue
            if cid in ctx.chain or ctx.depth >= self.max_depth:
                self.notes.append(("recursion-or-depth", cid, n.idx))
                continue
            sub = self._instantiate(ctx, n.idx, bv, how)
            for tn in tails:
                self._edge(tn, sub.entry, ("enter", cid))
            if how[0] == "closure":
                # may-call: the callee may also not run the closure at all
                if not hasattr(self, "maycalls"):
                    self.maycalls = []
                for x in tails:
                    self.maycalls.append((x, sub.entry, how[1], cid))
                tails = list(sub.returns) + [x for x in tails if x not in sub.returns]
            elif sub.returns:
                tails = list(sub.returns)
            else:
                tails = []  # diverges
                break
        return tails

    def _chain(self, ctx, n, units, target, labels):
        tails = self._chain_units(ctx, n, units) if units else [n.idx]
        for tn in tails:
            self._edge(tn, target)
            for lb in labels:
                self.elabel.setdefault((tn, target), []).append(lb)

    def _call_units(self, bv, bi, t):
        w = self.w
        out = []
        name = t.get("name")
        cid = t.get("callee_id")
        rid = t.get("resolved_id") or cid
        if name in ("poll", "poll_unpin", "poll_next_unpin", "try_poll") and t.get("trait"):
            if rid in w.by_id and w.by_id[rid]["kind"] == "coroutine":
                return [(rid, ("poll", t))]
            # foreign future wrapping local coroutines (Join, Fuse, Map, ...)
            ms = []
            for s in t.get("substs", [])[:1]:
                if isinstance(s, int):
                    ms = self._ordered_mentions(bv.crate, s)
            if any(w.is_select_closure(m) for m in ms):
                return []
            return [(m, ("chain", t, j)) for j, m in enumerate(ms) if w.by_id[m]["kind"] == "coroutine"]
        target = None
        if rid in w.by_id:
            target = rid
        elif cid in w.by_id:
            target = cid
        if target is not None:
            b = w.by_id[target]
            if b["kind"] == "fn" and (self.inline_filter is None or self.inline_filter(b)):
                out.append((target, ("call", t)))
        else:
            # a foreign function handed local closures (Option::map, and_then, unwrap_or_else, map_err, bool::then, ..):
            # it may run them — splice each as a may-call (with a bypass edge), so that effects inside are on the paths
            for ti in t.get("argt", []):
                if not isinstance(ti, int):
                    continue
                ty = bv.crate.types[ti]
                tid = ti
                # look through references to the closure type
                for m in self._ordered_mentions(bv.crate, tid):
                    mb = w.by_id.get(m)
                    if mb is not None and mb["kind"] == "closure" and not w.is_select_closure(m) and ty.get("k") in ("closure", "ref", "adt", "tuple", None) and (m, ("closure", t)) not in out:
                        if ty.get("k") == "closure" or (ty.get("k") == "ref"):
                            out.append((m, ("closure", t)))
        return out

    def _ordered_mentions(self, crate, tid, acc=None):
        if acc is None:
            acc = []
        t = crate.types[tid]
        if t.get("k") in ("coroutine", "closure", "coroutine_closure") and t.get("id") in self.w.by_id:
            if t["id"] not in acc:
                acc.append(t["id"])
            if t.get("k") == "coroutine":
                return acc
        if isinstance(t.get("hidden"), int):
            self._ordered_mentions(crate, t["hidden"], acc)
            return acc
        for a in t.get("a", []):
            if isinstance(a, int):
                self._ordered_mentions(crate, a, acc)
        return acc

    def _select_sites(self, bv):
        """Map: switch block -> {arm value: {coroutines: [...], cap: operand}} for select! in this body."""
        out = {}
        w = self.w
        for bi in sorted(bv.reach0):
            for s in bv.blocks[bi]["s"]:
                if s["k"] == "assign" and s["r"]["k"] == "agg" and s["r"].get("ak") == "closure" and w.is_select_closure(s["r"]["id"]):
                    caps = s["r"]["ops"]
                    # forward search for the switch on __PrivResult
                    seen = set()
                    q = [bi]
                    found = None
                    while q and found is None:
                        a = q.pop(0)
                        if a in seen:
                            continue
                        seen.add(a)
                        sub = bv.switch_subject(a)
                        if sub is not None:
                            ty = bv.crate.types[sub[1]]
                            if ty.get("k") == "adt" and "__PrivResult" in ty.get("d", ""):
                                found = a
                                break
                        q.extend(bv.succ[a])
                    if found is None:
                        self.notes.append(("select-without-switch", bv.id, bi))
                        continue
                    arms = {}
                    for k, cap in enumerate(caps):
                        pl = cap.get("m") or cap.get("c")
                        cors = []
                        if pl is not None:
                            tid = pl["t"] if pl.get("p") else bv.locals[pl["l"]]["t"]
                            cors = [m for m in self._ordered_mentions(bv.crate, tid) if w.by_id[m]["kind"] == "coroutine"]
                        arms[k] = {"coroutines": cors, "cap": cap, "closure": s["r"]["id"], "agg_block": bi}
                    out[found] = arms
        self._selects = getattr(self, "_selects", {})
        self._selects[bv.id] = out
        return out

    def _finish(self):
        n = len(self.nodes)
        self.pred = [[] for _ in range(n)]
        for a in range(n):
            for b in self.succ[a]:
                self.pred[b].append(a)

    # ------------------------------------------------------------------ queries
    def reach(self, starts, avoid=(), succ=None):
        succ = succ or self.succ
        avoid = set(avoid)
        seen = set()
        st = [s for s in starts if s not in avoid]
        while st:
            a = st.pop()
            if a in seen:
                continue
            seen.add(a)
            for b in succ[a]:
                if b not in seen and b not in avoid:
                    st.append(b)
        return seen

    def reach_back(self, starts, avoid=()):
        return self.reach(starts, avoid, self.pred)

    def all_reachable(self):
        return self.reach([self.root.entry])

    def path(self, a, b, avoid=()):
        """Shortest path a -> b avoiding nodes; list of node ids or None."""
        from collections import deque
        avoid = set(avoid)
        prev = {a: None}
        q = deque([a])
        while q:
            x = q.popleft()
            if x == b:
                out = []
                while x is not None:
                    out.append(x)
                    x = prev[x]
                return out[::-1]
            for y in self.succ[x]:
                if y not in prev and y not in avoid:
                    prev[y] = x
                    q.append(y)
        return None

    def must_pass(self, a, targets, through):
        """Every path from node a to any node in `targets` passes a node in `through`?"""
        r = self.reach([a], avoid=through)
        return not (r & set(targets)), r & set(targets)

    def exits(self):
        return list(self.root.returns)

    def calls(self, pred):
        out = []
        for n in self.nodes:
            t = n.term
            if t["k"] == "call" and pred(t):
                out.append(n)
        return out

    def bypass_edges(self, pred):
        """Edges that skip a closure spliced as a may-call of a foreign combinator, for the calls satisfying
        pred(call terminator, closure id, body view of the caller): e.g. `opt.map(|x| ..)` skips the closure exactly when opt is None."""
        out = []
        for (a, entry, t, cid) in getattr(self, "maycalls", []):
            if pred(t, cid, self.nodes[a].ctx.bv):
                out += [(a, b) for b in self.succ[a] if b != entry]
        return out

    def fmt_path(self, p, limit=14):
        locs = []
        last = None
        for i in p:
            l = self.nodes[i].loc()
            if l != last:
                locs.append(l)
                last = l
        if len(locs) > limit:
            locs = locs[:limit // 2] + ["..."] + locs[-limit // 2:]
        return " -> ".join(locs)

    # ------------------------------------------------------------------ value resolution through contexts
    def resolve(self, ctx, term, depth=0):
        """Replace parameters / upvars of spliced bodies by the caller's terms (best effort)."""
        if depth > 40 or ctx is None or ctx is getattr(self, "_stop", None):
            return term
        k = term[0]
        if k == "param":
            r = self._param_up(ctx, term[1], None)
            return r if r is not None else term
        if k == "field" and term[1][0] == "param" and term[1][1] == 1 and ctx.bv.body["kind"] in ("coroutine", "closure"):
            r = self._param_up(ctx, 1, term[3])
            return r if r is not None else term
        if k == "deref" and term[1][0] == "field" and term[1][1][0] == "param" and term[1][1][1] == 1 and ctx.bv.body["kind"] in ("coroutine", "closure"):
            r = self._param_up(ctx, 1, term[1][3])
            if r is not None:
                return r[1] if r[0] == "ref" else ("deref", r)
            return term
        if k == "phi":
            return mkphi([self.resolve(ctx, p, depth + 1) for p in term[1]])
        if k in ("ref", "deref", "discr"):
            return (k, self.resolve(ctx, term[1], depth + 1))
        if k == "field":
            base = self.resolve(ctx, term[1], depth + 1)
            if base[0] == "agg" and isinstance(term[3], int) and term[3] < len(base[3]):
                return base[3][term[3]]
            return ("field", base, term[2], term[3])
        if k == "downcast":
            return ("downcast", self.resolve(ctx, term[1], depth + 1), term[2])
        if k == "agg":
            return term[:3] + ([self.resolve(ctx, a, depth + 1) for a in term[3]],) + term[4:]
        if k == "call":
            return ("call", term[1], [self.resolve(ctx, a, depth + 1) for a in term[2]], term[3])
        if k == "cast":
            return ("cast", term[1], self.resolve(ctx, term[2], depth + 1), term[3])
        return term

    def _param_up(self, ctx, l, upvar):
        how = ctx.how
        par = ctx.parent
        if par is None:
            return None
        pbv = par.bv
        kind = how[0]
        if kind == "call":
            t = how[1]
            if upvar is not None:
                return None
            if l - 1 < len(t["args"]):
                tr = pbv.trace_op(t["args"][l - 1])
                return self.resolve(par, tr)
            return None
        if kind in ("poll", "chain", "select", "agg", "closure"):
            if upvar is None:
                return None
            # locate the creation of this coroutine
            cid = ctx.bv.id
            if kind == "agg":
                ops = how[1]["r"]["ops"]
                if upvar < len(ops):
                    return self.resolve(par, pbv.trace_op(ops[upvar]))
                return None
            # search: aggregate in the parent body, or async-fn wrapper called from the parent body
            for bi in pbv.reach0:
                for s in pbv.blocks[bi]["s"]:
                    if s["k"] == "assign" and s["r"]["k"] == "agg" and s["r"].get("id") == cid:
                        ops = s["r"]["ops"]
                        if upvar < len(ops):
                            return self.resolve(par, pbv.trace_op(ops[upvar]))
            wrapper = ctx.bv.body.get("parent")
            cands = []
            for bi, t in pbv.calls():
                if (t.get("resolved_id") or t.get("callee_id")) == wrapper or t.get("callee_id") == wrapper:
                    cands.append((bi, t))
            if len(cands) >= 1 and wrapper in self.w.by_id:
                wbv = self.w.bv(wrapper)
                # wrapper body: _0 = coroutine{ops}
                for bi in wbv.reach0:
                    for s in wbv.blocks[bi]["s"]:
                        if s["k"] == "assign" and s["r"]["k"] == "agg" and s["r"].get("id") == cid:
                            ops = s["r"]["ops"]
                            if upvar >= len(ops):
                                return None
                            wt = wbv.trace_op(ops[upvar])
                            # pick the wrapper call that feeds this poll if identifiable
                            chosen = cands
                            if kind == "poll":
                                recv = pbv.trace_op(how[1]["args"][0])
                                hit = [c for c in cands if any(x[0] == "call" and x[3] == c[0] for x in walk(recv))]
                                if hit:
                                    chosen = hit
                            outs = []
                            for (cbi, ct) in chosen:
                                outs.append(self._subst_params(wt, ct, pbv, par))
                            return mkphi(outs)
            return None
        return None

    def _subst_params(self, term, call_t, pbv, par):
        k = term[0]
        if k == "param":
            i = term[1] - 1
            if i < len(call_t["args"]):
                return self.resolve(par, pbv.trace_op(call_t["args"][i]))
            return term
        if k in ("ref", "deref"):
            return (k, self._subst_params(term[1], call_t, pbv, par))
        if k == "phi":
            return mkphi([self._subst_params(p, call_t, pbv, par) for p in term[1]])
        if k == "field":
            return ("field", self._subst_params(term[1], call_t, pbv, par), term[2], term[3])
        return term

    def resolve_to(self, stop, ctx, term):
        """resolve(), but only up to the context `stop`: the result is a term of stop's body."""
        self._stop = stop
        try:
            return self.resolve(ctx, term)
        finally:
            self._stop = None

    def trace(self, node, operand):
        """Term of an operand at a node, with parameters resolved through the calling contexts."""
        n = node if isinstance(node, Node) else self.nodes[node]
        return self.resolve(n.ctx, n.ctx.bv.trace_op(operand))


def dominators(succ, pred, root, nodes=None):
    """Iterative dominator computation (Cooper-Harvey-Kennedy). Returns idom dict."""
    order = []
    seen = set()
    st = [(root, iter(succ[root]))]
    seen.add(root)
    while st:
        v, it = st[-1]
        adv = False
        for w_ in it:
            if w_ not in seen and (nodes is None or w_ in nodes):
                seen.add(w_)
                st.append((w_, iter(succ[w_])))
                adv = True
                break
        if not adv:
            order.append(v)
            st.pop()
    rpo = order[::-1]
    num = {v: i for i, v in enumerate(rpo)}
    idom = {root: root}
    changed = True
    while changed:
        changed = False
        for v in rpo[1:]:
            new = None
            for p in pred[v]:
                if p in idom and p in num:
                    if new is None:
                        new = p
                    else:
                        a, b = p, new
                        while a != b:
                            while num[a] > num[b]:
                                a = idom[a]
                            while num[b] > num[a]:
                                b = idom[b]
                        new = a
            if new is not None and idom.get(v) != new:
                idom[v] = new
                changed = True
    return idom


def dominates(idom, a, b):
    """a dominates b?"""
    x = b
    while True:
        if x == a:
            return True
        p = idom.get(x)
        if p is None or p == x:
            return False
        x = p
