"""A small evaluator of pure MIR bodies over a *finite* abstract domain: opaque symbols that are only ever compared,
booleans, enum/struct/tuple shapes, closures.  It is used for functions whose result depends on their inputs only through
comparisons (C19-R2: `is_after_or_eq_any`): the caller enumerates the finitely many orderings of the symbols and the
variants of the enum arguments, and the evaluator follows the one path each assignment takes — through local callees,
closures and the Option/bool combinators of std — whatever the spelling of the function.  Anything it does not model
(mutation through references, loops that do not terminate within the step bound, unknown foreign calls) yields Unknown,
and the rule says INCONCLUSIVE."""
from . import lib, guards
from .core import BV


class Unknown(Exception):
    pass


def sym(name):
    return ("sym", name)


def boolean(b):
    return ("bool", bool(b))


def adt(variant, fields=()):
    return ("adt", variant, list(fields))


NONE = ("adt", "None", [])


def some(v):
    return ("adt", "Some", [v])


MAX_STEPS = 4000


class Eval:
    def __init__(self, W, cmp_oracle):
        """cmp_oracle(a_name, b_name) -> '<' | '=' | '>' | None for two symbols."""
        self.W = W
        self.cmp = cmp_oracle
        self.steps = 0

    # ------------------------------------------------------------ values
    def rel(self, a, b):
        a, b = self.deref_all(a), self.deref_all(b)
        if a[0] == "sym" and b[0] == "sym":
            if a[1] == b[1]:
                return "="
            r = self.cmp(a[1], b[1])
            if r is None:
                r2 = self.cmp(b[1], a[1])
                if r2 is not None:
                    r = {"<": ">", ">": "<", "=": "="}[r2]
            if r is None:
                raise Unknown("comparison of %s and %s" % (a[1], b[1]))
            return r
        if a[0] == "bool" and b[0] == "bool":
            return "=" if a[1] == b[1] else ("<" if not a[1] else ">")
        raise Unknown("comparison of %s / %s" % (a[0], b[0]))

    def deref_all(self, v):
        while v[0] == "ref":
            v = v[1]
        return v

    def truth(self, v):
        v = self.deref_all(v)
        if v[0] != "bool":
            raise Unknown("not a boolean: %s" % (v[0],))
        return v[1]

    # ------------------------------------------------------------ places
    def read_place(self, fr, pl):
        if pl["l"] not in fr:
            raise Unknown("read of unset local _%d" % pl["l"])
        v = fr[pl["l"]]
        for e in pl.get("p", []):
            k = e["k"]
            if k == "deref":
                if v[0] != "ref":
                    raise Unknown("deref of %s" % v[0])
                v = v[1]
            elif k == "downcast":
                if v[0] != "adt" or (e.get("n") is not None and v[1] != e["n"]):
                    raise Unknown("downcast of %s to %s" % (v[1] if v[0] == "adt" else v[0], e.get("n")))
            elif k == "field":
                if v[0] in ("adt", "tuple", "closure") and e["i"] < len(v[2] if v[0] != "tuple" else v[1]):
                    v = (v[2] if v[0] != "tuple" else v[1])[e["i"]]
                else:
                    raise Unknown("field %s of %s" % (e["i"], v[0]))
            else:
                raise Unknown("projection " + k)
        return v

    def write_place(self, fr, pl, val):
        pj = pl.get("p", [])
        if not pj:
            fr[pl["l"]] = val
            return
        if any(e["k"] == "deref" for e in pj):
            raise Unknown("write through a reference")
        # write into a field of an aggregate held by value
        root = fr.get(pl["l"])
        if root is None:
            raise Unknown("field write into unset local")

        def upd(v, rest):
            if not rest:
                return val
            e = rest[0]
            if e["k"] == "downcast":
                return upd(v, rest[1:])
            if e["k"] == "field" and v[0] in ("adt", "tuple", "closure"):
                fs = list(v[2] if v[0] != "tuple" else v[1])
                while len(fs) <= e["i"]:
                    fs.append(("?",))
                fs[e["i"]] = upd(fs[e["i"]], rest[1:])
                return (v[0], v[1], fs) if v[0] != "tuple" else ("tuple", fs)
            raise Unknown("write projection")
        fr[pl["l"]] = upd(root, pj)

    def operand(self, bv, fr, o):
        if "k" in o:
            k = o["k"]
            ty = bv.crate.types[k["t"]]
            if ty.get("s") == "bool" and "v" in k:
                return boolean(k["v"])
            if ty.get("k") == "fndef" or "def" in k:
                return ("fn", ty.get("d") or k.get("def"), k.get("s"))
            if "v" in k:
                return ("int", k["v"])
            if "promoted" in k:
                pv = bv.promoted(k["promoted"])
                if pv is not None:
                    return self.run(pv, [])
            if ty.get("s") == "()":
                return ("tuple", [])
            raise Unknown("constant " + str(k.get("s"))[:40])
        pl = o.get("m") or o.get("c")
        if pl is None:
            raise Unknown("operand")
        return self.read_place(fr, pl)

    # ------------------------------------------------------------ rvalues
    def rvalue(self, bv, fr, r):
        k = r["k"]
        if k == "use":
            return self.operand(bv, fr, r["o"])
        if k in ("ref", "rawptr"):
            return ("ref", self.read_place(fr, r["p"]))
        if k == "copyderef":
            return self.read_place(fr, r["p"])
        if k == "discr":
            v = self.read_place(fr, r["p"])
            if v[0] != "adt":
                raise Unknown("discriminant of %s" % v[0])
            return ("discr", v[1], r.get("t"))
        if k == "agg":
            ops = [self.operand(bv, fr, o) for o in r["ops"]]
            ak = r["ak"]
            if ak == "adt":
                return ("adt", r["vn"], ops)
            if ak == "tuple":
                return ("tuple", ops)
            if ak in ("closure",):
                return ("closure", r["id"], ops)
            raise Unknown("aggregate " + ak)
        if k == "unop":
            v = self.operand(bv, fr, r["o"])
            if r["op"] == "Not":
                return boolean(not self.truth(v))
            raise Unknown("unop " + r["op"])
        if k == "binop":
            a, b = self.operand(bv, fr, r["a"]), self.operand(bv, fr, r["b"])
            op = r["op"]
            if op in ("BitOr", "BitAnd", "BitXor"):
                x, y = self.truth(a), self.truth(b)
                return boolean({"BitOr": x or y, "BitAnd": x and y, "BitXor": x != y}[op])
            if op in ("Eq", "Ne", "Lt", "Le", "Gt", "Ge"):
                rl = self.rel(a, b)
                return boolean({"Eq": rl == "=", "Ne": rl != "=", "Lt": rl == "<", "Le": rl in "<=", "Gt": rl == ">", "Ge": rl in ">="}[op])
            raise Unknown("binop " + op)
        if k == "cast":
            return self.operand(bv, fr, r["o"])
        raise Unknown("rvalue " + k)

    # ------------------------------------------------------------ calls
    def call_value(self, f, args):
        """Apply a closure / fn item value to arguments."""
        f = self.deref_all(f)
        if f[0] == "closure":
            if f[1] not in self.W.by_id:
                raise Unknown("closure body " + f[1])
            cb = self.W.bv(f[1])
            return self.run(cb, [f] + list(args))
        if f[0] == "fn":
            d = f[1] or ""
            nm = lib.norm(d)
            if nm.endswith("Option::Some"):
                return some(args[0])
            for cid in self.W.by_id:
                if cid == d or lib.norm(cid) == nm:
                    return self.run(self.W.bv(cid), list(args))
            m = self.model(nm, nm.rsplit("::", 1)[-1], list(args), None)
            if m is not None:
                return m
            raise Unknown("function value " + nm)
        raise Unknown("call of %s" % f[0])

    def model(self, nm, last, a, t):
        """Models of the std functions a comparison helper is written with; None = not modelled."""
        d = self.deref_all
        if nm in ("std::convert::Into::into", "std::convert::From::from", "std::clone::Clone::clone", "std::borrow::ToOwned::to_owned",
                  "std::convert::AsRef::as_ref", "std::borrow::Borrow::borrow", "std::ops::Deref::deref", "std::convert::identity") and a:
            return d(a[0]) if nm.endswith(("clone", "to_owned")) else a[0]
        if nm.startswith("std::cmp::PartialOrd::") or nm.startswith("std::cmp::PartialEq::") or nm.startswith("std::cmp::Ord::"):
            if last in ("ge", "gt", "le", "lt", "eq", "ne") and len(a) == 2:
                rl = self.rel(a[0], a[1])
                return boolean({"ge": rl in ">=", "gt": rl == ">", "le": rl in "<=", "lt": rl == "<", "eq": rl == "=", "ne": rl != "="}[last])
            if last in ("max", "min") and len(a) == 2:
                rl = self.rel(a[0], a[1])
                return (a[1] if rl == "<" else a[0]) if last == "max" else (a[0] if rl in "<=" else a[1])
        if nm.startswith("std::ops::Not::not") and a:
            return boolean(not self.truth(a[0]))
        if nm.startswith(("std::ops::BitOr::bitor", "std::ops::BitAnd::bitand")) and len(a) == 2:
            x, y = self.truth(a[0]), self.truth(a[1])
            return boolean((x or y) if "BitOr" in nm else (x and y))
        if nm.startswith(("std::option::Option", "core::option::Option")) and a:
            o = d(a[0])
            if o[0] != "adt" or o[1] not in ("Some", "None"):
                raise Unknown("Option method on %s" % (o[0],))
            is_some = o[1] == "Some"
            pay = o[2][0] if is_some else None
            if last == "is_some":
                return boolean(is_some)
            if last == "is_none":
                return boolean(not is_some)
            if last in ("as_ref", "as_mut", "as_deref", "copied", "cloned", "take"):
                if last == "take":
                    raise Unknown("Option::take mutates its receiver")
                return some(d(pay)) if is_some else NONE
            if last == "map":
                return some(self.call_value(a[1], [pay])) if is_some else NONE
            if last == "and_then":
                return self.call_value(a[1], [pay]) if is_some else NONE
            if last == "filter":
                return o if is_some and self.truth(self.call_value(a[1], [("ref", pay)])) else NONE
            if last == "or":
                return o if is_some else d(a[1])
            if last == "or_else":
                return o if is_some else self.call_value(a[1], [])
            if last == "xor":
                p = d(a[1])
                return o if (is_some and p[1] == "None") else (p if (not is_some and p[1] == "Some") else NONE)
            if last == "and":
                return d(a[1]) if is_some else NONE
            if last == "zip":
                p = d(a[1])
                return some(("tuple", [pay, p[2][0]])) if (is_some and p[1] == "Some") else NONE
            if last == "unwrap_or":
                return pay if is_some else a[1]
            if last == "unwrap_or_else":
                return pay if is_some else self.call_value(a[1], [])
            if last == "unwrap_or_default":
                if is_some:
                    return pay
                if t is not None and self.W.by_id is not None:
                    pass
                return boolean(False)
            if last == "map_or":
                return self.call_value(a[2], [pay]) if is_some else a[1]
            if last == "map_or_else":
                return self.call_value(a[2], [pay]) if is_some else self.call_value(a[1], [])
            if last in ("is_some_and", "is_none_or"):
                if last == "is_some_and":
                    return boolean(is_some and self.truth(self.call_value(a[1], [pay])))
                return boolean((not is_some) or self.truth(self.call_value(a[1], [pay])))
            if last in ("unwrap", "expect"):
                if is_some:
                    return pay
                raise Unknown("unwrap of None")
        if nm.startswith(("core::bool::<impl bool>::then", "std::primitive::bool::then")) or nm.endswith(("bool>::then", "bool>::then_some")):
            if last == "then_some":
                return some(a[1]) if self.truth(a[0]) else NONE
            if last == "then":
                return some(self.call_value(a[1], [])) if self.truth(a[0]) else NONE
        if nm.startswith("std::ops::FnOnce::call_once") or nm.startswith("std::ops::Fn::call") or nm.startswith("std::ops::FnMut::call_mut"):
            tup = d(a[1]) if len(a) > 1 else ("tuple", [])
            return self.call_value(a[0], tup[1] if tup[0] == "tuple" else [tup])
        return None

    def call(self, bv, fr, t):
        args = [self.operand(bv, fr, o) for o in t["args"]]
        cid = t.get("resolved_id") or t.get("callee_id")
        if cid in self.W.by_id and self.W.by_id[cid].get("kind") in ("fn", "closure"):
            return self.run(self.W.bv(cid), args)
        nm = lib.norm(t.get("callee") or "")
        m = self.model(nm, nm.rsplit("::", 1)[-1], args, t)
        if m is None:
            raise Unknown("call of " + nm)
        return m

    # ------------------------------------------------------------ bodies
    def run(self, bv, args):
        if len(args) != bv.argc:
            # closures called with a tupled argument list
            if bv.body.get("kind") == "closure" and len(args) == 2 and self.deref_all(args[1])[0] == "tuple" and bv.argc == 1 + len(self.deref_all(args[1])[1]):
                args = [args[0]] + list(self.deref_all(args[1])[1])
            else:
                raise Unknown("arity of %s: %d given, %d expected" % (bv.name, len(args), bv.argc))
        fr = {i + 1: a for i, a in enumerate(args)}
        if bv.body.get("kind") == "closure" and args and args[0][0] == "closure":
            # the body sees its environment by reference or by value, depending on the closure kind
            l1 = bv.body["mir"].get("locals", [])
            try:
                ty1 = bv.crate.types[l1[1]["t"]] if len(l1) > 1 and isinstance(l1[1], dict) else None
            except (KeyError, IndexError, TypeError):
                ty1 = None
            if ty1 is not None and ty1.get("k") == "ref":
                fr[1] = ("ref", args[0])
        bi = 0
        while True:
            self.steps += 1
            if self.steps > MAX_STEPS:
                raise Unknown("step bound")
            bl = bv.blocks[bi]
            for s_ in bl["s"]:
                if s_["k"] == "assign":
                    self.write_place(fr, s_["p"], self.rvalue(bv, fr, s_["r"]))
                elif s_["k"] == "setdiscr":
                    raise Unknown("set_discriminant")
            t = bl["t"]
            k = t["k"]
            if k == "return":
                if 0 not in fr:
                    return ("tuple", [])
                return fr[0]
            if k == "goto":
                bi = t["t"]
            elif k in ("falseedge", "falseunwind", "drop"):
                bi = t["t"]
            elif k == "assert":
                bi = t["t"]
            elif k == "switch":
                v = self.operand(bv, fr, t["o"])
                v = self.deref_all(v)
                if v[0] == "bool":
                    key = 1 if v[1] else 0
                elif v[0] == "int":
                    key = v[1]
                elif v[0] == "discr":
                    names = guards.variant_names(bv.crate, bv.crate.types[v[2]]) if v[2] is not None else {}
                    keys = [d_ for d_, n_ in names.items() if n_ == v[1]]
                    if len(keys) != 1:
                        raise Unknown("discriminant value of " + v[1])
                    key = keys[0]
                else:
                    raise Unknown("switch on %s" % v[0])
                nxt = None
                for val, tgt in t["arms"]:
                    if val == key:
                        nxt = tgt
                bi = nxt if nxt is not None else t["otherwise"]
            elif k == "call":
                val = self.call(bv, fr, t)
                self.write_place(fr, t["dest"], val)
                if t.get("t") is None:
                    raise Unknown("diverging call")
                bi = t["t"]
            else:
                raise Unknown("terminator " + k)
