"""Storage-key user census: every Storage / StorageExt call with its key constant, accessor and value term."""
from .core import BV
from . import lib, terms

STORAGE_TRAITS = ("storage::Storage", "storage::StorageExt")


def key_users(world, crate, transparent=None):
    tr = set(terms.TRANSPARENT) | {"std::result::Result::<T, E>::map_err"}
    out = []
    for b in crate.bodies:
        bv = BV.of(b)
        for bi, t in bv.calls():
            if t.get("trait") not in STORAGE_TRAITS:
                continue
            if t["name"] in ("commit", "commit_or_log"):
                continue
            if b.get("trait_default") in STORAGE_TRAITS:
                continue  # the Ext wrappers themselves
            if len(t["args"]) < 2:
                continue
            kt = bv.trace_op(t["args"][1])
            while kt[0] in ("ref", "deref"):
                kt = kt[1]
            kdef = kt[1].get("def") if kt[0] == "const" else None
            kval = lib.term_const(crate, kt) if kt[0] == "const" else None
            val = None
            if len(t["args"]) > 2:
                val = terms.render(bv, bv.trace_op(t["args"][2]), world, {}, transparent=tr)
            out.append({"bv": bv, "bi": bi, "name": t["name"], "trait": t["trait"], "key_def": kdef, "key_val": kval,
                        "key_term": terms.render(bv, kt, world, {}), "value": val, "loc": lib.loc(bv, bi), "t": t})
    return out
