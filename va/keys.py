"""Storage-key user census: every Storage / StorageExt call with its key constant, accessor and value term."""
from .core import BV
from . import lib, terms

STORAGE_TRAITS = ("storage::Storage", "storage::StorageExt")


def key_users(world, crate, transparent=None):
    tr = set(terms.TRANSPARENT) | {"std::result::Result::<T, E>::map_err"}
    out = []
    for b in crate.bodies:
        bv = BV.of(b)
        for bi, t in bv.calls():
            if t.get("trait") not in STORAGE_TRAITS:
                continue
            if t["name"] in ("commit", "commit_or_log"):
                continue
            if b.get("trait_default") in STORAGE_TRAITS:
                continue  # the Ext wrappers themselves
            if len(t["args"]) < 2:
                continue
            kt = bv.trace_op(t["args"][1])
            while kt[0] in ("ref", "deref"):
                kt = kt[1]
            if kt[0] != "const" and b.get("kind") == "coroutine" and world is not None:
                # a private async helper that is handed the key (`set_option_int_or_log(storage, KEY, value)`): one user per
                # call site of the helper, read in the caller — key and value are the caller's arguments
                ki = lib.async_upvar_param_index(world, bv, kt)
                vi = lib.async_upvar_param_index(world, bv, bv.trace_op(t["args"][2])) if len(t["args"]) > 2 else None
                si = lib.async_upvar_param_index(world, bv, bv.trace_op(t["args"][0]))
                wid = b.get("parent")
                if ki is not None and wid:
                    for b2 in crate.bodies:
                        v2 = BV.of(b2)
                        for bi2, t2 in v2.calls():
                            if (t2.get("resolved_id") or t2.get("callee_id")) != wid or ki - 1 >= len(t2["args"]):
                                continue
                            kt2 = v2.trace_op(t2["args"][ki - 1])
                            while kt2[0] in ("ref", "deref"):
                                kt2 = kt2[1]
                            if kt2[0] != "const":
                                continue
                            args2 = [t2["args"][si - 1] if si else t["args"][0], t2["args"][ki - 1]]
                            val2 = None
                            if vi is not None and vi - 1 < len(t2["args"]):
                                args2.append(t2["args"][vi - 1])
                                val2 = terms.render(v2, v2.trace_op(t2["args"][vi - 1]), world, {}, transparent=tr)
                            out.append({"bv": v2, "bi": bi2, "name": t["name"], "trait": t["trait"], "key_def": kt2[1].get("def"), "key_val": lib.term_const(crate, kt2),
                                        "key_term": terms.render(v2, kt2, world, {}), "value": val2, "loc": lib.loc(v2, bi2), "t": dict(t2, args=args2, name=t["name"]), "via_helper": b["name"]})
                    continue
            kdef = kt[1].get("def") if kt[0] == "const" else None
            kval = lib.term_const(crate, kt) if kt[0] == "const" else None
            val = None
            if len(t["args"]) > 2:
                val = terms.render(bv, bv.trace_op(t["args"][2]), world, {}, transparent=tr)
            out.append({"bv": bv, "bi": bi, "name": t["name"], "trait": t["trait"], "key_def": kdef, "key_val": kval,
                        "key_term": terms.render(bv, kt, world, {}), "value": val, "loc": lib.loc(bv, bi), "t": t})
    return out
