"""E6: panic-capable site census, reachability over the local call graph, unsafe census."""
from .core import BV, is_logging_span
from . import lib

PANIC_API = [
    # (callee suffix / pattern, resolved must contain (or None), description)
    ("std::option::Option::<T>::unwrap", None, "Option::unwrap"),
    ("std::option::Option::<T>::expect", None, "Option::expect"),
    ("std::result::Result::<T, E>::unwrap", None, "Result::unwrap"),
    ("std::result::Result::<T, E>::expect", None, "Result::expect"),
    ("std::result::Result::<T, E>::unwrap_err", None, "Result::unwrap_err"),
    ("std::result::Result::<T, E>::expect_err", None, "Result::expect_err"),
    ("std::ops::Index::index", None, "Index::index"),
    ("std::ops::IndexMut::index_mut", None, "IndexMut::index_mut"),
    ("std::vec::Vec::<T, A>::remove", None, "Vec::remove"),
    ("std::vec::Vec::<T, A>::swap_remove", None, "Vec::swap_remove"),
    ("std::vec::Vec::<T, A>::insert", None, "Vec::insert"),
    ("std::vec::Vec::<T, A>::drain", None, "Vec::drain"),
    ("std::vec::Vec::<T, A>::split_off", None, "Vec::split_off"),
    ("core::slice::<impl [T]>::split_at", None, "slice::split_at"),
    ("core::slice::<impl [T]>::split_at_mut", None, "slice::split_at_mut"),
    ("core::slice::<impl [T]>::copy_from_slice", None, "slice::copy_from_slice"),
    ("core::slice::<impl [T]>::clone_from_slice", None, "slice::clone_from_slice"),
    ("core::slice::<impl [T]>::chunks", None, "slice::chunks"),
    ("core::str::<impl str>::split_at", None, "str::split_at"),
    ("std::string::String::truncate", None, "String::truncate"),
    ("std::string::String::remove", None, "String::remove"),
    ("std::string::String::insert", None, "String::insert"),
    ("std::string::String::insert_str", None, "String::insert_str"),
    ("std::string::String::split_off", None, "String::split_off"),
    ("std::string::String::drain", None, "String::drain"),
    ("std::string::String::replace_range", None, "String::replace_range"),
    ("std::vec::Vec::<T, A>::truncate", None, None),
    ("core::slice::<impl [T]>::chunks_exact", None, "slice::chunks_exact"),
    ("core::slice::<impl [T]>::windows", None, "slice::windows"),
    ("core::slice::<impl [T]>::rotate_left", None, "slice::rotate_left"),
    ("core::slice::<impl [T]>::rotate_right", None, "slice::rotate_right"),
    ("core::slice::<impl [T]>::swap", None, "slice::swap"),
    ("core::array::<impl [T; N]>::from_slice", None, None),
    ("generic_array::GenericArray::<T, N>::from_slice", None, "GenericArray::from_slice"),
    ("generic_array::GenericArray::<T, N>::clone_from_slice", None, "GenericArray::clone_from_slice"),
    ("std::cell::RefCell::<T>::borrow", None, "RefCell::borrow"),
    ("std::cell::RefCell::<T>::borrow_mut", None, "RefCell::borrow_mut"),
    ("std::ops::Add::add", "std::time::", "time + duration"),
    ("std::ops::Sub::sub", "std::time::", "time - duration"),
    ("std::ops::AddAssign::add_assign", "std::time::", "time += duration"),
    ("std::ops::SubAssign::sub_assign", "std::time::", "time -= duration"),
    ("std::ops::Mul::mul", "std::time::", "duration * n"),
    ("std::ops::Div::div", "std::time::", "duration / n"),
    ("std::time::Instant::duration_since", None, "Instant::duration_since"),
    ("std::time::Instant::elapsed", None, "Instant::elapsed"),
    ("std::time::Duration::from_secs_f64", None, "Duration::from_secs_f64"),
    ("std::time::Duration::from_secs_f32", None, "Duration::from_secs_f32"),
    ("std::iter::Iterator::step_by", None, "Iterator::step_by"),
    ("std::time::Duration::new", None, "Duration::new"),
    ("std::time::Duration::mul_f64", None, "Duration::mul_f64"),
    ("std::time::Duration::mul_f32", None, "Duration::mul_f32"),
    ("std::time::Duration::div_f64", None, "Duration::div_f64"),
    ("std::time::Duration::div_f32", None, "Duration::div_f32"),
    ("core::slice::<impl [T]>::copy_within", None, "slice::copy_within"),
    ("core::slice::<impl [T]>::rchunks", None, "slice::rchunks"),
    ("core::slice::<impl [T]>::chunks_mut", None, "slice::chunks_mut"),
    ("core::slice::<impl [T]>::select_nth_unstable", None, "slice::select_nth_unstable"),
    ("core::slice::<impl [T]>::split_first_chunk", None, None),
    ("core::slice::<impl [T]>::as_chunks", None, None),
    ("std::vec::Vec::<T, A>::splice", None, "Vec::splice"),
    ("std::vec::Vec::<T, A>::extend_from_within", None, "Vec::extend_from_within"),
    ("std::vec::Vec::<T, A>::swap", None, "Vec::swap"),
    ("std::collections::VecDeque::<T, A>::swap", None, "VecDeque::swap"),
    ("std::collections::VecDeque::<T, A>::insert", None, "VecDeque::insert"),
    ("std::collections::VecDeque::<T, A>::drain", None, "VecDeque::drain"),
    ("std::collections::VecDeque::<T, A>::split_off", None, "VecDeque::split_off"),
    ("core::char::methods::<impl char>::from_digit", None, "char::from_digit"),
    ("core::char::methods::<impl char>::to_digit", None, "char::to_digit"),
    ("core::str::<impl str>::split_at_mut", None, "str::split_at_mut"),
    ("std::cell::RefCell::<T>::replace", None, "RefCell::replace"),
    ("std::cell::RefCell::<T>::swap", None, "RefCell::swap"),
    ("std::rc::Rc::<T, A>::unwrap_or_clone", None, None),
    ("std::thread::JoinHandle::<T>::join", None, None),
    ("std::sync::mpsc::Receiver::<T>::recv", None, None),
    # third-party items with a documented panic
    ("rand::Rng::gen_range", None, "Rng::gen_range"),
    ("rand::Rng::random_range", None, "Rng::random_range"),
    ("rand::Rng::gen_ratio", None, "Rng::gen_ratio"),
    ("rand::Rng::gen_bool", None, "Rng::gen_bool"),
    ("http::HeaderValue::from_static", None, "HeaderValue::from_static"),
    ("http::header::HeaderName::from_static", None, "HeaderName::from_static"),
    ("http::Uri::from_static", None, "Uri::from_static"),
    ("http::HeaderMap::<T>::with_capacity", None, "HeaderMap::with_capacity"),
    ("http::HeaderMap::<T>::insert", None, None),   # panics only past 32768 distinct headers
    ("generic_array::GenericArray::<T, N>::from_mut_slice", None, "GenericArray::from_mut_slice"),
    ("generic_array::GenericArray::<T, N>::from_exact_iter", None, None),
    ("chrono::DateTime::<Tz>::from_timestamp_millis", None, None),
    ("chrono::NaiveDate::from_ymd", None, "NaiveDate::from_ymd"),
    ("chrono::NaiveTime::from_hms", None, "NaiveTime::from_hms"),
    ("chrono::NaiveDateTime::from_timestamp", None, "NaiveDateTime::from_timestamp"),
    ("chrono::TimeZone::timestamp", None, "TimeZone::timestamp"),
    ("chrono::TimeZone::ymd", None, "TimeZone::ymd"),
    ("chrono::Duration::seconds", None, "chrono::Duration::seconds"),
    ("chrono::Duration::milliseconds", None, "chrono::Duration::milliseconds"),
    ("chrono::Duration::days", None, "chrono::Duration::days"),
    ("serde_json::Value::take", None, None),
    ("futures::future::Fuse::<Fut>::terminated", None, None),
    ("futures::channel::oneshot::Receiver::<T>::try_recv", None, None),
    ("std::sync::Mutex::<T>::lock", None, None),  # poison handled via unwrap
    ("std::string::String::from_utf16", None, None),
]

DIVERGING_OK = ()


def classify_call(t):
    """Return a description if this call can panic by API contract, else None."""
    callee = lib.norm(t.get("callee") or "")
    res = lib.norm(t.get("resolved") or "")
    for pat, rsub, desc in PANIC_API:
        if desc is None:
            continue
        # a foreign item can be named through a re-export (`elliptic_curve::generic_array::GenericArray::..`)
        if (callee == pat or callee.endswith("::" + pat)) and (rsub is None or rsub in res):
            return desc
    return None


def panic_sites(bv, include_logging=False):
    """All panic-capable sites in a body (reachable, non-cleanup)."""
    out = []
    c = bv.crate
    ord_ = {}
    for bi in sorted(bv.reach0):
        bl = bv.blocks[bi]
        t = bl["t"]
        k = t["k"]
        desc = None
        if k == "assert":
            m = t["msg"]
            if m.startswith("Resumed"):
                continue
            desc = "assert:" + m
        elif k == "call":
            if t.get("t") is None:
                callee = lib.norm(t.get("callee") or "<indirect>")
                desc = "diverges:" + callee.split("::")[-1]
                if callee.endswith("begin_panic") or "panic" in callee or "unreachable" in callee or "assert_failed" in callee or "unwrap_failed" in callee or "expect_failed" in callee:
                    desc = "panic:" + callee.split("::")[-1]
            else:
                d = classify_call(t)
                if d is None:
                    # time arithmetic via operators resolves to std::time impls
                    callee = lib.norm(t.get("callee") or "")
                    res = lib.norm(t.get("resolved") or "")
                    if callee in ("std::ops::Add::add", "std::ops::Sub::sub", "std::ops::AddAssign::add_assign", "std::ops::SubAssign::sub_assign", "std::ops::Mul::mul") and ("std::time::" in res):
                        d = callee.split("::")[-1] + ":" + res.split(" as ")[0].strip("<")
                if d:
                    desc = "api:" + d
        if desc is None:
            continue
        if not include_logging and is_logging_span(t["sp"]):
            continue
        n = ord_.get(desc, 0)
        ord_[desc] = n + 1
        out.append({"bi": bi, "desc": desc, "ord": n, "loc": lib.loc(bv, bi), "key": "%s#%s#%d" % (bv.name, desc, n), "t": t})
    return out


def local_callees(world, bv):
    """Bodies a body may transfer control to: direct/resolved local calls, constructed closures and
    coroutines (they may be invoked later), fn items used as values."""
    out = set()
    for bi in bv.reach0:
        bl = bv.blocks[bi]
        for s in bl["s"]:
            if s["k"] == "assign":
                r = s["r"]
                if r["k"] == "agg" and r.get("ak") in ("closure", "coroutine", "coroutine_closure") and r["id"] in world.by_id:
                    out.add(r["id"])
                _fn_consts(world, bv, r, out)
        t = bl["t"]
        if t["k"] == "call":
            for key in ("resolved_id", "callee_id"):
                i = t.get(key)
                if i in world.by_id:
                    out.add(i)
                    b = world.by_id[i]
                    if b["kind"] == "fn" and b.get("async"):
                        co = i + "::{closure#0}"
                        if co in world.by_id:
                            out.add(co)
            for a in t["args"]:
                k = a.get("k")
                if k:
                    ty = bv.crate.types[k["t"]]
                    if ty.get("k") == "fndef" and ty.get("id") in world.by_id:
                        out.add(ty["id"])
            # unresolved trait-method calls on generic types: every local impl of that item may run
            if t.get("trait") and not t.get("resolved_id") and t.get("callee_id") not in world.by_id:
                pass
    return out


def _fn_consts(world, bv, r, out):
    ops = []
    if r["k"] == "use":
        ops = [r["o"]]
    elif r["k"] == "agg":
        ops = r["ops"]
    elif r["k"] == "cast":
        ops = [r["o"]]
    for o in ops:
        k = o.get("k")
        if k:
            ty = bv.crate.types[k["t"]]
            if ty.get("k") == "fndef" and ty.get("id") in world.by_id:
                out.add(ty["id"])


def reachable_bodies(world, roots, trait_dispatch=None):
    """Transitive closure over local_callees.  trait_dispatch(t, bv) may add impl bodies for
    unresolved trait calls."""
    seen = set()
    st = list(roots)
    while st:
        i = st.pop()
        if i in seen or i not in world.by_id:
            continue
        seen.add(i)
        bv = world.bv(i)
        for j in local_callees(world, bv):
            if j not in seen:
                st.append(j)
        if trait_dispatch:
            for bi, t in bv.calls():
                for j in trait_dispatch(t, bv):
                    if j not in seen:
                        st.append(j)
    return seen


def site_what(world, bv, st):
    """A position-independent descriptor of a panic-capable site: what is unwrapped / indexed / asserted, as a
    canonical term with parameters anonymised.  It survives reordering of statements, renaming, added or removed
    sibling sites and moving the code into a helper; it changes when the operand itself changes."""
    import re
    from . import terms, optnorm
    t = st["t"]
    parts = []
    if t["k"] == "call":
        args = t.get("args") or []
        if st["desc"].startswith("api:Index") or st["desc"].startswith("api:Vec::") or st["desc"].startswith("api:slice") or st["desc"].startswith("api:str"):
            use = args
        elif st["desc"].startswith("api:"):
            use = args[:1]
        else:
            use = args
        for a in use:
            try:
                tm = optnorm.inline_all(world, bv, bv.trace_op(a)) if world is not None else bv.trace_op(a)
                ft = terms.format_term(bv, tm) if st["desc"].startswith("panic:") else None
                if ft is not None and ft[0] is not None:
                    parts.append("fmt(%r)" % ft[0])
                else:
                    parts.append(terms.render(bv, tm, world, {}))
            except Exception as e:  # descriptor only; never a verdict
                parts.append("?")
    elif t["k"] == "assert":
        for a in (t.get("ops") or []) + ([t["cond"]] if isinstance(t.get("cond"), dict) else []):
            try:
                parts.append(terms.render(bv, bv.trace_op(a), world, {}))
            except Exception:
                parts.append("?")
    s = "; ".join(parts)
    s = _strip_adapters(s)
    # the task context argument of poll() is noise
    while True:
        m = re.search(r"get_context\(", s)
        if not m:
            break
        c = optnorm._match_paren(s, m.end() - 1)
        if c < 0:
            break
        s = s[:m.start()] + "cx" + s[c + 1:]
    s = re.sub(r"\('undef', \d+\)", "undef", s)
    s = optnorm.canon(s)
    s = re.sub(r"param\d+(\.\d+)*", "_", s)
    s = re.sub(r"\('rec', \d+\)", "rec", s)
    s = re.sub(r"\{closure#\d+\}", "{closure}", s)
    return s[:300]


ADAPTERS = ("into_owned", "to_owned", "as_ref", "as_deref", "deref", "borrow", "clone", "into", "cloned", "as_slice", "as_mut_slice", "to_vec")


def _strip_adapters(s):
    """Ownership/borrow adapters do not change what is unwrapped: f(x.into_owned()) and f(x) are one site."""
    import re
    from . import optnorm
    for _ in range(50):
        m = re.search(r"(?<![A-Za-z_:\x00])(%s)\(" % "|".join(ADAPTERS), s)
        if not m:
            break
        c = optnorm._match_paren(s, m.end() - 1)
        if c < 0:
            break
        inner = s[m.end():c]
        # only single-argument adapter calls
        d = 0
        multi = False
        for ch in inner:
            if ch == "(":
                d += 1
            elif ch == ")":
                d -= 1
            elif ch == "," and d == 0:
                multi = True
        if multi:
            s = s[:m.start()] + "\x00" + s[m.start():]   # leave it, avoid rematching
            continue
        s = s[:m.start()] + inner + s[c + 1:]
    return s.replace("\x00", "")


def site_shape(what):
    """Coarser identity of a site: the outermost operation with its literal arguments, other arguments elided
    (`get(…, 'appid')`, `as_bool(…)`).  Used only for the mock server's by-design assertions, where a refactoring may move a
    check between a closure and its parent (changing how the operand is spelt) without changing what is asserted."""
    import re
    from . import optnorm
    parts = []
    for piece in what.split("; "):
        mf = re.fullmatch(r"(?:_|.*\))\.([A-Za-z_][\w]*(?:\.[A-Za-z_]\w*)*(?:@OK)?)", piece)
        if mf:
            # a field of some operand (`expected.cohort_assertion`, `responses[appid].cohort_assertion`): the field is what matters
            parts.append("…." + mf.group(1))
            continue
        m = re.match(r"([A-Za-z_][A-Za-z_0-9:<>]*)\(", piece)
        if not m:
            parts.append(piece if re.fullmatch(r"'.*'|\d+|fmt\(.*\)|[A-Za-z_:]+\{\}", piece) else "…")
            continue
        c = optnorm._match_paren(piece, m.end() - 1)
        inner = piece[m.end():c] if c > 0 else ""
        args = []
        d = 0
        cur = ""
        for ch in inner:
            if ch == "(" or ch == "{":
                d += 1
            elif ch == ")" or ch == "}":
                d -= 1
            if ch == "," and d == 0:
                args.append(cur.strip())
                cur = ""
            else:
                cur += ch
        if cur.strip():
            args.append(cur.strip())
        parts.append("%s(%s)" % (m.group(1), ", ".join(a if re.fullmatch(r"'.*'|\d+", a) else "…" for a in args)))
    return "; ".join(parts)


def prove_neg_nonneg(bv, site):
    """Proof for an `OverflowNeg` assert: the negated value is the Ok payload of a checked conversion of an unsigned
    quantity (`iN::try_from(duration.as_micros())?`), hence >= 0, and only iN::MIN overflows under negation."""
    from .core import strip, walk
    t = site["t"]
    ops = t.get("ops", [])
    if site.get("desc") != "assert:OverflowNeg" or not ops:
        return None
    x = strip(bv.trace_op(ops[0]))
    # payload projection of a Result/ControlFlow/Option
    if not (x[0] == "okpayload" or (x[0] == "field" and strip(x[1])[0] == "downcast" and strip(x[1])[2] in ("Ok", "Continue", "Some"))):
        return None
    conv = [y for y in walk(x) if y[0] == "call" and lib.norm(y[1]).split("::")[-1] in ("try_from", "try_into")]
    if not conv:
        return None
    src = strip(conv[-1][2][0]) if conv[-1][2] else ("undef",)
    if src[0] == "call" and lib.norm(src[1]) in ("std::time::Duration::as_micros", "std::time::Duration::as_nanos", "std::time::Duration::as_millis", "std::time::Duration::as_secs", "std::time::Duration::subsec_nanos"):
        return "negation of a checked conversion of Duration::%s() (unsigned, so the value is >= 0)" % lib.norm(src[1]).split("::")[-1]
    return None
