"""Per-property claim texts for MANIFEST.json (what is decided, what is trusted)."""
CLAIMS = {
    "C20": {
        "technique": "MIR dataflow rules: index/value provenance and control dependence of the component store, interval bound, derive/impl census, serde delegation",
        "text": "Decides the structural clauses of Version parsing/printing/ordering on every CFG path of the anchored bodies: the parsed component is stored at the enumerate counter, unconditionally, in bounds; Display joins all four components with '.'; serde delegates to Display/FromStr; Eq/Ord are derived over [u32;4]; From<[u32;N]> zero-fills. Breaking any clause breaks parse/print/order behaviour for some input.",
        "note": "Does not decide parse(print(v)) = v or the rejection set as arithmetic facts over all strings; trusts core::str::parse::<u32>, str::split, Itertools::format, derive(Ord).",
    },
}
CLAIMS["C19"] = {
    "technique": "MIR match-arm term extraction (sibling agreement), decision-path tables, interval/sign-direction abstract domains, panic-site census",
    "text": "Decides per match arm that Add/Sub/destructure/complete_with rebuild the same components, that is_after_or_eq_any is exactly the >=/OR table, that the pre-epoch microsecond conversion can reach i64::MIN, that every branch of the truncation helper can adjust by 0 ns (idempotence) and moves toward the epoch (agreement with the storage encoding), and that the conversion functions have no panic-capable site beyond range-checked SystemTime arithmetic.",
    "note": "Does not decide the round-trip identities as arithmetic facts over all i64 / all instants; trusts std::time arithmetic and Duration::as_micros truncation.",
}
CLAIMS["C06"] = {
    "technique": "interprocedural CFG (supergraph) SCC + concrete-counter abstract simulation of the attempt loop, outcome-labelled edge reachability per error variant, provenance of wait duration / request id / metric fields",
    "text": "Decides on every path of one update check: exactly one send site lies on a cycle and a concrete simulation of its attempt counter bounds the sends by 3; for each OmahaRequestError variant whether the loop can continue (never for Json/HttpBuilder/CupDecoration/CupValidation, only past the limit/is_user/poll-interval tests for HttpTransport, limit/poll-interval for HttpStatus); every retry passes one Timer::wait_for whose duration depends on the counter and on rand::*; only request_id(GUID::new()) changes between attempts; RequestsPerCheck/UpdateCheckResponseTime accounting sites.",
    "note": "The numeric law 2^(k-1) s +/- 500 ms is not decided. Trusts rustc's await lowering, futures combinators, and that HttpRequest/Timer are reached only through their trait items.",
}
CLAIMS["C02"] = {
    "technique": "typestate (taint) dataflow over MIR for the unverified HTTP response, outcome-labelled edge reachability refined by a must-analysis of enum variants, field-writer census with guards",
    "text": "Decides on every CFG path: the value returned by HttpRequest::request is only borrowed into verify_response until the Ok edge of verification (or the no-handler edge) is crossed; build() yields metadata iff a handler is configured; a verification failure converts to CupValidation, leaves the exchange with no effect, and from the CupValidation arm no request/wait/parse/installer/policy/server-response event is reachable; on Err(OmahaRequest) no app-set update or last-contact write, one failure counted; failed event reports only record OmahaEventLost; failed pings only count and persist.",
    "note": "Replay resistance is reduced to nonce freshness (C03) plus the verifier (C01), not decided here. Trusts rustc's await/? lowering; infeasible CFG paths can only cause false alarms.",
}
CLAIMS["C05"] = {
    "technique": "dominance by outcome-labelled edges (edge-cut reachability) on the interprocedural CFG of the long-running loop; provenance of RequestParams / install plan through calling contexts; backward-most-recent-answer rule for reboot_allowed",
    "text": "Decides on every path of StateMachineBuilder::start's task: no effect before all_valid()==true; every request/installer call/non-schedule event lies behind the Ok|OkUpdateDeferred edge of update_check_allowed and negative decisions only reply Throttled; every RequestBuilder of a check is built from the decision's RequestParams (ping: fixed background) and the builder maps them to installsource/interactivity/updatedisabled/sameversionupdate; perform_install only behind UpdateDecision::Ok on the approved plan; perform_reboot only under Needed(_), built only when reboot_needed()==true and never after an installation error, and only after a most recent reboot_allowed()==true.",
    "note": "oneshot_check (documented caller-forced check) is a named exception for the check/validity gates. Embedder traits are trusted to be reached only through their items.",
}
CLAIMS["C04"] = {
    "technique": "regular-language checks on the interprocedural event skeleton: edge-cut dominance and must-pass-through (both directions) between outcome-labelled edges and State announcements, decision-table extraction of the per-app result closure, iterator adaptor-chain census",
    "text": "Decides on every CFG path of one check: first effect is CheckingForUpdates(params.source), last are ScheduleChange, ProtocolStateChange, UpdateCheckResult exactly once and in order; each State (ErrorCheckingForUpdate, NoUpdateAvailable, InstallationDeferredByPolicy, InstallingUpdate, InstallationError) and the OmahaServerResponse event is announced only under and always under the outcome the property names; the per-app result is response.apps mapped 1:1 with the exact action table; in the long-running loop every check is followed by one Idle, WaitingForReboot exactly under Needed.",
    "note": "Values inside events beyond provenance are not decided. Installer contract (one result per offered app, response order) is assumed. Plan-level outcomes give every listed app the same action (source TODO), checked as a uniform-constant rule.",
}
CLAIMS["C07"] = {
    "technique": "symbolic term extraction of the header->interval computation (closures inlined, generic arguments resolved) compared with the stated formula; dominance/must-pass-through on the exchange function's CFG; field-writer and storage-key census",
    "text": "Decides: the stored value is exactly and_then(headers.get(\"X-Retry-After\"), v -> to_str(v).and_then(parse::<u64>) ? Some(from_secs(min(s,86400))) : None); its evaluation dominates the HTTP status test and lies on every path from a verified response, in the single exchange function shared by all request kinds; the field has no other writer; on change the write is followed by ProtocolStateChange, persist and commit in that order before the exchange returns; the storage key is written as as_micros->i64 and read back as i64->u64->from_micros.",
    "note": "What str::parse::<u64> accepts (e.g. a leading '+') is core's contract. Durability of commit is the Storage contract.",
}
CLAIMS["C08"] = {
    "technique": "field-writer census with outcome-edge dominance (only-under / always-under) on the interprocedural CFG, must-pass-through for persist/commit ordering, storage-key writer/reader term comparison",
    "text": "Decides on every CFG path: the failure counter is reset only/always under check Ok and ping parsed Ok, incremented by one only/always/once under failed checks and failed pings, with no stray writer; last_update_time is written (with TimeSource::now) only/always under check Ok, Err(ResponseParser|InstallPlan) and ping success; after the final events the context, the app set and a commit follow in order before the check returns (and for every ping outcome); each context key has one typed writer and reader with paired units, zero stored as absent, Context::load awaited in build(); every storage write is followed by a commit before the next request, reboot or policy decision.",
    "note": "Crash atomicity and durability of commit are the Storage contract; the crash-point quantifier is reduced to write-group/commit pairing. Paths through a failed storage operation are exempt here and covered by C14.",
}
CLAIMS["C09"] = {
    "technique": "sibling-agreement rules over guarded field writes (MIR dataflow + edge dominance), loop-exit census (SCC), outcome-edge dominance on the interprocedural CFG, provenance terms for wire and storage values",
    "text": "Decides: Cohort::update_from_omaha writes each field from the same server field exactly under is_some() of that field; App::load restores each field from the same persisted field exactly when unset; the app loop of AppSetExt::update_from_omaha can only end by iterator exhaustion and updates exactly under id equality; the update runs only/always on check Ok and parsed ping; user counting comes from response.daystart; requests carry the app's cohort and ad = rd = its user-counting day; persist/load use json(PersistedApp{cohort,user_counting}) under the app id.",
    "note": "History-level behaviour is reduced to these per-step rules plus C08-R3 (commit with the check's result).",
}
CLAIMS["C10"] = {
    "technique": "outcome-edge dominance (only-under / always-under) of each report site on the interprocedural CFG, match-arm term tables for event constructors, provenance of session/request ids and version fields through calling contexts, loop census for lost-event accounting",
    "text": "Decides on every CFG path of one check: each outcome (parse error, plan error, deferred, denied, install start, some app installed) reaches exactly its report with the event the property names and no other; download-started dominates perform_install; the per-app event table by installer result; every report uses the check's single session GUID and a request_id(GUID::new()) applied last before its send; previous/next version provenance and map filtering; a failed report records OmahaEventLost (once in the helper, once per listed event inline) and is never sent again; offered apps are zipped with installer results by position.",
    "note": "Installer contract (one result per offered app in response order) is assumed. The one-vs-many lost-event count for multi-app helper reports is not decided.",
}
CLAIMS["C18"] = {
    "technique": "storage-key user census with guard dominance (MIR), must-pass-through ordering of set/commit before reboot_needed on the interprocedural CFG, decision-table extraction of the install-success fold, typestate of the report-once flag, panic-site census of the duration computation",
    "text": "Decides: plan id and first-seen time are rewritten only when the stored id is absent or differs and are committed together, the equal path returns the stored time; the attempt counter is consulted only/always when the per-app fold yields Some (exact fold table), reported as stored+1, removed on success, stored+1 on failure; finish time and the system app's target version (looked up under get_system_app_id) are stored and committed before reboot_needed/Needed and never after an installation error; the waited-for-reboot report is guarded by a flag set only under stored finish time and target version == running version, cleared with both keys removed+committed only/always on a successful report; the start instant is taken once; the duration arithmetic is checked.",
    "note": "Durability after commit is the Storage contract. Numeric correctness of the reported durations is not decided.",
}
CLAIMS["C11"] = {
    "technique": "responder typestate on the interprocedural CFG (must-pass-through of send refined by enum-variant must-facts), select!-arm to future-origin map, outcome-edge dominance for reply constants, guard dominance for the OnDemand upgrade, fused-future re-arm typestate",
    "text": "Decides on every non-cancelled CFG path of the long-running task: from the control arm of each select! every path to the next select (or task end) passes exactly one responder.send on the request's own sender; Started only behind a positive decision, Throttled only behind a negative one, AlreadyRunning only from the selects that run beside a check or the reboot wait; check options come from the request; options.source is upgraded to OnDemand (and reboot_allowed re-asked) only under new_options.source == OnDemand; the handle converts both channel failures to StateMachineGone without looping; every select! keeps a live non-control arm (fresh or re-armed).",
    "note": "futures::channel and select! internals are trusted; reply logic is sequential code of one task, so schedules are not enumerated. Cancellation (dropping the task at a suspension point) is not a lost reply.",
}
CLAIMS["C12"] = {
    "technique": "provenance terms of timer arguments, combinator table (conjunctive vs disjunctive) over resolved callees, select!-arm to future-origin map, dominance/order checks in the query function, re-arm typestate with origin comparison",
    "text": "Decides: the awaited compute_next_update_time answer is stored as schedule.next_update_time, announced as ScheduleChange and returned, in that order; every arming of the schedule timers uses the result of a query made in the same iteration; with a minimum wait, wait_for(minimum_wait) and wait_until(time) are joined (never raced), otherwise exactly wait_until(time); the timer arm starts a check with default options and no responder, the control arm with the request's; in the reboot wait reboot_allowed is asked on entry, in the 1800 s timer arm or the (guarded) control arm only, pings only in the schedule-timer arm, and a fired timer is re-armed with a fresh future of the same origin.",
    "note": "Real-time behaviour of the embedder's timers and the futures combinators' internals are trusted.",
}
CLAIMS["C13"] = {
    "technique": "def-use typestate of emission futures (awaited immediately), constant census of channel capacities, privacy/impl census for the Yield handle, combinator and ownership checks for the install/progress join",
    "text": "Narrow structural claim. Decides the code-side necessary conditions: every Yield::yield_/yield_all future is awaited immediately in its own body and used nowhere else; all backing mpsc channels have capacity 0 (rendezvous); Yield's sender is private, Yield is not Clone and is only constructed in generate(); install and progress forwarding are joined, progress events come only from the forwarder, outcomes are announced only after the join, and the observer (sole progress sender) is dropped when the install ends.",
    "note": "NOT decided and not claimed: exactly-once/in-order delivery, completion, wake-up discipline and deadlock freedom of Generator::poll_next under every polling schedule - these quantify over interleavings and futures::channel internals, which this technique family cannot bound.",
}
CLAIMS["C14"] = {
    "technique": "whole-program panic-site census over the local call graph (Assert terminators + panicking-API table) with interval, dominance and type proofs and a per-site allowlist; def-use discipline of storage results plus control-dependence on the event skeleton; unsafe census; resolved-feature and caller census for the JSON parser",
    "text": "Decides: every panic-capable site reachable from the public entry points and the crate's serde/fmt impls (72 sites in 630 bodies today) is proved safe (interval of the attempt counter and of parameters from all call sites, dominating bound/prefix tests, array lengths by type, select! liveness), or individually allowlisted with a reason, otherwise reported; the Result of every storage write/remove/commit is only matched, logged, ignored or passed through the StorageExt wrappers and only storage operations are control-dependent on it; the only hand-written unsafe is parse_etag's two blocks; serde_json's recursion limit is in force.",
    "note": "Hangs inside embedder futures and panics inside dependencies are not decided. Allowlist: /verif/tables/panic_allowlist.json (6 entries).",
}
CLAIMS["C01"] = {
    "technique": "edge dominance of the accept path by every check (MIR), provenance of argument positions, symbolic digest term (hash-accumulator chain + decoded format template) compared with the stated formula, slicing census on the hash comparison, byte-comparison proof for the unsafe blocks, panic-site census",
    "text": "Decides: every path to Ok(signature) passes, in order, ETag present / text / split at ':' / hex(hash) / hash == SHA-256(request body) / hex(signature) / DER decode / verifier Ok, and the verifier's Ok passes the key lookup under the given key id and ECDSA verify; request body, response body, key id and nonce keep their positions down to the digest; the digest is SHA-256(SHA-256(req) || SHA-256(resp) || \"<id>:<nonce hex>\") with Nonce printed as hex of 32 bytes; the comparison is full-width; the returned signature is the verified one; parse_etag strips only bytes compared to ASCII constants after a length check, accepts exactly W/\"..\", \"..\" and identity; no panic-capable site on the path.",
    "note": "Cryptographic validity, the 'if' direction and panics inside hex/p256/ecdsa are not decided.",
}
CLAIMS["C03"] = {
    "technique": "symbolic terms (decoded format templates, closures inlined) of the cup2key value and the rewritten path_and_query compared with the stated composition; identity of the nonce/key-id definitions used in URI and metadata; field-writer census on the Intermediate; must-pass-through of decoration and request_id between sends on the interprocedural CFG",
    "text": "Decides: decorate_request appends exactly cup2key=<latest id>:<nonce> to the parsed request URI and writes it back before any Ok; the nonce is one Nonce::new() (32 bytes all filled from thread_rng, printed as hex) shared by URI and metadata; append_query_parameter rewrites only path_and_query with the three stated formats; the retained body is get_serialized_body() = serialize_body() = to_vec(&self.body) of the very Intermediate that is converted into the POST to config.service_url, untouched after decoration; with a handler configured no two sends share a decoration or a request id, request ids are GUID::new() = Uuid::new_v4(), and the send consumes that build()'s request.",
    "note": "Collision freedom of random nonces is probabilistic; URL preservation beyond path_and_query is http::Uri's into_parts/from_parts contract.",
}
CLAIMS["C15"] = {
    "technique": "wire-schema extraction from the MIR of the Serialize impls in force (keys, order, skip predicates, flattening, enum codes) compared with a protocol table; provenance terms of headers and body fields; mutation census of the entry list; Freeze query to the compiler",
    "text": "Decides: each request type serialises exactly the table's keys in order with the stated omission predicates (Option::is_none / Vec::is_empty / !bool), cohort and extra fields flattened (extras last), eventtype/eventresult/errorcode numeric codes, installsource strings, braced GUIDs and Version as its display string; the request is a POST to config.service_url with JSON content type, updater-name header, first-entry app-id header and every body field from its configured source; apps merge by id (lookup by id equality, else push at the end, no other mutation), add_* touch only their member, entries map 1:1 to wire apps with ad = rd; build(&self) on a Freeze builder.",
    "note": "Byte-exact JSON for all inputs is serde_json's job and not decided. Oracle: /verif/tables/omaha_v3_request.json.",
}
CLAIMS["C16"] = {
    "technique": "deserialisation-schema extraction from the MIR of the derived Visitors (keys, required/optional via missing_field::<T>, type widths, flatten catch-alls, identifier tables) compared with a protocol table; dominance proof for the prefix slice; adaptor-chain terms; panic-site census; resolved-feature census of serde_json",
    "text": "Decides: every key of the Omaha v3 response table is read under its name with the stated requiredness and exact type width (e.g. Package.size: Option<u64>, elapsed_days: Option<u32>), no further required key exists, extension maps are flattened where the protocol allows them and unknown attributes are collected there; status strings ok/restricted/noupdate map to their variants and anything else to Error(string); parse_json_response reads {\"response\":..}, the XSSI prefix is exactly )]}'\\n and the slice after it is dominated by starts_with; both branches use the same from_slice::<T>; the recursion limit is in force; the response module has no panic-capable site of its own; full URLs are codebases x packages without filtering.",
    "note": "Totality of serde_json on arbitrary bytes and fidelity beyond the schema table are trusted/not decided. Oracle: /verif/tables/omaha_v3_response.json.",
}
CLAIMS["C17"] = {
    "technique": "sibling cross-check of symbolic digest/ETag terms between the mock signer and the client verifier, loop-exit census of the key lookup, json! literal shape extraction checked against the client's extracted deserialisation schema, panic-site census of the handlers with proofs and a reasoned per-site allowlist",
    "text": "Decides: the mock signs SHA-256(SHA-256(req) || SHA-256(resp) || value of the request's cup2key parameter, looked up by name) with the key found under the request's key id and emits hex(DER):hex(SHA-256(req)), the layout the client splits at ':'; PrivateKeys::find scans latest and all historical ids; for every response kind except InvalidResponse the JSON literal contains every key the client's parser requires (InvalidResponse lacks one), apps are the request's apps mapped in order; set_responses swaps the whole map under the lock and each request snapshots under the lock first; every panic-capable site of the handlers is proved infallible (json!/to_vec unwraps) or individually allowlisted as a by-design assertion on configured expectations that client-built requests for configured apps satisfy.",
    "note": "End-to-end outcomes of driving the real state machine against the mock are dynamic and not decided. Only the tokio configuration is built in this sandbox (cfg(fasync) code not analysed).",
}
NOT_APPLICABLE = {}


# ---- additions after the fourth external round (lock discipline, effect futures, shared premises)
_LOCKS = " Lock discipline (va/locks.py: held region of every MutexGuard local at statement granularity, callee summaries): no mutex kind is taken while a guard of it is held, kinds are taken in one order, no event is emitted while a guard is held."
for _p, _t in (("C04", "; lock-order / typestate analysis of mutex guards"), ("C10", "; lock-order / typestate analysis of mutex guards"), ("C13", "; lock-order / typestate analysis of mutex guards (no emission while a guard is held)"), ("C14", "; lock-order / typestate analysis of mutex guards")):
    CLAIMS[_p]["technique"] += _t
    CLAIMS[_p]["text"] += _LOCKS
CLAIMS["C08"]["text"] += " The bookkeeping of a check is written only after the last point at which the context can be persisted mid-check; every future standing for a storage effect is polled (a commit future dropped unpolled is reported)."
CLAIMS["C12"]["text"] += " Between every policy query and the main wait the timers are created anew (no wait future kept across iterations)."
CLAIMS["C13"]["text"] += " The state machine's ProgressObserver puts every reported value on the channel, on every path and unchanged."
CLAIMS["C14"]["text"] += " The stock CUP handler's bodies are part of the census; an allowlist entry that rests on another property's rule (the report-once flag, C18-R4) re-runs that rule as a premise."
CLAIMS["C18"]["text"] += " The report-once flag may be computed (a && b, map_or, tuple destructuring): it must imply a stored finish time and equality with a *stored* target version (a defaulted missing value does not count); the start instant is taken before the storage is locked or read."
CLAIMS["C16"]["text"] += " No struct of the response answers to an alias of a key."
CLAIMS["C03"]["text"] += " build() hands the configured CUP handler and transport to the state machine untouched."
CLAIMS["C05"]["text"] += " build() hands the configured policy engine and installer to the state machine untouched; the updatecheck flags go on the wire under updatedisabled / sameversionupdate."
CLAIMS["C11"]["text"] += " The pending options' source is only ever assigned the constant OnDemand, wherever it is written."


# ---- additions after the sixth external round (regressions hidden in refactorings) and the path-sensitive skeleton
CLAIMS["C04"]["text"] += " After ErrorCheckingForUpdate is announced the check ends: no further attempt of the request loop and no other State is reachable. A per-app action that is looked up or computed (not chosen by a match on the response app and the installer result) is not accepted as a table."
CLAIMS["C05"]["text"] += " When the installer results are consumed by a loop in the flow, no iteration gets round the match whose Failed arm records the error, and the reboot question lies behind is_empty() of that vector. When the update check is built by one local function, every alternative it returns takes each flag from its parameter or a constant chosen under a test of that parameter."
CLAIMS["C14"]["text"] += " The allowlisted app_install_results.remove(0) requires C04's offered-update predicate and install-path table (same test on both sides) as premises. v.len()-1 right after v.push(..), and v[i] for i = position(..) payload or last-after-push on a vector the function never shrinks, are proved."
CLAIMS["C15"]["text"] += " Every true flag of the request parameters reaches the serialised UpdateCheck (shared with C05-R3)."
CLAIMS["C17"]["text"] += " A configured etag_override is sent also when no ETag can be induced from the request (three-valued evaluation of the header's gate); the by-design updatedisabled assertion is evaluated only for request entries that carry an updatecheck."
for _p in ("C02", "C04", "C05", "C06", "C08", "C09", "C10", "C11", "C12", "C18"):
    CLAIMS[_p]["technique"] += "; path-sensitive must-facts over enum variants and boolean constants (up to 8 alternative fact sets per node) prune infeasible paths of the skeleton"


# ---- additions after the eighth external round (two cooperating sites, multi-step histories, boundary inputs)
CLAIMS["C05"]["text"] += " The start gate may be spelled over the apps themselves (get_apps().iter().all(App::valid)); a running task that makes no test of the live app set before its first policy question is a violation."
CLAIMS["C06"]["text"] += " The attempt counter may be incremented at several textual sites of the loop (an arm that continues early); the bound, the per-variant guards and the wait on every way from one send to the next are decided over all of them."
CLAIMS["C09"]["text"] += " With the roles of the two loops swapped (responses outside, apps searched inside) the searched apps iterator must be created inside the loop: one iterator shared by all responses is a violation."
CLAIMS["C11"]["text"] += " Must direction of the upgrade: from the edge where the incoming request's source equals OnDemand, the arm cannot return to its wait (or leave) without writing OnDemand into the pending options."
CLAIMS["C12"]["text"] += " The value handed to the timers is the latest policy answer: between the point where it was bound and the arming no other policy query lies."
CLAIMS["C13"]["text"] += " In the progress forwarder the next read of the channel is only reached through the emission of the value just read."
CLAIMS["C19"]["text"] += " A truncation helper without any branch on the side of the epoch that moves the wall time by the remainder in one fixed direction is a violation (it disagrees with the storage encoding on one side)."
