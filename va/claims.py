"""Per-property claim texts for MANIFEST.json (what is decided, what is trusted)."""
CLAIMS = {
    "C20": {
        "technique": "MIR dataflow rules: index/value provenance and control dependence of the component store, interval bound, derive/impl census, serde delegation",
        "text": "Decides the structural clauses of Version parsing/printing/ordering on every CFG path of the anchored bodies: the parsed component is stored at the enumerate counter, unconditionally, in bounds; Display joins all four components with '.'; serde delegates to Display/FromStr; Eq/Ord are derived over [u32;4]; From<[u32;N]> zero-fills. Breaking any clause breaks parse/print/order behaviour for some input.",
        "note": "Does not decide parse(print(v)) = v or the rejection set as arithmetic facts over all strings; trusts core::str::parse::<u32>, str::split, Itertools::format, derive(Ord).",
    },
}
NOT_APPLICABLE = {}
