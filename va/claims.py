"""Per-property claim texts for MANIFEST.json (what is decided, what is trusted)."""
CLAIMS = {
    "C20": {
        "technique": "MIR dataflow rules: index/value provenance and control dependence of the component store, interval bound, derive/impl census, serde delegation",
        "text": "Decides the structural clauses of Version parsing/printing/ordering on every CFG path of the anchored bodies: the parsed component is stored at the enumerate counter, unconditionally, in bounds; Display joins all four components with '.'; serde delegates to Display/FromStr; Eq/Ord are derived over [u32;4]; From<[u32;N]> zero-fills. Breaking any clause breaks parse/print/order behaviour for some input.",
        "note": "Does not decide parse(print(v)) = v or the rejection set as arithmetic facts over all strings; trusts core::str::parse::<u32>, str::split, Itertools::format, derive(Ord).",
    },
}
CLAIMS["C19"] = {
    "technique": "MIR match-arm term extraction (sibling agreement), decision-path tables, interval/sign-direction abstract domains, panic-site census",
    "text": "Decides per match arm that Add/Sub/destructure/complete_with rebuild the same components, that is_after_or_eq_any is exactly the >=/OR table, that the pre-epoch microsecond conversion can reach i64::MIN, that every branch of the truncation helper can adjust by 0 ns (idempotence) and moves toward the epoch (agreement with the storage encoding), and that the conversion functions have no panic-capable site beyond range-checked SystemTime arithmetic.",
    "note": "Does not decide the round-trip identities as arithmetic facts over all i64 / all instants; trusts std::time arithmetic and Duration::as_micros truncation.",
}
NOT_APPLICABLE = {}
