"""Per-property claim texts for MANIFEST.json (what is decided, what is trusted)."""
CLAIMS = {
    "C20": {
        "technique": "MIR dataflow rules: index/value provenance and control dependence of the component store, interval bound, derive/impl census, serde delegation",
        "text": "Decides the structural clauses of Version parsing/printing/ordering on every CFG path of the anchored bodies: the parsed component is stored at the enumerate counter, unconditionally, in bounds; Display joins all four components with '.'; serde delegates to Display/FromStr; Eq/Ord are derived over [u32;4]; From<[u32;N]> zero-fills. Breaking any clause breaks parse/print/order behaviour for some input.",
        "note": "Does not decide parse(print(v)) = v or the rejection set as arithmetic facts over all strings; trusts core::str::parse::<u32>, str::split, Itertools::format, derive(Ord).",
    },
}
CLAIMS["C19"] = {
    "technique": "MIR match-arm term extraction (sibling agreement), decision-path tables, interval/sign-direction abstract domains, panic-site census",
    "text": "Decides per match arm that Add/Sub/destructure/complete_with rebuild the same components, that is_after_or_eq_any is exactly the >=/OR table, that the pre-epoch microsecond conversion can reach i64::MIN, that every branch of the truncation helper can adjust by 0 ns (idempotence) and moves toward the epoch (agreement with the storage encoding), and that the conversion functions have no panic-capable site beyond range-checked SystemTime arithmetic.",
    "note": "Does not decide the round-trip identities as arithmetic facts over all i64 / all instants; trusts std::time arithmetic and Duration::as_micros truncation.",
}
CLAIMS["C06"] = {
    "technique": "interprocedural CFG (supergraph) SCC + concrete-counter abstract simulation of the attempt loop, outcome-labelled edge reachability per error variant, provenance of wait duration / request id / metric fields",
    "text": "Decides on every path of one update check: exactly one send site lies on a cycle and a concrete simulation of its attempt counter bounds the sends by 3; for each OmahaRequestError variant whether the loop can continue (never for Json/HttpBuilder/CupDecoration/CupValidation, only past the limit/is_user/poll-interval tests for HttpTransport, limit/poll-interval for HttpStatus); every retry passes one Timer::wait_for whose duration depends on the counter and on rand::*; only request_id(GUID::new()) changes between attempts; RequestsPerCheck/UpdateCheckResponseTime accounting sites.",
    "note": "The numeric law 2^(k-1) s +/- 500 ms is not decided. Trusts rustc's await lowering, futures combinators, and that HttpRequest/Timer are reached only through their trait items.",
}
CLAIMS["C02"] = {
    "technique": "typestate (taint) dataflow over MIR for the unverified HTTP response, outcome-labelled edge reachability refined by a must-analysis of enum variants, field-writer census with guards",
    "text": "Decides on every CFG path: the value returned by HttpRequest::request is only borrowed into verify_response until the Ok edge of verification (or the no-handler edge) is crossed; build() yields metadata iff a handler is configured; a verification failure converts to CupValidation, leaves the exchange with no effect, and from the CupValidation arm no request/wait/parse/installer/policy/server-response event is reachable; on Err(OmahaRequest) no app-set update or last-contact write, one failure counted; failed event reports only record OmahaEventLost; failed pings only count and persist.",
    "note": "Replay resistance is reduced to nonce freshness (C03) plus the verifier (C01), not decided here. Trusts rustc's await/? lowering; infeasible CFG paths can only cause false alarms.",
}
CLAIMS["C05"] = {
    "technique": "dominance by outcome-labelled edges (edge-cut reachability) on the interprocedural CFG of the long-running loop; provenance of RequestParams / install plan through calling contexts; backward-most-recent-answer rule for reboot_allowed",
    "text": "Decides on every path of StateMachineBuilder::start's task: no effect before all_valid()==true; every request/installer call/non-schedule event lies behind the Ok|OkUpdateDeferred edge of update_check_allowed and negative decisions only reply Throttled; every RequestBuilder of a check is built from the decision's RequestParams (ping: fixed background) and the builder maps them to installsource/interactivity/updatedisabled/sameversionupdate; perform_install only behind UpdateDecision::Ok on the approved plan; perform_reboot only under Needed(_), built only when reboot_needed()==true and never after an installation error, and only after a most recent reboot_allowed()==true.",
    "note": "oneshot_check (documented caller-forced check) is a named exception for the check/validity gates. Embedder traits are trusted to be reached only through their items.",
}
CLAIMS["C04"] = {
    "technique": "regular-language checks on the interprocedural event skeleton: edge-cut dominance and must-pass-through (both directions) between outcome-labelled edges and State announcements, decision-table extraction of the per-app result closure, iterator adaptor-chain census",
    "text": "Decides on every CFG path of one check: first effect is CheckingForUpdates(params.source), last are ScheduleChange, ProtocolStateChange, UpdateCheckResult exactly once and in order; each State (ErrorCheckingForUpdate, NoUpdateAvailable, InstallationDeferredByPolicy, InstallingUpdate, InstallationError) and the OmahaServerResponse event is announced only under and always under the outcome the property names; the per-app result is response.apps mapped 1:1 with the exact action table; in the long-running loop every check is followed by one Idle, WaitingForReboot exactly under Needed.",
    "note": "Values inside events beyond provenance are not decided. Installer contract (one result per offered app, response order) is assumed. Plan-level outcomes give every listed app the same action (source TODO), checked as a uniform-constant rule.",
}
CLAIMS["C07"] = {
    "technique": "symbolic term extraction of the header->interval computation (closures inlined, generic arguments resolved) compared with the stated formula; dominance/must-pass-through on the exchange function's CFG; field-writer and storage-key census",
    "text": "Decides: the stored value is exactly and_then(headers.get(\"X-Retry-After\"), v -> to_str(v).and_then(parse::<u64>) ? Some(from_secs(min(s,86400))) : None); its evaluation dominates the HTTP status test and lies on every path from a verified response, in the single exchange function shared by all request kinds; the field has no other writer; on change the write is followed by ProtocolStateChange, persist and commit in that order before the exchange returns; the storage key is written as as_micros->i64 and read back as i64->u64->from_micros.",
    "note": "What str::parse::<u64> accepts (e.g. a leading '+') is core's contract. Durability of commit is the Storage contract.",
}
CLAIMS["C08"] = {
    "technique": "field-writer census with outcome-edge dominance (only-under / always-under) on the interprocedural CFG, must-pass-through for persist/commit ordering, storage-key writer/reader term comparison",
    "text": "Decides on every CFG path: the failure counter is reset only/always under check Ok and ping parsed Ok, incremented by one only/always/once under failed checks and failed pings, with no stray writer; last_update_time is written (with TimeSource::now) only/always under check Ok, Err(ResponseParser|InstallPlan) and ping success; after the final events the context, the app set and a commit follow in order before the check returns (and for every ping outcome); each context key has one typed writer and reader with paired units, zero stored as absent, Context::load awaited in build(); every storage write is followed by a commit before the next request, reboot or policy decision.",
    "note": "Crash atomicity and durability of commit are the Storage contract; the crash-point quantifier is reduced to write-group/commit pairing. Paths through a failed storage operation are exempt here and covered by C14.",
}
CLAIMS["C09"] = {
    "technique": "sibling-agreement rules over guarded field writes (MIR dataflow + edge dominance), loop-exit census (SCC), outcome-edge dominance on the interprocedural CFG, provenance terms for wire and storage values",
    "text": "Decides: Cohort::update_from_omaha writes each field from the same server field exactly under is_some() of that field; App::load restores each field from the same persisted field exactly when unset; the app loop of AppSetExt::update_from_omaha can only end by iterator exhaustion and updates exactly under id equality; the update runs only/always on check Ok and parsed ping; user counting comes from response.daystart; requests carry the app's cohort and ad = rd = its user-counting day; persist/load use json(PersistedApp{cohort,user_counting}) under the app id.",
    "note": "History-level behaviour is reduced to these per-step rules plus C08-R3 (commit with the check's result).",
}
CLAIMS["C10"] = {
    "technique": "outcome-edge dominance (only-under / always-under) of each report site on the interprocedural CFG, match-arm term tables for event constructors, provenance of session/request ids and version fields through calling contexts, loop census for lost-event accounting",
    "text": "Decides on every CFG path of one check: each outcome (parse error, plan error, deferred, denied, install start, some app installed) reaches exactly its report with the event the property names and no other; download-started dominates perform_install; the per-app event table by installer result; every report uses the check's single session GUID and a request_id(GUID::new()) applied last before its send; previous/next version provenance and map filtering; a failed report records OmahaEventLost (once in the helper, once per listed event inline) and is never sent again; offered apps are zipped with installer results by position.",
    "note": "Installer contract (one result per offered app in response order) is assumed. The one-vs-many lost-event count for multi-app helper reports is not decided.",
}
CLAIMS["C18"] = {
    "technique": "storage-key user census with guard dominance (MIR), must-pass-through ordering of set/commit before reboot_needed on the interprocedural CFG, decision-table extraction of the install-success fold, typestate of the report-once flag, panic-site census of the duration computation",
    "text": "Decides: plan id and first-seen time are rewritten only when the stored id is absent or differs and are committed together, the equal path returns the stored time; the attempt counter is consulted only/always when the per-app fold yields Some (exact fold table), reported as stored+1, removed on success, stored+1 on failure; finish time and the system app's target version (looked up under get_system_app_id) are stored and committed before reboot_needed/Needed and never after an installation error; the waited-for-reboot report is guarded by a flag set only under stored finish time and target version == running version, cleared with both keys removed+committed only/always on a successful report; the start instant is taken once; the duration arithmetic is checked.",
    "note": "Durability after commit is the Storage contract. Numeric correctness of the reported durations is not decided.",
}
CLAIMS["C11"] = {
    "technique": "responder typestate on the interprocedural CFG (must-pass-through of send refined by enum-variant must-facts), select!-arm to future-origin map, outcome-edge dominance for reply constants, guard dominance for the OnDemand upgrade, fused-future re-arm typestate",
    "text": "Decides on every non-cancelled CFG path of the long-running task: from the control arm of each select! every path to the next select (or task end) passes exactly one responder.send on the request's own sender; Started only behind a positive decision, Throttled only behind a negative one, AlreadyRunning only from the selects that run beside a check or the reboot wait; check options come from the request; options.source is upgraded to OnDemand (and reboot_allowed re-asked) only under new_options.source == OnDemand; the handle converts both channel failures to StateMachineGone without looping; every select! keeps a live non-control arm (fresh or re-armed).",
    "note": "futures::channel and select! internals are trusted; reply logic is sequential code of one task, so schedules are not enumerated. Cancellation (dropping the task at a suspension point) is not a lost reply.",
}
NOT_APPLICABLE = {}
