"""Facts: extraction (runs the rustc_private driver over /repo) and indexed access."""
import fcntl, hashlib, json, os, pickle, shutil, subprocess, sys, tempfile, time

VERIF = os.path.dirname(os.path.dirname(os.path.abspath(__file__)))
REPO = os.environ.get("VERIF_REPO", "/repo")
CACHE = os.path.join(VERIF, ".cache")
DRIVER = os.path.join(VERIF, ".build", "driver", "release", "facts-driver")
EXPECTED = ["omaha_client.lib.json", "mock_omaha_server.lib.json", "mock_omaha_server.bin.json"]
# hand-counted floors (bodies per crate on the pinned tree: 1081 / 110); a drop below these means
# the extraction silently skipped code
BODY_FLOORS = {"omaha_client.lib.json": 900, "mock_omaha_server.lib.json": 80}


def tree_hash(repo=REPO):
    h = hashlib.sha256()
    files = []
    for root, dirs, fs in os.walk(repo):
        dirs[:] = [d for d in dirs if d not in ("target", ".git")]
        for f in fs:
            if f.endswith(".rs") or f in ("Cargo.toml", "Cargo.lock") or f.endswith(".pem"):
                files.append(os.path.join(root, f))
    for p in sorted(files):
        h.update(os.path.relpath(p, repo).encode())
        h.update(b"\0")
        with open(p, "rb") as fh:
            h.update(fh.read())
        h.update(b"\0")
    # driver identity
    try:
        st = os.stat(DRIVER)
        h.update(("%d:%d" % (st.st_size, int(st.st_mtime))).encode())
    except OSError:
        pass
    return h.hexdigest()[:24]


def build_driver():
    env = dict(os.environ, CARGO_TARGET_DIR=os.path.join(VERIF, ".build", "driver"), CARGO_NET_OFFLINE="true")
    r = subprocess.run(["cargo", "build", "--release", "--offline"], cwd=os.path.join(VERIF, "driver"), env=env,
                       stdout=subprocess.PIPE, stderr=subprocess.STDOUT, text=True)
    if r.returncode != 0:
        sys.stderr.write(r.stdout)
        raise SystemExit("INCONCLUSIVE: facts driver failed to build")


def extract(repo, outdir, extra_args=()):
    """Run cargo +nightly check with the driver as workspace wrapper into a fresh target dir."""
    if not os.path.exists(DRIVER):
        build_driver()
    sysroot = subprocess.check_output(["rustc", "+nightly", "--print", "sysroot"], text=True).strip()
    tdir = tempfile.mkdtemp(prefix="verif-facts-target-", dir=os.environ.get("VERIF_TMP", "/var/tmp"))
    try:
        env = dict(os.environ)
        env.update({
            "LD_LIBRARY_PATH": sysroot + "/lib" + (":" + env["LD_LIBRARY_PATH"] if env.get("LD_LIBRARY_PATH") else ""),
            "CARGO_INCREMENTAL": "0",
            "RUSTFLAGS": "-Zmir-opt-level=0 -Awarnings",
            "RUSTC_WORKSPACE_WRAPPER": DRIVER,
            "VERIF_FACTS_DIR": outdir,
            "CARGO_TARGET_DIR": tdir,
            "CARGO_NET_OFFLINE": "true",
        })
        env.pop("RUSTC_WRAPPER", None)
        cmd = ["cargo", "+nightly", "check", "--offline", "--workspace"] + list(extra_args)
        r = subprocess.run(cmd, cwd=repo, env=env, stdout=subprocess.PIPE, stderr=subprocess.STDOUT, text=True)
        # ICE droppings
        for f in os.listdir(repo):
            if f.startswith("rustc-ice-"):
                try:
                    os.unlink(os.path.join(repo, f))
                except OSError:
                    pass
        return r.returncode, r.stdout
    finally:
        shutil.rmtree(tdir, ignore_errors=True)


def ensure_facts(repo=REPO, verbose=True):
    """Return the directory holding facts for the current tree state (extracting if needed)."""
    os.makedirs(CACHE, exist_ok=True)
    if not os.path.exists(DRIVER):
        build_driver()
    key = tree_hash(repo)
    d = os.path.join(CACHE, key)
    if os.path.exists(os.path.join(d, "OK")):
        # cached facts for exactly this tree: no lock needed (entries are complete once OK exists; pruning spares recent ones)
        try:
            os.utime(d, None)
        except OSError:
            pass
        return d
    # one lock per tree state: different trees extract concurrently, the same tree only once
    lock = open(os.path.join(CACHE, "lock." + key), "w")
    fcntl.flock(lock, fcntl.LOCK_EX)
    try:
        ok = os.path.exists(os.path.join(d, "OK"))
        if ok:
            try:
                os.utime(d, None)
            except OSError:
                pass
        if not ok:
            if os.path.isdir(d):
                shutil.rmtree(d)
            os.makedirs(d)
            t0 = time.time()
            rc, out = extract(repo, d)
            if rc != 0:
                with open(os.path.join(d, "build.log"), "w") as fh:
                    fh.write(out)
                sys.stderr.write(out[-4000:])
                raise SystemExit(2)
            for f in EXPECTED:
                if not os.path.exists(os.path.join(d, f)):
                    raise SystemExit("INCONCLUSIVE: facts file %s was not produced" % f)
            with open(os.path.join(d, "REPO"), "w") as fh:
                fh.write(os.path.realpath(repo))
            with open(os.path.join(d, "OK"), "w") as fh:
                fh.write("%.1f" % (time.time() - t0))
            if verbose:
                sys.stderr.write("[facts] extracted in %.1fs -> %s\n" % (time.time() - t0, d))
            # prune old cache entries (keep 6 most recent)
            ents = [e for e in os.listdir(CACHE) if os.path.isdir(os.path.join(CACHE, e))]
            ents.sort(key=lambda e: os.stat(os.path.join(CACHE, e)).st_mtime, reverse=True)
            def _is_main(e):
                try:
                    return open(os.path.join(CACHE, e, "REPO")).read().strip() == os.path.realpath("/repo")
                except OSError:
                    return False
            # scratch copies (variant campaigns) churn quickly: keep 40 of them, and separately the 6 latest states of the real tree
            main = [e for e in ents if _is_main(e)]
            other = [e for e in ents if e not in main]
            for e in main[6:] + other[40:]:
                shutil.rmtree(os.path.join(CACHE, e), ignore_errors=True)
                try:
                    os.remove(os.path.join(CACHE, "lock." + e))
                except OSError:
                    pass
    finally:
        fcntl.flock(lock, fcntl.LOCK_UN)
        lock.close()
    return d


class Crate:
    def __init__(self, data):
        self.data = data
        self.name = data["crate"]
        self.kind = data["kind"]
        self.types = data["types"]
        self.bodies = data["bodies"]
        self.by_id = {b["id"]: b for b in self.bodies}
        self.adts = {a["d"]: a for a in data["adts"]}
        self.impls = data["impls"]
        self.traits = {t["d"]: t for t in data["traits"]}
        self.consts = {c["d"]: c for c in data["consts"]}
        self.unsafe_blocks = data["unsafe_blocks"]
        self.freeze = {f["d"]: f["freeze"] for f in data["freeze"]}
        for b in self.bodies:
            b["_crate"] = self
        # helpers extracted by a refactoring (private fns unknown to the pinned tree) are inlined back (va/inline.py)
        from . import inline
        self.inlined = inline.apply(self)
        self.desugared = inline.desugar_option_tests(self)

    def ty(self, i):
        return self.types[i]

    def tys(self, i):
        return self.types[i]["s"]


def load_crate(path):
    pk = path + ".pickle"
    if os.path.exists(pk) and os.stat(pk).st_mtime >= os.stat(path).st_mtime:
        with open(pk, "rb") as fh:
            data = pickle.load(fh)
    else:
        with open(path) as fh:
            data = json.load(fh)
        try:
            with open(pk + ".tmp%d" % os.getpid(), "wb") as fh:
                pickle.dump(data, fh, protocol=pickle.HIGHEST_PROTOCOL)
            os.replace(pk + ".tmp%d" % os.getpid(), pk)
        except OSError:
            pass
    return Crate(data)


class Facts:
    def __init__(self, d):
        self.dir = d
        self.client = load_crate(os.path.join(d, "omaha_client.lib.json"))
        self.server = load_crate(os.path.join(d, "mock_omaha_server.lib.json"))
        for f, floor in BODY_FLOORS.items():
            c = self.client if f.startswith("omaha_client") else self.server
            if len(c.bodies) < floor:
                raise SystemExit("INCONCLUSIVE: %s has %d bodies, floor %d" % (f, len(c.bodies), floor))
            if c.data.get("stolen", 0):
                raise SystemExit("INCONCLUSIVE: %d bodies stolen in %s" % (c.data["stolen"], f))


_FACTS = None


def get(repo=REPO):
    global _FACTS
    if _FACTS is None:
        _FACTS = Facts(ensure_facts(repo))
    return _FACTS
