"""MIR helpers over the JSON facts: formatting, successors, def/use."""


def fmt_place(p, crate=None):
    s = "_%d" % p["l"]
    for e in p.get("p", []):
        k = e["k"]
        if k == "deref":
            s = "(*%s)" % s
        elif k == "field":
            s = "%s.%s" % (s, e.get("n", e["i"]))
        elif k == "downcast":
            s = "(%s as %s)" % (s, e.get("n", e["v"]))
        elif k == "index":
            s = "%s[_%d]" % (s, e["l"])
        elif k == "cindex":
            s = "%s[%s%d of %d]" % (s, "-" if e["end"] else "", e["off"], e["min"])
        elif k == "subslice":
            s = "%s[%d..%s%d]" % (s, e["from"], "-" if e["end"] else "", e["to"])
        else:
            s = "%s.<%s>" % (s, k)
    return s


def fmt_const(k):
    if "v" in k:
        return "const %s" % k["v"]
    if "str" in k:
        return "const %r" % k["str"]
    if "bytes" in k:
        return "const b%r" % bytes(k["bytes"])
    return k["s"] if k["s"].startswith("const") else "const " + k["s"]


def fmt_op(o):
    if "c" in o:
        return "copy " + fmt_place(o["c"])
    if "m" in o:
        return "move " + fmt_place(o["m"])
    if "k" in o:
        return fmt_const(o["k"])
    return str(o)


def fmt_rv(r):
    k = r["k"]
    if k == "use":
        return fmt_op(r["o"])
    if k == "ref":
        return "&%s%s" % ("mut " if r["m"] else "", fmt_place(r["p"]))
    if k == "rawptr":
        return "&raw " + fmt_place(r["p"])
    if k == "cast":
        return "%s as <%s>" % (fmt_op(r["o"]), r["ck"])
    if k == "binop":
        return "%s(%s, %s)" % (r["op"], fmt_op(r["a"]), fmt_op(r["b"]))
    if k == "unop":
        return "%s(%s)" % (r["op"], fmt_op(r["o"]))
    if k == "discr":
        return "discriminant(%s)" % fmt_place(r["p"])
    if k == "agg":
        ak = r["ak"]
        ops = ", ".join(fmt_op(o) for o in r["ops"])
        if ak == "adt":
            return "%s::%s{%s}" % (r["d"], r["vn"], ops)
        if ak in ("closure", "coroutine", "coroutine_closure"):
            return "%s<%s>{%s}" % (ak, r["d"], ops)
        return "%s(%s)" % (ak, ops)
    if k == "copyderef":
        return "copyderef " + fmt_place(r["p"])
    if k == "repeat":
        return "[%s; %s]" % (fmt_op(r["o"]), r["n"])
    return r.get("s", k)


def fmt_term(t):
    k = t["k"]
    if k == "call":
        name = t.get("callee") or fmt_op(t.get("func", {}))
        extra = ""
        if t.get("resolved"):
            extra = " ~> " + t["resolved"]
        return "%s = %s(%s)%s -> bb%s" % (fmt_place(t["dest"]), name, ", ".join(fmt_op(a) for a in t["args"]), extra, t.get("t"))
    if k == "switch":
        return "switchInt(%s) -> [%s, otherwise: bb%d]" % (fmt_op(t["o"]), ", ".join("%d: bb%d" % (v, b) for v, b in t["arms"]), t["otherwise"])
    if k in ("goto", "falseunwind"):
        return "%s -> bb%d" % (k, t["t"])
    if k == "falseedge":
        return "falseEdge -> [real: bb%d, imaginary: bb%d]" % (t["t"], t["imag"])
    if k == "drop":
        return "drop(%s) -> bb%d" % (fmt_place(t["p"]), t["t"])
    if k == "assert":
        return "assert(%s == %s, %s) -> bb%d" % (fmt_op(t["cond"]), t["expected"], t["msg"], t["t"])
    if k == "yield":
        return "yield(%s) -> [resume: bb%d, drop: %s]" % (fmt_op(t["value"]), t["t"], t.get("drop"))
    return k


def fmt_sp(sp):
    s = "%s:%d" % (sp["f"], sp["l"])
    if "x" in sp:
        s += " [%s]" % sp["x"]
    return s


def dump_body(b, out):
    c = b["_crate"]
    m = b["mir"]
    out.write("// %s  (%s)  %s\n" % (b["id"], b["kind"], fmt_sp(b["sp"])))
    out.write("// name: %s\n" % b["name"])
    for i, l in enumerate(m["locals"]):
        out.write("    let _%d: %s;%s\n" % (i, c.tys(l["t"]), " // user" if l.get("u") else ""))
    for d in m["dbg"]:
        out.write("    debug %s => %s\n" % (d["n"], fmt_place(d["p"]) if "p" in d else d.get("c")))
    for i, bl in enumerate(m["blocks"]):
        out.write("  bb%d%s:\n" % (i, " (cleanup)" if bl.get("cleanup") else ""))
        for s in bl["s"]:
            if s["k"] == "assign":
                out.write("    %s = %s;\n" % (fmt_place(s["p"]), fmt_rv(s["r"])))
            elif s["k"] == "setdiscr":
                out.write("    discriminant(%s) = %d;\n" % (fmt_place(s["p"]), s["v"]))
            elif s["k"] in ("dead",):
                out.write("    StorageDead(_%d);\n" % s["l"])
        out.write("    %s;   // %s\n" % (fmt_term(bl["t"]), fmt_sp(bl["t"]["sp"])))


def succs(bl, cleanup=False):
    """Real (non-unwind, non-imaginary, non-coroutine-drop) successors of a block."""
    t = bl["t"]
    k = t["k"]
    if k == "switch":
        out = [b for _, b in t["arms"]]
        out.append(t["otherwise"])
        return out
    if k in ("goto", "falseunwind", "falseedge", "drop", "assert", "yield"):
        return [t["t"]]
    if k == "call":
        return [t["t"]] if t.get("t") is not None else []
    return []


if __name__ == "__main__":
    import sys
    from . import facts
    F = facts.get()
    pat = sys.argv[1]
    for c in (F.client, F.server):
        for b in c.bodies:
            if pat in b["id"] and (len(sys.argv) < 3 or b["id"].endswith(sys.argv[2])):
                dump_body(b, sys.stdout)
