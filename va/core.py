"""Per-body views: pruned CFG, def index, backward value tracing (provenance + terms)."""
from . import mir

LOGGING_MACROS = ("info!", "warn!", "error!", "debug!", "trace!", "event!", "log!")


def is_logging_span(sp):
    x = sp.get("x")
    return bool(x) and any(x.startswith(m) for m in LOGGING_MACROS)


class BV:
    """Body view."""
    _cache = {}

    @classmethod
    def of(cls, body):
        k = id(body)
        v = cls._cache.get(k)
        if v is None:
            v = cls(body)
            cls._cache[k] = v
        return v

    def __init__(self, body):
        self.body = body
        self.crate = body["_crate"]
        self.id = body["id"]
        self.name = body["name"]
        m = body["mir"]
        self.m = m
        self.blocks = m["blocks"]
        self.n = len(self.blocks)
        self.argc = m["argc"]
        self.locals = m["locals"]
        self.names = {}
        for d in m["dbg"]:
            if "p" in d and not d["p"].get("p"):
                self.names.setdefault(d["p"]["l"], d["n"])
        self.upvar_names = {}
        for d in m["dbg"]:
            p = d.get("p")
            if p and p["l"] == 1 and p.get("p"):
                # _1.i or (*_1).i or (*(*_1).i)
                for e in p["p"]:
                    if e["k"] == "field":
                        self.upvar_names.setdefault(e["i"], d["n"])
                        break
        self.allowed = None
        self._index_defs()
        self._build_cfg()

    def restrict(self, blocks):
        """Context manager: value tracing only sees definitions in `blocks`."""
        bv = self

        class _R:
            def __enter__(self_):
                self_.old = bv.allowed
                bv.allowed = set(blocks)

            def __exit__(self_, *a):
                bv.allowed = self_.old
        return _R()

    def arm_region(self, switch_bi, target):
        """Blocks that can execute when `target` is the successor taken at `switch_bi`:
        everything except blocks reachable only through the other successors."""
        others = [b for b in self.succ[switch_bi] if b != target]
        mine = self.reach_from([target], avoid=[switch_bi])
        theirs = self.reach_from(others, avoid=[switch_bi]) if others else set()
        return self.reach0 - (theirs - mine)

    def decision_paths(self, start, local, limit=256, stop=(), within=None):
        """Enumerate acyclic paths from block `start` to a return; for each, the list of branch
        conditions taken [(switch block, label)] and the last definition (block, stmt/term) of
        `local` on the path.  Used to read small boolean/aggregate-valued match arms exactly."""
        out = []

        def last_def(bi):
            bl = self.blocks[bi]
            t = bl["t"]
            if t["k"] == "call" and not t["dest"].get("p") and t["dest"]["l"] == local:
                return (bi, None)
            for si in range(len(bl["s"]) - 1, -1, -1):
                s = bl["s"][si]
                if s["k"] == "assign" and not s["p"].get("p") and s["p"]["l"] == local:
                    return (bi, si)
            return None

        def go(bi, conds, cur, seen):
            if len(out) >= limit:
                return
            d = last_def(bi)
            if d is not None:
                cur = d
            if self.blocks[bi]["t"]["k"] == "return":
                out.append((list(conds), cur))
                return
            ss = self.succ[bi]
            for b in ss:
                if b in stop:
                    # a path that closes (e.g. back at the loop header): recorded like a return
                    c2 = conds + [(bi, tuple(self.edge_label.get((bi, b), [])))] if len(ss) > 1 else conds
                    out.append((list(c2), cur))
                    continue
                if within is not None and b not in within:
                    continue
                if b in seen:
                    continue
                c2 = conds
                if len(ss) > 1:
                    c2 = conds + [(bi, tuple(self.edge_label.get((bi, b), [])))]
                go(b, c2, cur, seen | {b})
        go(start, [], None, {start})
        return out

    # ------------------------------------------------------------------ defs
    def _index_defs(self):
        self.defs = {}
        self.field_writes = []  # (bi, si, place, rvalue)
        for bi, bl in enumerate(self.blocks):
            if bl.get("cleanup"):
                continue
            for si, s in enumerate(bl["s"]):
                if s["k"] == "assign":
                    p = s["p"]
                    if p.get("p"):
                        self.field_writes.append((bi, si, p, s["r"]))
                    else:
                        self.defs.setdefault(p["l"], []).append((bi, si, "rv", s["r"]))
            t = bl["t"]
            if t["k"] == "call":
                d = t["dest"]
                if d.get("p"):
                    self.field_writes.append((bi, None, d, {"k": "callret", "bi": bi}))
                else:
                    self.defs.setdefault(d["l"], []).append((bi, None, "call", t))

    # ------------------------------------------------------------------ cfg
    def _poll_switch(self, bi):
        """If block bi switches on the discriminant of a Poll<..> value inside an await desugaring,
        return True (Pending arm is pruned: runs are followed to completion of the await)."""
        t = self.blocks[bi]["t"]
        if t["k"] != "switch":
            return False
        x = t["sp"].get("x", "")
        if "await" not in x:
            return False
        d = self.switch_subject(bi)
        if d is None:
            return False
        ty = self.crate.types[d[1]]
        return ty.get("k") == "adt" and ty.get("d") == "std::task::Poll"

    def switch_subject(self, bi):
        """For a switch block: (place, type id) whose discriminant is tested, or None."""
        bl = self.blocks[bi]
        t = bl["t"]
        if t["k"] != "switch":
            return None
        o = t["o"]
        pl = o.get("m") or o.get("c")
        if pl is None or pl.get("p"):
            return None
        l = pl["l"]
        # look for `_l = discriminant(P)` in this block (last such)
        for s in reversed(bl["s"]):
            if s["k"] == "assign" and not s["p"].get("p") and s["p"]["l"] == l:
                r = s["r"]
                if r["k"] == "discr":
                    return (r["p"], r["t"])
                return None
        return None

    def _build_cfg(self):
        self.succ = [[] for _ in range(self.n)]
        self.edge_label = {}  # (bi, target) -> list of labels (switch value)
        for bi, bl in enumerate(self.blocks):
            if bl.get("cleanup"):
                continue
            t = bl["t"]
            k = t["k"]
            out = []
            if k == "switch":
                pruned = self._poll_switch(bi)
                for v, b in t["arms"]:
                    if pruned and v != 0:
                        continue
                    out.append(b)
                    self.edge_label.setdefault((bi, b), []).append(v)
                if not pruned:
                    ob = t["otherwise"]
                    if self.blocks[ob]["t"]["k"] != "unreachable":
                        out.append(ob)
                        self.edge_label.setdefault((bi, ob), []).append("otherwise")
            elif k in ("goto", "falseunwind", "falseedge", "drop", "assert", "yield"):
                out.append(t["t"])
            elif k == "call":
                if t.get("t") is not None:
                    out.append(t["t"])
            seen = []
            for b in out:
                if b not in seen and not self.blocks[b].get("cleanup"):
                    seen.append(b)
            self.succ[bi] = seen
        self.pred = [[] for _ in range(self.n)]
        for a, ss in enumerate(self.succ):
            for b in ss:
                self.pred[b].append(a)
        # reachable set from entry
        self.reach0 = self.reach_from([0])

    def reach_from(self, starts, avoid=()):
        avoid = set(avoid)
        seen = set()
        st = [s for s in starts if s not in avoid]
        while st:
            a = st.pop()
            if a in seen:
                continue
            seen.add(a)
            for b in self.succ[a]:
                if b not in seen and b not in avoid:
                    st.append(b)
        return seen

    def exits(self):
        return [i for i in self.reach0 if self.blocks[i]["t"]["k"] == "return"]

    def sccs(self):
        """Non-trivial strongly connected components (loops) of the pruned CFG."""
        idx, low, onst, st, out, cnt = {}, {}, set(), [], [], [0]
        for root in sorted(self.reach0):
            if root in idx:
                continue
            work = [(root, iter(self.succ[root]))]
            idx[root] = low[root] = cnt[0]
            cnt[0] += 1
            st.append(root)
            onst.add(root)
            while work:
                v, it = work[-1]
                adv = False
                for w in it:
                    if w not in idx:
                        idx[w] = low[w] = cnt[0]
                        cnt[0] += 1
                        st.append(w)
                        onst.add(w)
                        work.append((w, iter(self.succ[w])))
                        adv = True
                        break
                    elif w in onst:
                        low[v] = min(low[v], idx[w])
                if adv:
                    continue
                work.pop()
                if work:
                    low[work[-1][0]] = min(low[work[-1][0]], low[v])
                if low[v] == idx[v]:
                    comp = set()
                    while True:
                        x = st.pop()
                        onst.discard(x)
                        comp.add(x)
                        if x == v:
                            break
                    if len(comp) > 1 or v in self.succ[v]:
                        out.append(comp)
        return out

    def dominated_by_edge(self, block, edges):
        """Is `block` unreachable from the entry once `edges` [(a, b)] are removed?"""
        cut = set(edges)
        seen = set()
        st = [0]
        while st:
            a = st.pop()
            if a in seen:
                continue
            seen.add(a)
            for b in self.succ[a]:
                if (a, b) not in cut and b not in seen:
                    st.append(b)
        return block not in seen

    def bool_edges(self, pred, whole=False):
        """[(switch block, target, truth)] for boolean switches whose condition term satisfies pred.
        A merged condition (phi) matches only if every source satisfies pred, unless whole=True (the
        predicate is about the merged value itself, e.g. a mutable flag)."""
        out = []
        for bi in sorted(self.reach0):
            t = self.blocks[bi]["t"]
            if t["k"] != "switch" or self.switch_subject(bi) is not None:
                continue
            if self.crate.types[t["ot"]]["s"] != "bool":
                continue
            term = self.trace_op(t["o"])
            flip = False
            while term[0] == "unop" and term[1] == "Not":
                term = term[2]
                flip = not flip
            if term[0] == "phi" and not whole:
                # merged condition: every source has to satisfy the predicate
                if not all(pred(_unflip(a)) for a in term[1]):
                    continue
            elif not pred(term):
                continue
            for b in self.succ[bi]:
                for v in self.edge_label.get((bi, b), []):
                    truth = (v != 0) if v != "otherwise" else True
                    out.append((bi, b, truth != flip))
        return out

    # ------------------------------------------------------------------ types
    def lty(self, l):
        return self.crate.types[self.locals[l]["t"]]

    def place_ty(self, p):
        if p.get("p"):
            return self.crate.types[p["t"]]
        return self.lty(p["l"])

    # ------------------------------------------------------------------ calls
    def calls(self, pred=None, reachable_only=True):
        out = []
        for bi, bl in enumerate(self.blocks):
            if bl.get("cleanup"):
                continue
            if reachable_only and bi not in self.reach0:
                continue
            t = bl["t"]
            if t["k"] == "call" and (pred is None or pred(t)):
                out.append((bi, t))
        return out

    # ------------------------------------------------------------------ tracing
    def promoted(self, i):
        ps = getattr(self, "_promoted", None)
        if ps is None:
            ps = self._promoted = {}
        if i not in ps:
            pm = self.body.get("promoted", [])
            if i >= len(pm):
                ps[i] = None
            else:
                pb = {"id": "%s::promoted[%d]" % (self.id, i), "name": self.name + "::promoted", "mir": pm[i], "_crate": self.crate,
                      "kind": "promoted", "sp": self.body["sp"], "promoted": []}
                ps[i] = BV(pb)
        return ps[i]

    def trace_op(self, o, seen=None, depth=0):
        if "k" in o:
            k = o["k"]
            if "promoted" in k and self.body.get("kind") != "promoted":
                pv = self.promoted(k["promoted"])
                if pv is not None:
                    return pv.trace_local(0)
            return ("const", o["k"])
        pl = o.get("m") or o.get("c")
        return self.trace_place(pl, seen, depth)

    def trace_place(self, pl, seen=None, depth=0):
        base = self.trace_local(pl["l"], seen, depth)
        for e in pl.get("p", []):
            base = self._project(base, e)
        return base

    def _project(self, base, e):
        k = e["k"]
        if base[0] == "impossible":
            return base
        if k == "deref":
            if base[0] == "ref":
                return base[1]
            return ("deref", base)
        if k == "field":
            if base[0] == "agg" and base[1] in ("tuple", "adt", "closure", "coroutine") and e["i"] < len(base[3]):
                return base[3][e["i"]]
            if base[0] == "phi":
                parts = [self._project(b, e) for b in base[1]]
                return mkphi(parts)
            return ("field", base, e.get("n", e["i"]), e["i"])
        if k == "downcast":
            if base[0] == "call" and base[1] == "std::ops::Try::branch" and len(base[2]) == 1 and e.get("n") in ("Continue", "Break"):
                # `x?` on a value built in place (an inlined helper's `Some(v)` / `None` / `Err(e)?`): the alternatives that take
                # this arm, with their payload; the others are not read on this path
                arg = base[2][0]
                while arg[0] in ("ref", "deref"):
                    arg = arg[1]
                alts = arg[1] if arg[0] == "phi" else [arg]
                if any(a[0] == "agg" and a[1] == "adt" and a[2].rsplit("::", 1)[-1] in ("Some", "Ok", "None", "Err") for a in alts):
                    out = []
                    for a in alts:
                        vn = a[2].rsplit("::", 1)[-1] if a[0] == "agg" and a[1] == "adt" else None
                        if vn in ("Some", "Ok"):
                            out.append(("agg", "adt", "std::ops::ControlFlow::Continue", list(a[3]), ["0"]) if e["n"] == "Continue" else ("impossible",))
                        elif vn in ("None", "Err"):
                            out.append(("impossible",) if e["n"] == "Continue" else ("downcast", ("call", base[1], [a], base[3]), e.get("n", e["v"])))
                        elif a[0] == "call" and a[1].endswith("FromResidual::from_residual"):
                            out.append(("impossible",) if e["n"] == "Continue" else ("downcast", ("call", base[1], [a], base[3]), e.get("n", e["v"])))
                        else:
                            out.append(("downcast", ("call", base[1], [a], base[3]), e.get("n", e["v"])))
                    return mkphi(out)
            if base[0] == "agg" and base[1] == "adt":
                nm_ = e.get("n")
                if nm_ is not None and "::" in base[2] and base[2].rsplit("::", 1)[1] != nm_ and base[2].rsplit("::", 1)[0].rsplit("::", 1)[-1] != nm_:
                    return ("impossible",)  # payload of another variant: only read on a path this alternative does not take
                return base  # the variant is known from the aggregate itself
            if base[0] == "phi":
                return mkphi([self._project(b, e) for b in base[1]])
            return ("downcast", base, e.get("n", e["v"]))
        if k == "subslice":
            return ("subslice", base, e["from"], e["to"], e["end"])
        if k == "cindex":
            return ("cindex", base, e["off"], e["end"])
        if k == "index":
            return ("index", base, self.trace_local(e["l"]))
        return (k, base)

    def trace_local(self, l, seen=None, depth=0):
        if 1 <= l <= self.argc:
            # parameters can also be reassigned, but that is rare; prefer defs if any
            if l not in self.defs:
                return ("param", l)
        if seen is None:
            seen = frozenset()
        if l in seen or depth > 60:
            return ("rec", l)
        seen = seen | {l}
        ds = self.defs.get(l, [])
        live = self.allowed if self.allowed is not None else self.reach0
        ds = [d for d in ds if d[0] in live]
        if not ds:
            if 1 <= l <= self.argc:
                return ("param", l)
            return ("undef", l)
        outs = []
        for (bi, si, kind, x) in ds:
            if kind == "call":
                outs.append(self._trace_call(bi, x, seen, depth + 1))
            else:
                outs.append(self._trace_rv(x, seen, depth + 1, bi, si))
        if 1 <= l <= self.argc:
            outs.insert(0, ("param", l))
        return mkphi(outs)

    def _trace_call(self, bi, t, seen, depth):
        args = [self.trace_op(a, seen, depth) for a in t["args"]]
        return ("call", t.get("callee", "<indirect>"), args, bi)

    def _trace_rv(self, r, seen, depth, bi=None, si=None):
        k = r["k"]
        if k == "use":
            return self.trace_op(r["o"], seen, depth)
        if k in ("ref", "rawptr"):
            return ("ref", self.trace_place(r["p"], seen, depth))
        if k == "copyderef":
            return self.trace_place(r["p"], seen, depth)
        if k == "cast":
            return ("cast", r["ck"], self.trace_op(r["o"], seen, depth), r["t"])
        if k == "binop":
            return ("binop", r["op"], self.trace_op(r["a"], seen, depth), self.trace_op(r["b"], seen, depth))
        if k == "unop":
            return ("unop", r["op"], self.trace_op(r["o"], seen, depth))
        if k == "discr":
            return ("discr", self.trace_place(r["p"], seen, depth))
        if k == "agg":
            ops = [self.trace_op(o, seen, depth) for o in r["ops"]]
            ak = r["ak"]
            if ak == "adt":
                return ("agg", "adt", r["d"] + "::" + r["vn"], ops, r.get("fn", []))
            if ak in ("closure", "coroutine", "coroutine_closure"):
                return ("agg", ak, r["id"], ops)
            return ("agg", ak, None, ops)
        if k == "repeat":
            return ("repeat", self.trace_op(r["o"], seen, depth), r["n"])
        return ("other", r.get("s", k))


def mkphi(parts):
    flat = []
    for p in parts:
        if p[0] == "phi":
            for q in p[1]:
                if q not in flat:
                    flat.append(q)
        elif p not in flat:
            flat.append(p)
    # drop pure recursion markers when something else exists
    nonrec = [p for p in flat if p[0] != "rec"]
    if nonrec:
        flat = nonrec
    possible = [p for p in flat if p[0] != "impossible"]
    if possible:
        flat = possible
    if len(flat) == 1:
        return flat[0]
    return ("phi", flat)


def fmt_t(t, depth=0):
    """Human readable term."""
    if depth > 12:
        return "…"
    k = t[0]
    if k == "const":
        return mir.fmt_const(t[1])
    if k == "param":
        return "param%d" % t[1]
    if k == "call":
        return "%s(%s)" % (t[1], ", ".join(fmt_t(a, depth + 1) for a in t[2]))
    if k == "agg":
        nm = t[2] if t[2] else t[1]
        return "%s{%s}" % (nm, ", ".join(fmt_t(a, depth + 1) for a in t[3]))
    if k == "ref":
        return "&" + fmt_t(t[1], depth + 1)
    if k == "deref":
        return "*" + fmt_t(t[1], depth + 1)
    if k == "field":
        return "%s.%s" % (fmt_t(t[1], depth + 1), t[2])
    if k == "downcast":
        return "(%s as %s)" % (fmt_t(t[1], depth + 1), t[2])
    if k == "phi":
        return "phi(%s)" % " | ".join(fmt_t(a, depth + 1) for a in t[1])
    if k == "binop":
        return "%s(%s, %s)" % (t[1], fmt_t(t[2], depth + 1), fmt_t(t[3], depth + 1))
    if k == "unop":
        return "%s(%s)" % (t[1], fmt_t(t[2], depth + 1))
    if k == "cast":
        return "cast<%s>(%s)" % (t[1], fmt_t(t[2], depth + 1))
    if k == "discr":
        return "discr(%s)" % fmt_t(t[1], depth + 1)
    if k == "subslice":
        return "%s[%d..%s%d]" % (fmt_t(t[1], depth + 1), t[2], "-" if t[4] else "", t[3])
    if k == "okpayload":
        return "ok(%s)" % fmt_t(t[1], depth + 1)
    if k in ("cindex",):
        return "%s[%s%d]" % (fmt_t(t[1], depth + 1), "-" if t[3] else "", t[2])
    if k == "index":
        return "%s[%s]" % (fmt_t(t[1], depth + 1), fmt_t(t[2], depth + 1))
    if k == "repeat":
        return "[%s; %s]" % (fmt_t(t[1], depth + 1), t[2])
    return str(t)


def walk(t):
    """Yield all sub-terms."""
    yield t
    k = t[0]
    if k == "call":
        for a in t[2]:
            yield from walk(a)
    elif k == "agg":
        for a in t[3]:
            yield from walk(a)
    elif k in ("ref", "deref", "discr", "okpayload"):
        yield from walk(t[1])
    elif k in ("field", "downcast", "subslice", "cindex"):
        yield from walk(t[1])
    elif k == "index":
        yield from walk(t[1])
        yield from walk(t[2])
    elif k == "phi":
        for a in t[1]:
            yield from walk(a)
    elif k == "binop":
        yield from walk(t[2])
        yield from walk(t[3])
    elif k in ("unop",):
        yield from walk(t[2])
    elif k == "cast":
        yield from walk(t[2])
    elif k == "repeat":
        yield from walk(t[1])


def strip(t):
    """Strip value-preserving wrappers: refs, derefs, copies, Try::branch/Continue, into_future,
    clone/to_owned on the way (used for provenance questions)."""
    while True:
        k = t[0]
        if k in ("ref", "deref"):
            t = t[1]
            continue
        if k == "cast" and ("PointerCoercion" in t[1] or t[1] in ("Transmute", "PtrToPtr")):
            t = t[2]
            continue
        if k == "field" and t[3] == 0 and t[1][0] == "downcast" and t[1][2] == "Continue" and t[1][1][0] == "call" and t[1][1][1] == "std::ops::Try::branch":
            return ("okpayload", t[1][1][2][0])
        if k == "call" and t[1] in PASS_THROUGH and t[2]:
            t = t[2][0]
            continue
        return t


PASS_THROUGH = {
    "std::future::IntoFuture::into_future",
    "std::clone::Clone::clone",
    "std::borrow::ToOwned::to_owned",
    "std::convert::Into::into",
    "std::convert::From::from",
    "std::ops::Deref::deref",
    "std::ops::DerefMut::deref_mut",
    "std::convert::AsRef::as_ref",
    "std::option::Option::<T>::as_ref",
    "std::option::Option::<T>::as_mut",
    "std::option::Option::<T>::as_deref",
    "std::pin::Pin::<Ptr>::new_unchecked",
    "std::pin::Pin::<Ptr>::new",
    "std::pin::Pin::<Ptr>::as_mut",
    "std::boxed::Box::<T>::new",
    "std::boxed::Box::<T>::pin",
}


def _unflip(t):
    while t[0] == "unop" and t[1] == "Not":
        t = t[2]
    return t
