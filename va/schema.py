"""E6: wire-schema extraction from the bodies of (derived or hand-written) serde impls.
Reports what the program does, not what an attribute says."""
import re
from .core import BV, strip, walk, fmt_t
from . import lib, guards, terms, intervals

_PRIV = re.compile(r"__private\d+")


def n(path):
    return _PRIV.sub("__private", lib.norm(path or ""))


def impl_body(crate, trait_suffix, self_ty, item):
    out = []
    for b in crate.bodies:
        if b.get("item") == item and (b.get("impl_self") or "") == self_ty and n(b.get("impl_trait")).endswith(trait_suffix):
            out.append(b)
    return out


def ser_schema(world, crate, ty):
    """Serialisation schema of a type: {'kind': struct|map|unit_enum|repr|custom, ...}"""
    bs = impl_body(crate, "serde::Serialize", ty, "serialize")
    if len(bs) != 1:
        return None
    bv = BV.of(bs[0])
    calls = [(bi, t, n(t.get("callee"))) for bi, t in sorted(bv.calls(), key=lambda x: x[0])]
    names = [c_[2] for c_ in calls]
    out = {"type": ty, "derived": bool(bs[0].get("derived")), "body": bv}
    # unit enum (rename_all etc.)
    uv = [(bi, t) for bi, t, nm in calls if nm.endswith("Serializer::serialize_unit_variant")]
    if uv:
        out["kind"] = "unit_enum"
        sw = _first_discr_switch(bv)
        vals = {}
        if sw is not None:
            si = guards.switch_info(bv, sw)
            for tgt in bv.succ[sw]:
                reg = bv.reach_from([tgt], avoid=[sw])
                others = set()
                for o in bv.succ[sw]:
                    if o != tgt:
                        others |= bv.reach_from([o], avoid=[sw])
                mine = [t for bi, t in uv if bi in reg and bi not in others]
                for nm in si.edge_names(bv, tgt):
                    if len(mine) == 1:
                        vals[nm] = lib.term_const(crate, strip(bv.trace_op(mine[0]["args"][3])))
        out["variants"] = vals
        return out
    # repr enums: serialize(&(discriminant as iN))
    sv = [(bi, t) for bi, t, nm in calls if nm == "serde::Serialize::serialize"]
    sw = _first_discr_switch(bv)
    if sw is not None and len(sv) == 1 and "for i" in n(sv[0][1].get("resolved")) + " " or (sw is not None and len(sv) == 1 and re.search(r"Serialize for [iu]\d+>", n(sv[0][1].get("resolved")) or "")):
        m = re.search(r"Serialize for ([iu]\d+)>", n(sv[0][1].get("resolved")) or "")
        if m:
            out["kind"] = "repr"
            out["repr"] = m.group(1)
            si = guards.switch_info(bv, sw)
            arg = sv[0][1]["args"][0]
            pl = arg.get("m") or arg.get("c")
            vals = {}
            for tgt in bv.succ[sw]:
                region = bv.arm_region(sw, tgt)
                with bv.restrict(region):
                    t_ = bv.trace_op(arg)
                iv = intervals.ival(crate, t_)
                for nm in si.edge_names(bv, tgt):
                    vals[nm] = iv[0] if iv and iv[0] == iv[1] else None
            out["variants"] = vals
            return out
    ent = [(bi, t) for bi, t, nm in calls if nm.endswith("SerializeMap::serialize_entry") or nm.endswith("SerializeStruct::serialize_field")]
    flat = [(bi, t) for bi, t, nm in calls if nm == "serde::Serialize::serialize" and any(x[0] == "agg" and x[2] and "FlatMapSerializer" in x[2] for x in walk(bv.trace_op(t["args"][1])))]
    if ent or flat:
        out["kind"] = "map" if any(nm.endswith("Serializer::serialize_map") for nm in names) else "struct"
        tests = bv.bool_edges(lambda t: t[0] == "call")
        items = []
        for bi, t in sorted(ent + flat, key=lambda x: x[0]):
            if (bi, t) in flat:
                f = lib.apath(bv.trace_op(t["args"][0]), {1: "self"})
                items.append({"flatten": f.replace("self.", ""), "type": _ty(bv, t, 0)})
                continue
            key = lib.term_const(crate, strip(bv.trace_op(t["args"][1])))
            f = lib.apath(bv.trace_op(t["args"][2]), {1: "self"})
            skip = None
            for (sb, tgt, truth) in tests:
                if not truth and bv.dominated_by_edge(bi, [(sb, tgt)]):
                    term = bv.trace_op(bv.blocks[sb]["t"]["o"])
                    while term[0] == "unop":
                        term = term[2]
                    pa = lib.apath(term, {1: "self"})
                    if pa.endswith("(%s)" % f):
                        skip = n(term[1]).split("::")[-1] if term[0] == "call" else pa
                        skip = {"is_none": "None", "is_empty": "empty", "not": "false"}.get(skip, skip)
                        if term[0] == "call" and world is not None:
                            # a named predicate function: classify it by what it computes
                            from . import optnorm
                            pv = optnorm._local_callee(world, bv, term)
                            if pv is not None and pv.argc == 1:
                                r_ = pv.trace_local(0)
                                while r_[0] in ("ref", "deref"):
                                    r_ = r_[1]
                                arg_ = lambda x: lib.strip_refs(x) == ("param", 1)
                                if r_[0] == "unop" and r_[1] == "Not" and arg_(r_[2]):
                                    skip = "false"
                                elif r_[0] == "call" and r_[2] and arg_(r_[2][0]):
                                    skip = {"is_none": "None", "is_empty": "empty", "not": "false"}.get(n(r_[1]).split("::")[-1], skip)
            items.append({"key": key, "field": f.replace("self.", ""), "skip_if": skip, "type": _ty(bv, t, 1 if len(t.get("substs", [])) > 2 else 0, last=True)})
        out["items"] = items
        return out
    out["kind"] = "custom"
    out["render"] = terms.render(bv, bv.trace_local(0), world, {1: "self", 2: "serializer"})
    return out


def _ty(bv, t, idx, last=False):
    ss = [s for s in t.get("substs", []) if isinstance(s, int)]
    if not ss:
        return None
    s = ss[-1] if last else ss[min(idx, len(ss) - 1)]
    return lib.norm(bv.crate.types[s]["s"])


def _first_discr_switch(bv):
    for bi in sorted(bv.reach0):
        if bv.blocks[bi]["t"]["k"] == "switch" and len(bv.succ[bi]) > 1 and bv.switch_subject(bi) is not None:
            si = guards.switch_info(bv, bi)
            if lib.apath(bv.trace_place(si.place)) in ("param1", "*param1") or strip(bv.trace_place(si.place)) == ("param", 1):
                return bi
    return None


def de_schema(world, crate, ty):
    """Deserialisation schema of a type from its derived Visitor: fields with key, target type,
    required/optional/default, flatten targets; or the identifier table for field_identifier enums."""
    dz = [b for b in crate.bodies if b.get("item") == "deserialize" and (b.get("impl_self") or "") == ty and n(b.get("impl_trait")).endswith("serde::Deserialize")]
    if len(dz) != 1:
        return None
    prefix = dz[0]["name"]  # ...::deserialize
    out = {"type": ty, "derived": bool(dz[0].get("derived"))}
    dv = BV.of(dz[0])
    req = [n(t.get("callee")).split("::")[-1] for _, t in dv.calls() if n(t.get("callee")).startswith("serde::Deserializer::")]
    out["requests"] = req
    vm = [b for b in crate.bodies if b.get("item") == "visit_map" and b["name"].startswith("<" + prefix + "::__Visitor")]
    vs = [b for b in crate.bodies if b.get("item") == "visit_str" and b["name"].startswith("<" + prefix + "::__FieldVisitor")]
    if vm:
        bv = BV.of(vm[0])
        fields = {}
        order = []
        for bi, t in sorted(bv.calls(), key=lambda x: x[0]):
            nm = n(t.get("callee"))
            if nm.endswith("MapAccess::next_value"):
                pass
            if nm.endswith("de::missing_field") and "Error::" not in nm:
                key = lib.term_const(crate, strip(bv.trace_op(t["args"][0])))
                tys = [lib.norm(crate.types[s]["s"]) for s in t.get("substs", []) if isinstance(s, int)]
                fields[key] = {"key": key, "type": tys[0] if tys else None, "required": not (tys and tys[0].startswith("std::option::Option<")), "default": False}
                if key not in order:
                    order.append(key)
            if nm.endswith("Error::duplicate_field"):
                key = lib.term_const(crate, strip(bv.trace_op(t["args"][0])))
                if key not in fields:
                    fields.setdefault(key, {"key": key, "type": None, "required": False, "default": True})
                    if key not in order:
                        order.append(key)
        # types of defaulted fields from next_value calls (in key order of duplicate_field)
        nv = [t for bi, t in sorted(bv.calls(), key=lambda x: x[0]) if n(t.get("callee")).endswith("MapAccess::next_value")]
        dups = [lib.term_const(crate, strip(bv.trace_op(t["args"][0]))) for bi, t in sorted(bv.calls(), key=lambda x: x[0]) if n(t.get("callee")).endswith("Error::duplicate_field")]
        for key, t in zip(dups, nv):
            tys = [lib.norm(crate.types[s]["s"]) for s in t.get("substs", []) if isinstance(s, int)]
            if key in fields and fields[key]["type"] is None and len(tys) > 1:
                fields[key]["type"] = tys[1]
        # a missing_field call marks "no default"
        for k in fields:
            if fields[k]["default"] and any(k == lib.term_const(crate, strip(bv.trace_op(t["args"][0]))) for bi, t in bv.calls() if n(t.get("callee")).endswith("de::missing_field") and "Error::" not in n(t.get("callee"))):
                fields[k]["default"] = False
        flats = []
        for bi, t in sorted(bv.calls(), key=lambda x: x[0]):
            if n(t.get("callee")) == "serde::Deserialize::deserialize":
                tys = [lib.norm(crate.types[s]["s"]) for s in t.get("substs", []) if isinstance(s, int)]
                if len(tys) > 1 and "FlatMapDeserializer" in _PRIV.sub("__private", tys[1]):
                    flats.append(tys[0])
        out["kind"] = "struct"
        out["fields"] = [fields[k] for k in order]
        out["flatten"] = flats
        # struct field each key is stored into (from the final aggregate)
        agg = [x for x in walk(bv.trace_local(0)) if x[0] == "agg" and x[2] and x[2].startswith(ty + "::")]
        out["constructs"] = agg[0][4] if agg and len(agg[0]) > 4 else []
    if vs:
        sv = BV.of(vs[0])
        keys = []
        for bi, t in sorted(sv.calls(), key=lambda x: x[0]):
            if t.get("callee") == "std::cmp::PartialEq::eq":
                k = lib.term_const(crate, strip(sv.trace_op(t["args"][1])))
                if k is None:
                    k = lib.term_const(crate, strip(sv.trace_op(t["args"][0])))
                keys.append(k)
        out["identifiers"] = keys
        out["unknown_keys"] = "collected" if any(n(t.get("callee")).endswith("ToString::to_string") or "Content::" in fmt_t(sv.trace_local(0)) for _, t in sv.calls()) else "ignored"
    if not vm and not vs:
        out["kind"] = "custom"
    return out


def identifier_enum(world, crate, ty):
    """#[serde(field_identifier)] enums (OmahaStatus): string -> variant table and catch-all."""
    dz = [b for b in crate.bodies if b.get("item") == "deserialize" and (b.get("impl_self") or "") == ty]
    if len(dz) != 1:
        return None
    prefix = dz[0]["name"]
    vs = [b for b in crate.bodies if b.get("item") == "visit_str" and b["name"].startswith("<" + prefix + "::")]
    if not vs:
        return None
    sv = BV.of(vs[0])
    table = {}
    catch = None
    for conds, d in sv.decision_paths(0, 0):
        val = None
        if d is not None and d[1] is not None:
            val = terms.render(sv, sv._trace_rv(sv.blocks[d[0]]["s"][d[1]]["r"], None, 0), world, {2: "s"})
        elif d is not None:
            tt = sv.blocks[d[0]]["t"]
            val = terms.render(sv, ("call", tt["callee"], [sv.trace_op(a) for a in tt["args"]], d[0]), world, {2: "s"})
        true_keys = []
        for (cb, labs) in conds:
            si = guards.switch_info(sv, cb)
            if si.kind == "bool" and labs != (0,):
                t_ = strip(si.term)
                if t_[0] == "call" and t_[1] == "std::cmp::PartialEq::eq":
                    k = lib.term_const(crate, strip(t_[2][1]))
                    true_keys.append(k)
        if true_keys:
            table[true_keys[-1]] = val
        else:
            catch = val
    req = [n(t.get("callee")).split("::")[-1] for _, t in BV.of(dz[0]).calls() if n(t.get("callee")).startswith("serde::Deserializer::")]
    return {"table": table, "catch_all": catch, "requests": req}


# ---------------------------------------------------------------------- json! literal shapes (C17-R3)
def json_shape(bv, world, t, depth=0):
    """Shape tree of a serde_json::Value built with json!: objects with constant keys, arrays,
    interpolated expressions (with their Rust type), literals."""
    if depth > 30:
        return {"value": "?"}
    while t[0] in ("ref", "deref"):
        t = t[1]
    if t[0] == "phi":
        alts = [json_shape(bv, world, a, depth + 1) for a in t[1]]
        return alts[0] if len(alts) == 1 else {"oneof": alts}
    if t[0] == "agg" and t[2] and t[2].startswith("serde_json::Value::"):
        kind = t[2].split("::")[-1]
        if kind == "Object":
            m = t[3][0]
            while m[0] in ("ref", "deref"):
                m = m[1]
            if not (m[0] == "call" and lib.norm(m[1]).endswith("::new") and "serde_json::Map" in m[1]):
                return {"object": None}
            site = m[3]
            obj = {}
            for bi, tt in sorted(bv.calls(), key=lambda x: x[0]):
                if not (lib.norm(tt.get("callee") or "").endswith("::insert") and "serde_json::Map" in (tt.get("callee") or "")):
                    continue
                recv = bv.trace_op(tt["args"][0])
                while recv[0] in ("ref", "deref"):
                    recv = recv[1]
                if recv[0] == "call" and recv[3] == site and lib.norm(recv[1]) == lib.norm(m[1]):
                    k = bv.trace_op(tt["args"][1])
                    kk = None
                    for x in walk(k):
                        if x[0] == "const":
                            kk = lib.term_const(bv.crate, x)
                            if kk is not None:
                                break
                    obj[kk] = json_shape(bv, world, bv.trace_op(tt["args"][2]), depth + 1)
            return {"object": obj}
        if kind == "Array":
            elems = []
            for x in walk(t[3][0]):
                if x[0] == "agg" and x[1] == "array":
                    elems = [json_shape(bv, world, e, depth + 1) for e in x[3]]
                    break
            return {"array": elems, "dynamic": not elems, "term": terms.render(bv, t[3][0], world, {})[:200] if not elems else None}
        out_ = {"value": kind.lower()}
        if kind == "Bool" and t[3]:
            cv_ = lib.term_const(bv.crate, strip(t[3][0]))
            if cv_ in (0, 1):
                out_["term"] = "true" if cv_ else "false"
        return out_
    if t[0] == "call" and lib.norm(t[1]).split("::")[-1] in ("unwrap", "expect") and t[2]:
        inner = t[2][0]
        while inner[0] in ("ref", "deref"):
            inner = inner[1]
        if inner[0] == "call" and lib.norm(inner[1]) == "serde_json::to_value":
            tt = bv.blocks[inner[3]]["t"]
            tys = [lib.norm(bv.crate.types[s]["s"]) for s in tt.get("substs", []) if isinstance(s, int)]
            return {"value": "expr", "type": tys[0] if tys else None, "term": terms.render(bv, inner[2][0], world, {})[:200]}
    if t[0] == "call" and lib.norm(t[1]) == "serde_json::to_value":
        return {"value": "expr", "type": None}
    return {"value": "other", "term": terms.render(bv, t, world, {})[:200]}
