"""Lock discipline of the async mutexes (storage, app set, mock-server state), decided on MIR.

For every local of a `MutexGuard` type the *held region* is computed at statement granularity: from the assignment
of the guard to the statement or terminator that moves it away (`drop(guard)`, a move into another guard local,
whose own region continues) or the `Drop` terminator of the local.  Inside a held region three things are looked at:

  * another `Mutex::lock` call                         -> a lock-order edge  held-kind -> acquired-kind
  * a call of a local function whose body, transitively, locks a mutex -> the same edges through the summary
  * an emission of a state-machine event (`Yield::yield_` / `yield_all`, directly or in a callee)

Rules built on that (shape-independent: they are facts about paths, not about how the code is spelt):

  lock-order        no mutex kind is acquired while a guard of the same kind is held (self-deadlock: the futures
                    mutex is not re-entrant), and the order between two kinds is the same everywhere (no A->B and B->A)
  no-emission-while-locked   no event is handed to the consumer while a guard is held: the consumer runs between two
                    polls of the stream and may take the same shared mutex, after which neither side can continue

A mutex *kind* is the pointee type of the guard (`ST`, `AS`, `OmahaServer`, ..): every instance of one type parameter
in the state machine is the same shared object (`Rc<Mutex<ST>>` cloned from the builder)."""
import json
import re
from .core import BV
from . import lib

GUARD_RE = re.compile(r"^(?:futures(?:_util)?::lock|tokio::sync(?:::mutex)?|std::sync(?:::\w+)*)::(?:Owned)?MutexGuard<(?:'\w+, )?(.+)>$")
LOCK_FNS = ("futures::lock::Mutex::<T>::lock", "tokio::sync::Mutex::<T>::lock", "std::sync::Mutex::<T>::lock")
TRY_LOCK_FNS = ("futures::lock::Mutex::<T>::try_lock", "tokio::sync::Mutex::<T>::try_lock")


def guard_kind(crate, tid):
    s = crate.types[tid]["s"]
    m = GUARD_RE.match(s)
    return m.group(1) if m else None


def _moves_local(o, L):
    """Does the JSON fragment move local L as a whole?"""
    if isinstance(o, dict):
        m = o.get("m")
        if isinstance(m, dict) and m.get("l") == L and not m.get("p"):
            return True
        return any(_moves_local(v, L) for v in o.values())
    if isinstance(o, list):
        return any(_moves_local(v, L) for v in o)
    return False


def held_terminators(bv, L):
    """-> (def sites [(bi, si)], set of block indices whose terminator executes while guard local L is held)"""
    defs = []
    for bi, bl in enumerate(bv.blocks):
        if bl.get("cleanup"):
            continue
        for si, s_ in enumerate(bl["s"]):
            if s_["k"] == "assign" and s_["p"].get("l") == L and not s_["p"].get("p"):
                defs.append((bi, si))
    held = set()
    seen = set()
    work = [(bi, si + 1) for bi, si in defs]
    while work:
        bi, si = work.pop()
        bl = bv.blocks[bi]
        stop = False
        for s_ in bl["s"][si:]:
            if _moves_local(s_, L):
                stop = True
                break
        if stop:
            continue
        t = bl["t"]
        if t["k"] == "drop" and t["p"].get("l") == L and not t["p"].get("p"):
            continue
        if t["k"] == "call" and _moves_local(t.get("args", []), L):
            continue
        held.add(bi)
        for b in bv.succ[bi]:
            if b not in seen and not bv.blocks[b].get("cleanup"):
                seen.add(b)
                work.append((b, 0))
    return defs, held


def lock_kind_of_call(crate, t):
    """Kind acquired by a `Mutex::lock` call terminator (None if the call is not a lock)."""
    if t.get("k") != "call":
        return None
    cal = lib.norm(t.get("callee") or "")
    if cal not in LOCK_FNS:
        return None
    subs = [crate.types[s]["s"] for s in t.get("substs", []) if isinstance(s, int)]
    return subs[0] if subs else "?"


def _async_body(W, cid):
    if not cid:
        return []
    out = []
    for k in (cid, cid + "::{closure#0}"):
        if k in W.by_id:
            out.append(W.by_id[k])
    return out


class Summaries:
    """Transitive (acquires, emits) per body over local callees, closures and async bodies."""

    def __init__(self, W):
        self.W = W
        self.memo = {}

    def of(self, b, _stack=()):
        bid = b["id"]
        if bid in self.memo:
            return self.memo[bid]
        if bid in _stack:
            return (frozenset(), False)
        bv = BV.of(b)
        acq = set()
        emits = False
        for bi, t in bv.calls():
            k = lock_kind_of_call(bv.crate, t)
            if k is not None:
                acq.add(k)
            if lib.callee_is(t, "yield_", "yield_all") and "async_generator" in (t.get("callee") or ""):
                emits = True
            for cb in _async_body(self.W, t.get("resolved_id") or t.get("callee_id")):
                a2, e2 = self.of(cb, _stack + (bid,))
                acq |= a2
                emits = emits or e2
        for cb in lib.closures_of(bv.crate, bid):
            a2, e2 = self.of(cb, _stack + (bid,))
            acq |= a2
            emits = emits or e2
        r = (frozenset(acq), emits)
        self.memo[bid] = r
        return r


def analyse(W, crates, only=None):
    """-> dict(regions=[..], edges=[..], emissions=[..]) over all bodies of `crates` (optionally filtered by id prefix)."""
    S = Summaries(W)
    regions, edges, emissions = [], [], []
    for c in crates:
        for b in c.bodies:
            if only and not any(b["id"].startswith(p) for p in only):
                continue
            bv = BV.of(b)
            for L, l in enumerate(bv.locals):
                kind = guard_kind(c, l["t"])
                if kind is None:
                    continue
                defs, held = held_terminators(bv, L)
                if not defs:
                    continue
                regions.append({"body": b["id"], "fn": b["name"], "local": L, "kind": kind, "blocks": len(held), "loc": lib.loc(bv, defs[0][0])})
                for bi in sorted(held):
                    t = bv.blocks[bi]["t"]
                    if t["k"] != "call":
                        continue
                    k2 = lock_kind_of_call(c, t)
                    if k2 is not None:
                        edges.append({"held": kind, "acquired": k2, "fn": b["name"], "via": "lock", "loc": lib.loc(bv, bi)})
                    if lib.callee_is(t, "yield_", "yield_all") and "async_generator" in (t.get("callee") or ""):
                        emissions.append({"held": kind, "fn": b["name"], "via": t.get("name"), "loc": lib.loc(bv, bi)})
                    for cb in _async_body(W, t.get("resolved_id") or t.get("callee_id")):
                        acq, em = S.of(cb)
                        for k2 in sorted(acq):
                            edges.append({"held": kind, "acquired": k2, "fn": b["name"], "via": cb["name"], "loc": lib.loc(bv, bi)})
                        if em:
                            emissions.append({"held": kind, "fn": b["name"], "via": cb["name"], "loc": lib.loc(bv, bi)})
    return {"regions": regions, "edges": edges, "emissions": emissions}


def _short(fn):
    return fn.split("::{closure")[0].split("::")[-1]


def check(R, rule, W, crates, only=None, floor_regions=1, emission_rule=True):
    """Report the lock discipline under `rule`."""
    A = analyse(W, crates, only)
    R.count("guard_regions", len(A["regions"]))
    if not R.floor(rule, "mutex guard regions", len(A["regions"]), floor_regions):
        return A
    order = {}
    for e in A["edges"]:
        order.setdefault((e["held"], e["acquired"]), []).append(e)
    # one instance per guard region: what is acquired / emitted while it is held
    per = {}
    for g in A["regions"]:
        per.setdefault((_short(g["fn"]), g["kind"]), []).append(g)
    bad_sites = set()
    for (a, b), es in sorted(order.items()):
        if a == b:
            for e in es:
                bad_sites.add((_short(e["fn"]), a))
                R.violation(rule, "self-deadlock:%s:%s>%s:via-%s" % (_short(e["fn"]), a, b, _short(e["via"])),
                            "%s takes the %s mutex (%s) while it already holds a guard of it: the async mutex is not re-entrant, the flow waits for itself" % (_short(e["fn"]), b, "directly" if e["via"] == "lock" else "in " + _short(e["via"])), e["loc"])
        elif (b, a) in order:
            for e in es:
                bad_sites.add((_short(e["fn"]), a))
                R.violation(rule, "lock-order:%s:%s>%s" % (_short(e["fn"]), a, b),
                            "%s takes %s while holding %s, but %s takes them in the opposite order: two tasks can wait for each other" % (_short(e["fn"]), b, a, _short(order[(b, a)][0]["fn"])), e["loc"])
    for (fn, kind), gs in sorted(per.items()):
        if (fn, kind) not in bad_sites:
            acq = sorted({e["acquired"] for e in A["edges"] if _short(e["fn"]) == fn and e["held"] == kind})
            R.holds(rule, "held:%s:%s" % (fn, kind), "while %s is held: acquires %s" % (kind, acq or "nothing"))
    if emission_rule:
        seen = set()
        for e in A["emissions"]:
            k = (_short(e["fn"]), e["held"], _short(e["via"]))
            if k in seen:
                continue
            seen.add(k)
            R.violation(rule, "emission-while-locked:%s:%s:via-%s" % k,
                        "%s hands an event to the consumer while holding the %s mutex: a consumer that takes the same shared mutex before polling again stops the flow for good" % (k[0], k[1]), e["loc"])
        R.check(rule, "no-emission-while-locked", not A["emissions"], "no event is emitted inside any of the %d guard regions" % len(A["regions"]), "an event is emitted while a mutex guard is held")
    return A


if __name__ == "__main__":
    from . import facts, sm as smod
    F = facts.get()
    sm = smod.get(F)
    A = analyse(sm.w, sm.w.crates)
    for k, v in A.items():
        print("==", k, len(v))
        for x in v:
            print("  ", json.dumps(x))
