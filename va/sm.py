"""State-machine specific infrastructure: anchors (discovered through the call graph from the public
entry points), the environment alphabet Sigma, event classification, outcome edges, graph queries."""
from .core import BV, strip, walk, fmt_t, is_logging_span
from . import flow, lib, guards
from .report import Inconclusive

ENV_TRAITS = {
    "policy::PolicyEngine": "Policy",
    "http_request::HttpRequest": "Http",
    "installer::Installer": "Installer",
    "installer::Plan": "Plan",
    "time::Timer": "Timer",
    "time::TimeSource": "TimeSource",
    "storage::Storage": "Storage",
    "metrics::MetricsReporter": "Metrics",
    "app_set::AppSet": "AppSet",
    "cup_ecdsa::Cupv2RequestHandler": "Cup",
    "cup_ecdsa::Cupv2Verifier": "CupVerifier",
}
# Ext traits whose default methods are inlined (must be sealed by a blanket impl)
EXT_TRAITS = {"storage::StorageExt": "storage::Storage", "app_set::AppSetExt": "app_set::AppSet"}
# floors: number of items per environment trait, counted from the trait definitions
TRAIT_ITEM_FLOORS = {"policy::PolicyEngine": 6, "http_request::HttpRequest": 1, "installer::Installer": 3,
                     "time::Timer": 2, "time::TimeSource": 3, "storage::Storage": 8, "metrics::MetricsReporter": 1,
                     "app_set::AppSet": 3}


class SM:
    def __init__(self, F):
        self.F = F
        self.c = F.client
        self.w = flow.World([F.client])
        self._supers = {}
        self._discover()

    # ------------------------------------------------------------------ anchors
    def _discover(self):
        c = self.c
        SMB = "state_machine::builder::StateMachineBuilder"
        self.start_co = self._co_of(lib.bodies(c, item="start", impl_self=SMB))
        self.oneshot_co = self._co_of(lib.bodies(c, item="oneshot_check", impl_self=SMB))
        self.build_co = self._co_of(lib.bodies(c, item="build", impl_self=SMB))
        if not (self.start_co and self.oneshot_co and self.build_co):
            raise Inconclusive("public entry points StateMachineBuilder::{start,oneshot_check,build} not found")
        # long-running loop: the async fn called from the closure handed to async_generator::generate in `start`
        self.run_co = self._generated_task(self.start_co)
        # one check: the async fn awaited inside the generator task of oneshot_check
        self.check_co = self._generated_task(self.oneshot_co)
        if not self.run_co or not self.check_co:
            raise Inconclusive("could not discover the generator tasks of start()/oneshot_check()")
        self.handle_co = self._co_of(lib.bodies(c, item="start_update_check", impl_self="state_machine::ControlHandle"))

    def _co_of(self, bs):
        if len(bs) != 1:
            return None
        co = lib.coroutine_of(self.c, bs[0])
        return co["id"] if co else None

    def _generated_task(self, co_id):
        """Follow `generate(closure)` in an entry coroutine down to the first local async fn its task awaits."""
        c = self.c
        bv = self.w.bv(co_id)
        gen = [(bi, t) for bi, t in bv.calls() if lib.callee_is(t, "async_generator::generate")]
        if len(gen) != 1:
            return None
        arg = bv.trace_op(gen[0][1]["args"][0])
        clo = [x for x in walk(arg) if x[0] == "agg" and x[1] == "closure"]
        if not clo:
            return None
        cb = self.w.bv(clo[0][2])
        # closure either calls the async fn directly (start) or builds an async block that awaits it (oneshot)
        for bi, t in cb.calls():
            cid = t.get("callee_id")
            if cid in self.w.by_id and self.w.by_id[cid].get("async"):
                return cid + "::{closure#0}"
        for x in walk(cb.trace_local(0)):
            if x[0] == "agg" and x[1] == "coroutine":
                inner = self.w.bv(x[2])
                for bi, t in inner.calls():
                    cid = t.get("callee_id")
                    if cid in self.w.by_id and self.w.by_id[cid].get("async") and "state_machine::StateMachine" in (t.get("callee") or ""):
                        return cid + "::{closure#0}"
        return None

    # ------------------------------------------------------------------ graphs
    def super(self, root):
        s = self._supers.get(root)
        if s is None:
            s = flow.Super(self.w, root)
            self._supers[root] = s
            self._annotate(s)
        return s

    @property
    def S_run(self):
        return self.super(self.run_co)

    @property
    def S_check(self):
        return self.super(self.check_co)

    def _annotate(self, S):
        S.ev = [None] * len(S.nodes)
        S.live = S.reach([S.root.entry])
        for n in S.nodes:
            if n.idx in S.live:
                S.ev[n.idx] = self.classify(S, n)

    # ------------------------------------------------------------------ events
    def classify(self, S, n):
        t = n.term
        if t["k"] != "call":
            return None
        if is_logging_span(t["sp"]):
            return None
        tr = t.get("trait")
        name = t.get("name")
        if tr == "metrics::MetricsReporter" and name == "report_metrics" and t.get("substs"):
            st = t["substs"][0]
            ty = n.ctx.bv.crate.types[st] if isinstance(st, int) else None
            if ty is not None and ty.get("k") in ("param", "alias"):
                return ("metric", self.classify_metric(S, n))
        if tr in ENV_TRAITS and t.get("substs"):
            st = t["substs"][0]
            ty = n.ctx.bv.crate.types[st] if isinstance(st, int) else None
            if ty is not None and ty.get("k") in ("param", "alias"):
                return ("env", ENV_TRAITS[tr], name)
        callee = lib.norm(t.get("callee") or "")
        if callee in ("async_generator::Yield::<I>::yield_", "async_generator::Yield::<I>::yield_all"):
            return ("yield",) + self.classify_yield(S, n)
        if callee.endswith("oneshot::Sender::<T>::send"):
            return ("reply", self.classify_reply(S, n))
        return None

    def classify_yield(self, S, n):
        t = n.term
        if t["name"] == "yield_all":
            return ("*all*", None)
        term = S.trace(n, t["args"][1])
        variants = set()
        states = set()
        for alt in (term[1] if term[0] == "phi" else [term]):
            a = alt
            while a[0] in ("ref", "deref"):
                a = a[1]
            if a[0] == "agg" and a[1] == "adt" and "StateMachineEvent::" in a[2]:
                v = a[2].split("::")[-1]
                variants.add(v)
                if v == "StateChange":
                    st = a[3][0]
                    for s_ in (st[1] if st[0] == "phi" else [st]):
                        s2 = s_
                        while s2[0] in ("ref", "deref"):
                            s2 = s2[1]
                        if s2[0] == "agg" and s2[1] == "adt" and "::State::" in s2[2]:
                            states.add(s2[2].split("::")[-1])
                        else:
                            states.add("?" + fmt_t(s2)[:60])
            else:
                variants.add("?" + fmt_t(a)[:60])
        v = "|".join(sorted(variants))
        s = "|".join(sorted(states)) if states else None
        return (v, s)

    def classify_metric(self, S, n):
        term = S.trace(n, n.term["args"][1])
        outs = set()
        for alt in (term[1] if term[0] == "phi" else [term]):
            if alt[0] == "agg" and alt[1] == "adt" and "Metrics::" in alt[2]:
                outs.add(alt[2].split("::")[-1])
            else:
                v_ = self._elem_variant(n, alt)
                outs.add(v_ if v_ else "?" + fmt_t(alt)[:60])
        return "|".join(sorted(outs))

    def _elem_variant(self, n, alt):
        """`iter.map(Metrics::Variant).for_each(|m| self.report_metrics(m))`: the closure's parameter is an element of an
        iterator whose last adaptor applies a variant constructor — that variant."""
        cx = n.ctx
        while cx is not None and cx.how and cx.how[0] == "call":
            cx = cx.parent      # resolution went up through plain calls and stopped at the closure's own parameter
        how = cx.how if cx is not None else None
        if lib.strip_refs(alt) != ("param", 2) or not how or how[0] != "closure" or cx.parent is None:
            return None
        t = how[1]
        if not lib.callee_is(t, "std::iter::Iterator::for_each") or not t.get("args"):
            return None
        recv = lib.strip_refs(cx.parent.bv.trace_op(t["args"][0]))
        if recv[0] == "call" and lib.norm(recv[1]) == "std::iter::Iterator::map" and len(recv[2]) == 2:
            f = lib.strip_refs(recv[2][1])
            if f[0] == "const" and isinstance(f[1], dict):
                sname = f[1].get("s") or ""
                ty_ = cx.parent.bv.crate.types[f[1]["t"]] if isinstance(f[1].get("t"), int) else {}
                path_ = ty_.get("d") or sname
                if "Metrics::" in path_:
                    return path_.split("::")[-1]
        return None

    def metrics(self, S, which=None):
        return [n.idx for n in S.nodes if S.ev[n.idx] and S.ev[n.idx][0] == "metric" and (which is None or S.ev[n.idx][1] == which)]

    def classify_reply(self, S, n):
        t = n.term
        term = S.trace(n, t["args"][1])
        outs = set()
        for alt in (term[1] if term[0] == "phi" else [term]):
            if alt[0] == "agg" and alt[1] == "adt":
                outs.add(alt[2].split("::")[-1])
            else:
                outs.add("?" + fmt_t(alt)[:60])
        return "|".join(sorted(outs))

    def events(self, S, pred):
        return [n for n in S.nodes if S.ev[n.idx] is not None and pred(S.ev[n.idx])]

    def env(self, S, trait, name=None):
        return [n.idx for n in S.nodes if S.ev[n.idx] and S.ev[n.idx][0] == "env" and S.ev[n.idx][1] == trait and (name is None or S.ev[n.idx][2] == name)]

    def yields(self, S, variant=None, state=None):
        out = []
        for n in S.nodes:
            e = S.ev[n.idx]
            if e and e[0] == "yield" and (variant is None or e[1] == variant) and (state is None or e[2] == state):
                out.append(n.idx)
        return out

    def replies(self, S, which=None):
        return [n.idx for n in S.nodes if S.ev[n.idx] and S.ev[n.idx][0] == "reply" and (which is None or S.ev[n.idx][1] == which)]

    def writes(self, S, *suffix):
        """Live nodes with a statement (or call destination) assigning a place whose field-name chain
        ends with `suffix` (e.g. 'schedule', 'last_update_time')."""
        out = []
        for n in S.nodes:
            if n.idx not in S.live:
                continue
            bl = n.block
            hit = False
            for s_ in bl["s"]:
                if s_["k"] == "assign" and _chain_ends(s_["p"], suffix, n.ctx.bv):
                    hit = True
            t = bl["t"]
            if t["k"] == "call" and _chain_ends(t["dest"], suffix, n.ctx.bv):
                hit = True
            if not hit and t["k"] == "call" and t.get("name") in ("add_assign", "sub_assign", "replace", "take", "insert", "get_or_insert_with") and t["args"]:
                # compound assignment through a &mut borrow of the field
                a0 = n.ctx.bv.trace_op(t["args"][0])
                if _term_chain_ends(a0, suffix):
                    hit = True
            if hit:
                out.append(n.idx)
        return out

    def calls(self, S, *names):
        return [n.idx for n in S.nodes if n.term["k"] == "call" and lib.callee_is(n.term, *names) and not is_logging_span(n.term["sp"])]

    # ------------------------------------------------------------------ outcome edges
    def outcome_edges(self, S, adt, variant=None, pred=None):
        """Edges (a, b) of the supergraph leaving a switch on the discriminant of a value of type `adt`
        (def path) through `variant`.  pred(node, SwitchInfo) may filter."""
        out = []
        for n in S.nodes:
            t = n.term
            if t["k"] != "switch":
                continue
            bv = n.ctx.bv
            sub = bv.switch_subject(n.bi)
            if sub is None:
                continue
            ty = bv.crate.types[sub[1]]
            if ty.get("k") != "adt" or ty.get("d") != adt:
                continue
            si = guards.switch_info(bv, n.bi)
            if pred is not None and not pred(n, si):
                continue
            for b in S.succ[n.idx]:
                labs = [l for l in S.elabel.get((n.idx, b), []) if l[0] == "switch" and l[1] == n.bi]
                names = []
                for l in labs:
                    v = l[2]
                    if v == "otherwise":
                        covered = set(a for a, _ in si.arms)
                        names.extend([nm for val, nm in si.names.items() if val not in covered])
                    else:
                        names.append(si.names.get(v, str(v)))
                if variant is None or variant in names:
                    out.append((n.idx, b, tuple(names)))
        return out

    def bool_edges(self, S, pred):
        """Edges leaving a boolean switch whose traced condition satisfies pred(node, term): returns
        [(a, b, truth)]"""
        out = []
        for n in S.nodes:
            t = n.term
            if t["k"] != "switch":
                continue
            bv = n.ctx.bv
            if bv.switch_subject(n.bi) is not None:
                continue
            if bv.crate.types[t["ot"]]["s"] != "bool":
                continue
            term = bv.trace_op(t["o"])
            flip = False
            while term[0] == "unop" and term[1] == "Not":
                term = term[2]
                flip = not flip
            # a condition merged from several sources counts only if every source satisfies the predicate
            # (`let ok = if shortcut { true } else { really_checked() }; if ok {..}` is not a test of really_checked())
            if term[0] == "phi":
                if not all(pred(n, _unflip(a)) for a in term[1]):
                    continue
            elif not pred(n, term):
                continue
            for b in S.succ[n.idx]:
                labs = [l[2] for l in S.elabel.get((n.idx, b), []) if l[0] == "switch" and l[1] == n.bi]
                for v in labs:
                    out.append((n.idx, b, (v != 0) != flip))
        return out


def _chain(place):
    return [e.get("n", str(e.get("i"))) for e in place.get("p", []) if e["k"] == "field"]


def _chain_ends(place, suffix, bv=None):
    ch = _chain(place)
    if bv is not None and len(ch) < len(suffix) and place.get("p") and place["p"][0]["k"] == "deref":
        # a write through a local reference (`let st = &mut self.context.state; st.x = ..`): prepend what it borrows
        t = bv.trace_local(place["l"])
        pre = []
        for a in lib.alts(t):
            cur = []
            while a[0] in ("ref", "deref", "field"):
                if a[0] == "field":
                    cur.append(str(a[2]))
                a = a[1]
            pre.append(cur[::-1])
        if pre and all(x == pre[0] for x in pre):
            ch = pre[0] + ch
    return len(ch) >= len(suffix) and tuple(ch[-len(suffix):]) == tuple(suffix)


def _term_chain_ends(t, suffix):
    ch = []
    while True:
        if t[0] in ("ref", "deref"):
            t = t[1]
        elif t[0] == "field":
            ch.append(str(t[2]))
            t = t[1]
        else:
            break
    ch = ch[::-1]
    return len(ch) >= len(suffix) and tuple(ch[-len(suffix):]) == tuple(suffix)


# ---------------------------------------------------------------------- graph queries with edge cuts
def reach(S, starts, cut_edges=(), cut_nodes=(), backward=False, plain=False):
    if not backward and not plain:
        return reach_pf(S, starts, cut_edges, cut_nodes)
    cut_edges = set(cut_edges)
    cut_nodes = set(cut_nodes)
    adj = S.pred if backward else S.succ
    seen = set()
    st = [s for s in starts if s not in cut_nodes]
    while st:
        a = st.pop()
        if a in seen:
            continue
        seen.add(a)
        for b in adj[a]:
            e = (b, a) if backward else (a, b)
            if b in seen or b in cut_nodes or e in cut_edges:
                continue
            st.append(b)
    return seen


def descends(ctx, anc):
    while ctx is not None:
        if ctx is anc:
            return True
        ctx = ctx.parent
    return False


def reach_in(S, starts, ctx, cut_edges=(), cut_nodes=()):
    """Forward reachability confined to one calling context and the bodies spliced below it; the
    context's return nodes are included but not expanded."""
    cut_edges = set(cut_edges)
    cut_nodes = set(cut_nodes)
    rets = set(ctx.returns)
    # path-sensitive (reach_pf), with the context's returns as the boundary
    bound = set((r_, b_) for r_ in rets for b_ in S.succ[r_])
    pf = reach_pf(S, [s_ for s_ in starts if s_ not in cut_nodes], cut_edges | bound, cut_nodes)
    return set(x for x in pf if descends(S.nodes[x].ctx, ctx))
    seen = set()
    st = [s for s in starts if s not in cut_nodes]
    while st:
        a = st.pop()
        if a in seen:
            continue
        seen.add(a)
        if a in rets:
            continue
        for b in S.succ[a]:
            if b in seen or b in cut_nodes or (a, b) in cut_edges:
                continue
            if not descends(S.nodes[b].ctx, ctx):
                continue
            st.append(b)
    return seen


def local_loop(S, node, ctx):
    """Nodes on a cycle through `node` that stays inside calling context `ctx` (and bodies spliced
    below it): the innermost source-level loop around a node, even when an outer loop encloses the
    whole function."""
    fw = reach_in(S, S.succ[node], ctx)
    fw.add(node)
    # backward from node inside fw
    back = set()
    st = [node]
    while st:
        a = st.pop()
        if a in back:
            continue
        back.add(a)
        for b in S.pred[a]:
            if b in fw and b not in back and b not in set(ctx.returns):
                st.append(b)
    return back if len(back) > 1 else set()


TRY_MAP = {"Ok": "Continue", "Err": "Break", "Some": "Continue", "None": "Break"}


PF_K = 8


def _pf_path(pj):
    """Projection list -> fact path (downcast / field elements only), or None."""
    out = []
    for e in pj or ():
        if e["k"] == "downcast":
            out.append(("d", e.get("n") if e.get("n") is not None else e.get("v")))
        elif e["k"] == "field":
            out.append(("f", e["i"]))
        else:
            return None
    return tuple(out)


def _pf_tainted(bv):
    """Locals of a body whose address is taken mutably (or as a raw pointer): nothing is learnt about them from a switch."""
    t = getattr(bv, "_pf_taint", None)
    if t is None:
        t = set()
        for bl in bv.blocks:
            for s_ in bl["s"]:
                if s_["k"] == "assign" and s_["r"]["k"] in ("ref", "rawptr") and (s_["r"]["k"] == "rawptr" or s_["r"].get("m")):
                    pl = s_["r"]["p"]
                    pj = pl.get("p") or []
                    if not any(e["k"] == "deref" for e in pj):
                        t.add(pl["l"])
        bv._pf_taint = t
    return t


def _pf_const_bool(o, types):
    if "k" in o and "v" in o["k"] and types[o["k"]["t"]]["s"] == "bool":
        return "true" if o["k"]["v"] else "false"
    return None


def _pf_src(o):
    pl = o.get("m") or o.get("c")
    if pl is None:
        return None
    pp = _pf_path(pl.get("p"))
    if pp is None:
        return None
    return (pl["l"], pp)


def _pf_relevant(bv):
    """Locals of a body about which a fact can ever be consulted: the subject of a switch, the return place, an argument of a
    call (a spliced callee may switch on its parameter), and whatever is moved or built into one of those."""
    rel = getattr(bv, "_pf_rel", None)
    if rel is not None:
        return rel
    rel = {0}
    flows = {}      # destination local -> source locals
    for bi, bl in enumerate(bv.blocks):
        for s_ in bl["s"]:
            if s_["k"] != "assign":
                continue
            r = s_["r"]
            srcs = []
            if r["k"] == "agg":
                srcs = [_pf_src(o_) for o_ in r.get("ops", [])]
            elif r["k"] == "use":
                srcs = [_pf_src(r["o"])]
            for x in srcs:
                if x is not None:
                    flows.setdefault(s_["p"]["l"], set()).add(x[0])
        t = bl["t"]
        if t["k"] == "switch":
            sub = bv.switch_subject(bi)
            if sub is not None:
                rel.add(sub[0]["l"])
            else:
                pl_ = t["o"].get("m") or t["o"].get("c")
                if pl_ is not None:
                    rel.add(pl_["l"])
        elif t["k"] == "call":
            cal = t.get("callee")
            if cal == "std::ops::Try::branch":
                x = _pf_src(t["args"][0]) if t["args"] else None
                if x is not None:
                    flows.setdefault(t["dest"]["l"], set()).add(x[0])
            elif not (cal or "").startswith(("std::", "core::", "alloc::")):
                for a_ in t["args"]:
                    x = _pf_src(a_)
                    if x is not None:
                        rel.add(x[0])
    st = list(rel)
    while st:
        l = st.pop()
        for x in flows.get(l, ()):
            if x not in rel:
                rel.add(x)
                st.append(x)
    bv._pf_rel = rel
    return rel


def _pf_compile(bv, bi):
    """Statements of a block as fact-transfer operations (cached per body)."""
    cache = bv.__dict__.setdefault("_pf_ops", {})
    ops = cache.get(bi)
    if ops is not None:
        return ops
    ops = []
    types = bv.crate.types
    rel = _pf_relevant(bv)
    for s_ in bv.blocks[bi]["s"]:
        k = s_["k"]
        if k in ("dead", "assign", "setdiscr") and (s_["l"] if k == "dead" else s_["p"]["l"]) not in rel \
                and not (k == "assign" and s_["r"]["k"] in ("ref", "rawptr")):
            continue
        if k == "dead":
            ops.append(("kill", s_["l"], ()))
        elif k == "setdiscr":
            dp = _pf_path(s_["p"].get("p"))
            if dp is not None:
                ops.append(("kill", s_["p"]["l"], dp))
        elif k == "assign":
            l = s_["p"]["l"]
            r = s_["r"]
            dp = _pf_path(s_["p"].get("p"))
            if dp is None:
                continue            # a write through a reference or an index: the target is not a tracked place
            if r["k"] == "agg" and r.get("ak") in ("adt", "tuple"):
                vn = None
                if r["ak"] == "adt":
                    ad = bv.crate.adts.get(r["d"])
                    if r["d"] in guards.STD_VARIANTS or (ad and ad["kind"] == "enum"):
                        vn = r["vn"]
                parts = []
                for i_, o_ in enumerate(r.get("ops", [])):
                    pre = dp + ((("d", vn), ("f", i_)) if vn is not None else (("f", i_),))
                    src = _pf_src(o_)
                    cb = _pf_const_bool(o_, types) if src is None else None
                    if src is not None or cb is not None:
                        parts.append((pre, src, cb))
                ops.append(("set", l, dp, vn, parts))
            elif r["k"] == "use":
                src = _pf_src(r["o"])
                cb = _pf_const_bool(r["o"], types) if src is None else None
                ops.append(("set", l, dp, cb, [(dp, src, None)] if src is not None else []))
            elif r["k"] in ("ref", "rawptr") and (r["k"] == "rawptr" or r.get("m")):
                ops.append(("kill", l, dp))
                bp = r["p"]
                bpp = bp.get("p") or []
                if not any(e["k"] == "deref" for e in bpp):
                    pre = []
                    for e in bpp:
                        q = _pf_path([e])
                        if q is None:
                            break
                        pre.extend(q)
                    ops.append(("kill", bp["l"], tuple(pre)))
            else:
                ops.append(("kill", l, dp))
    cache[bi] = ops
    return ops


import heapq


def _pf_order(S):
    """Reverse postorder numbering of the supergraph from its root (cached): joins are visited after their predecessors."""
    o = S.__dict__.get("_pf_rpo")
    if o is not None:
        return o
    seen = set()
    post = []
    for r0 in [S.root.entry] + list(range(len(S.nodes))):
        if r0 in seen:
            continue
        seen.add(r0)
        st = [(r0, iter(S.succ[r0]))]
        while st:
            a, it = st[-1]
            adv = False
            for b in it:
                if b not in seen:
                    seen.add(b)
                    st.append((b, iter(S.succ[b])))
                    adv = True
                    break
            if not adv:
                post.append(a)
                st.pop()
    o = {}
    # earlier roots first, and within a root reverse postorder
    n = len(post)
    for i_, a in enumerate(post):
        o[a] = n - i_
    S.__dict__["_pf_rpo"] = o
    return o


def reach_pf(S, starts, cut_edges=(), cut_nodes=(), facts0=(), want_facts=False):
    """Forward reachability refined by a path-sensitive must-analysis of enum variants and boolean constants (E2).
    A fact is ((context, local, path), value): the value at `path` (downcast/field steps) inside `local` is variant
    `value` (or "true"/"false").  Facts are created by aggregates and constants, learnt on the arms of a switch over a
    discriminant, copied by moves / aggregates / await results / call arguments and returns, mapped through Try::branch,
    killed by other assignments, mutable borrows and StorageDead.  Every node keeps up to PF_K alternative fact sets
    (one per group of paths that agree), so that `let d = match x { A => None, B => Some(..) }; if let Some(..) = d`
    keeps the correlation between `x` and `d`; beyond PF_K the alternatives collapse to their intersection.  A switch on
    a subject whose value is known only follows the matching arm."""
    cut_edges = set(cut_edges)
    cut_nodes = set(cut_nodes)
    starts = list(starts)
    f0 = frozenset(facts0)
    memo = S.__dict__.setdefault("_pf_memo", {})
    mkey = (frozenset(starts), frozenset(cut_edges), frozenset(cut_nodes), f0)
    if mkey in memo:
        IN = memo[mkey]
        return IN if want_facts else set(IN)
    IN = {}
    work = []
    order = _pf_order(S)
    cnt = [0]

    def push(w_, f_):
        cnt[0] += 1
        heapq.heappush(work, (order.get(w_, 0), cnt[0], w_, f_))
    for s_ in starts:
        if s_ not in cut_nodes:
            IN[s_] = [f0]
            push(s_, f0)
    si_cache = S.__dict__.setdefault("_pf_si", {})

    def kill(cur, l, pre):
        d = cur.get(l)
        if d:
            if not pre:
                del cur[l]
            else:
                n_ = len(pre)
                for p_ in [p_ for p_ in d if p_[:n_] == pre]:
                    del d[p_]

    def sub(cur, src):
        """facts below place `src` = (local, path), as (rest-of-path, value)"""
        d = cur.get(src[0])
        if not d:
            return ()
        pre = src[1]
        if not pre:
            return list(d.items())
        n_ = len(pre)
        return [(p_[n_:], v_) for p_, v_ in d.items() if p_[:n_] == pre]

    while work:
        _, _, v, facts = heapq.heappop(work)
        if facts not in IN.get(v, ()):
            continue
        nd = S.nodes[v]
        cid = nd.ctx.idx
        bv = nd.ctx.bv
        cur = {}
        rest = []
        for it in facts:
            k_ = it[0]
            if k_[0] == cid:
                cur.setdefault(k_[1], {})[k_[2]] = it[1]
            else:
                rest.append(it)
        for op in _pf_compile(bv, nd.bi):
            if op[0] == "kill":
                if cur:
                    kill(cur, op[1], op[2])
                continue
            _, l, dp, val, parts = op
            got = [(pre, sub(cur, src) if src is not None else None, cb) for (pre, src, cb) in parts] if (cur or parts) else ()
            if cur:
                kill(cur, l, dp)
            d = None
            if val is not None:
                d = cur.setdefault(l, {})
                d[dp] = val
            for (pre, fs, cb) in got:
                if fs:
                    if d is None:
                        d = cur.setdefault(l, {})
                    for (p_, v_) in fs:
                        d[pre + p_] = v_
                elif cb is not None:
                    if d is None:
                        d = cur.setdefault(l, {})
                    d[pre] = cb
        bl = nd.block
        t = bl["t"]
        tk = t["k"]
        only = None
        sub_key = None
        sub_ = None
        if tk == "call":
            dp = _pf_path(t["dest"].get("p"))
            dl = t["dest"]["l"]
            if dl not in _pf_relevant(bv):
                dp = None
            cal = t.get("callee")
            got = None
            if dp is not None and cal == "std::ops::Try::branch" and t["args"]:
                src = _pf_src(t["args"][0])
                if src is not None:
                    got = sub(cur, src)
            if dp is not None:
                kill(cur, dl, dp)
                if got:
                    d = cur.setdefault(dl, {})
                    for (p_, v_) in got:
                        if not p_:
                            m = TRY_MAP.get(v_)
                            if m:
                                d[dp] = m
                        elif p_[0] in (("d", "Ok"), ("d", "Some")):
                            d[dp + (("d", "Continue"),) + p_[1:]] = v_
                elif cal == "std::ops::FromResidual::from_residual":
                    dt = bv.crate.types[t["destt"]]
                    if dt.get("d") == "std::result::Result":
                        cur.setdefault(dl, {})[dp] = "Err"
                    elif dt.get("d") == "std::option::Option":
                        cur.setdefault(dl, {})[dp] = "None"
        elif tk == "switch":
            sub_ = bv.switch_subject(nd.bi)
            if sub_ is not None:
                sp = _pf_path(sub_[0].get("p"))
                if sp is not None:
                    sub_key = (sub_[0]["l"], sp)
            else:
                o_ = t["o"]
                pl_ = o_.get("m") or o_.get("c")
                if pl_ is not None and bv.crate.types[t["ot"]]["s"] == "bool":
                    sp = _pf_path(pl_.get("p"))
                    if sp is not None:
                        sub_key = (pl_["l"], sp)
            if sub_key is not None:
                only = cur.get(sub_key[0], {}).get(sub_key[1])
        is_ret = tk == "return"
        flat = None
        for w in S.succ[v]:
            if w in cut_nodes or (v, w) in cut_edges:
                continue
            learn = None
            if sub_key is not None:
                labs = [l_[2] for l_ in S.elabel.get((v, w), []) if l_[0] == "switch" and l_[1] == nd.bi]
                names = []
                if sub_ is None:
                    # boolean subject: 0 = false, otherwise = true
                    for lab in labs:
                        if lab == "otherwise":
                            names.append("true" if any(a == 0 for a, _ in t["arms"]) else None)
                        else:
                            names.append("false" if lab == 0 else "true")
                else:
                    si = si_cache.get(v)
                    if si is None:
                        si = guards.switch_info(bv, nd.bi)
                        si_cache[v] = si
                    for lab in labs:
                        if lab == "otherwise":
                            covered = set(a for a, _ in si.arms)
                            names.extend([nm for val, nm in si.names.items() if val not in covered])
                        else:
                            names.append(si.names.get(lab, str(lab)))
                if None in names:
                    names = []
                if only is not None:
                    if names and only not in names:
                        continue
                elif len(names) == 1 and labs and sub_key[0] not in _pf_tainted(bv):
                    learn = ((cid, sub_key[0], sub_key[1]), names[0])
            wn = S.nodes[w]
            if is_ret and wn.ctx is not nd.ctx:
                # return edge: the callee's facts end; what is known of its return place is known of the caller's destination
                out = list(rest)
                how = nd.ctx.how
                if nd.ctx.parent is wn.ctx and how[0] in ("call", "poll"):
                    d = how[1]["dest"]
                    dp = _pf_path(d.get("p"))
                    if dp is not None and d["l"] in _pf_relevant(wn.ctx.bv):
                        pre = dp if how[0] == "call" else dp + (("d", "Ready"), ("f", 0))
                        pc = wn.ctx.idx
                        n_ = len(dp)
                        out = [it for it in out if not (it[0][0] == pc and it[0][1] == d["l"] and it[0][2][:n_] == dp)]
                        for (p_, v_) in sub(cur, (0, ())):
                            out.append(((pc, d["l"], pre + p_), v_))
                nf = frozenset(out)
            else:
                if flat is None:
                    flat = list(rest)
                    for l_, d in cur.items():
                        for p_, v_ in d.items():
                            flat.append(((cid, l_, p_), v_))
                out = flat
                if learn is not None:
                    out = flat + [learn]
                if tk == "call" and wn.ctx is not nd.ctx and wn.ctx.parent is nd.ctx and w == wn.ctx.entry and wn.ctx.how[0] == "call":
                    # call edge into a spliced synchronous callee: what is known of an argument is known of the parameter
                    out = list(out)
                    prel = _pf_relevant(wn.ctx.bv)
                    for i_, a_ in enumerate(t["args"]):
                        src = _pf_src(a_)
                        if src is not None and (i_ + 1) in prel:
                            for (p_, v_) in sub(cur, src):
                                out.append(((wn.ctx.idx, i_ + 1, p_), v_))
                nf = frozenset(out)
            cl = IN.get(w)
            if cl is None:
                IN[w] = [nf]
                push(w, nf)
                continue
            if any(e <= nf for e in cl):
                continue
            cl = [e for e in cl if not nf <= e]
            cl.append(nf)
            if len(cl) > PF_K:
                m = cl[0]
                for e in cl[1:]:
                    m = m & e
                cl = [m]
                push(w, m)
            else:
                push(w, nf)
            IN[w] = cl
    memo[mkey] = IN
    if want_facts:
        return IN
    return set(IN)


def path(S, starts, targets, cut_edges=(), cut_nodes=()):
    from collections import deque
    cut_edges = set(cut_edges)
    cut_nodes = set(cut_nodes)
    targets = set(targets)
    prev = {}
    q = deque()
    for s in starts:
        if s not in cut_nodes:
            prev[s] = None
            q.append(s)
    while q:
        x = q.popleft()
        if x in targets:
            out = []
            while x is not None:
                out.append(x)
                x = prev[x]
            return out[::-1]
        for y in S.succ[x]:
            if y in prev or y in cut_nodes or (x, y) in cut_edges:
                continue
            prev[y] = x
            q.append(y)
    return None


def sccs(S, nodes=None):
    """Tarjan SCCs (iterative) over the supergraph restricted to `nodes`; returns list of sets with
    size > 1 or a self loop."""
    idx = {}
    low = {}
    onst = set()
    st = []
    out = []
    counter = [0]
    allowed = set(nodes) if nodes is not None else None
    for root in (allowed if allowed is not None else range(len(S.nodes))):
        if root in idx:
            continue
        work = [(root, iter(S.succ[root]))]
        idx[root] = low[root] = counter[0]
        counter[0] += 1
        st.append(root)
        onst.add(root)
        while work:
            v, it = work[-1]
            adv = False
            for w_ in it:
                if allowed is not None and w_ not in allowed:
                    continue
                if w_ not in idx:
                    idx[w_] = low[w_] = counter[0]
                    counter[0] += 1
                    st.append(w_)
                    onst.add(w_)
                    work.append((w_, iter(S.succ[w_])))
                    adv = True
                    break
                elif w_ in onst:
                    low[v] = min(low[v], idx[w_])
            if adv:
                continue
            work.pop()
            if work:
                p = work[-1][0]
                low[p] = min(low[p], low[v])
            if low[v] == idx[v]:
                comp = set()
                while True:
                    x = st.pop()
                    onst.discard(x)
                    comp.add(x)
                    if x == v:
                        break
                if len(comp) > 1 or v in S.succ[v]:
                    out.append(comp)
    return out


_SM = {}


def get(F):
    k = id(F)
    if k not in _SM:
        _SM[k] = SM(F)
    return _SM[k]


from .core import fmt_t as core_fmt


def preconditions(sm, R, rule):
    """Shared fail-closed checks on the modelling assumptions of the event skeleton."""
    c = sm.c
    # 1. Ext traits are sealed: exactly one (blanket) impl without items, so inlining default bodies is exact
    for ext, base in EXT_TRAITS.items():
        ims = [i for i in c.impls if i.get("trait") == ext]
        ok = len(ims) == 1 and not ims[0]["items"] and c.types[ims[0]["self_t"]].get("k") == "param"
        if not ok:
            R.inconclusive(rule, "sealed:" + ext, "%s is no longer a blanket-implemented extension trait; its default bodies cannot be inlined exactly" % ext)
    # 2. environment traits keep at least the counted number of items
    for tr, floor in TRAIT_ITEM_FLOORS.items():
        t = c.traits.get(tr)
        n = len([i for i in (t or {}).get("items", []) if i["kind"] == "AssocFn"])
        R.floor(rule, "items of trait " + tr, n, floor)
    # 3. no environment symbol hides in a closure that the skeleton does not splice
    # closures handed to Option::map / and_then are spliced as may-calls (run iff the option is Some): their effects are on
    # the skeleton's paths, and lib.head_call reads the value of `opt.map(closure)` as the closure's effectful call
    modelled = set()
    for S_ in sm._supers.values():
        for cx_ in S_.ctxs:
            if cx_.how and cx_.how[0] == "closure" and lib.norm(cx_.how[1].get("callee") or "") in ("std::option::Option::<T>::map", "std::option::Option::<T>::and_then"):
                modelled.add(cx_.bv.id)
    for b in c.bodies:
        if b["kind"] != "closure" or not b["id"].startswith("omaha_client::state_machine"):
            continue
        if b["id"] in modelled:
            continue
        bv = BV.of(b)
        for bi, t in bv.calls():
            if is_logging_span(t["sp"]):
                continue
            if t.get("trait") in ENV_TRAITS or lib.callee_is(t, "yield_", "yield_all"):
                kind_ = ENV_TRAITS.get(t.get("trait"))
                owners_ = CLOSURE_EFFECT_OWNERS.get(kind_)
                if owners_ is not None and rule[:3] not in owners_:
                    continue    # this property's rules do not look at that kind of effect
                R.inconclusive(rule, "closure-with-effect:" + b["name"], "closure %s performs %s; closures are not spliced into the event skeleton" % (b["name"], t.get("callee")))
    # 4. every future that stands for an environment effect is actually polled.  The skeleton records an effect
    #    where its future is created; `let _ = storage.commit_or_log();` creates it and drops it unpolled —
    #    the effect never happens.  That is a definite defect of the code, not of the model: VIOLATION, in the
    #    properties that depend on the kind of effect lost.
    pid = rule[:3]
    for u in unused_futures(sm):
        if any(pid in FUTURE_OWNERS.get(k, ()) for k in u["env"]):
            R.violation(rule, "future-dropped-unpolled:%s:%s" % (u["fn"], u["callee"]),
                        "%s creates the future of %s (%s effects: %s) and drops it without polling it: the effect never happens" % (u["fn"], u["callee"], "/".join(sorted(u["env"])), ", ".join(sorted(u["names"]))[:120]), u["loc"])
    R.holds(rule, "effect-futures-polled", "no future standing for an environment effect is dropped unpolled")
    # 5. the request loop decides "retry or give up" on the conditions themselves, not on a boolean that merges several of
    #    them (`let should_retry = match &error { .. }; if !should_retry { break }`): the rules attribute each way out of
    #    the loop to an error variant by the edges it is taken on, which a merged flag hides
    if rule[:3] in ("C02", "C04", "C06", "C10", "C14"):
        S_ = sm.S_check
        reqs_ = sm.env(S_, "Http", "request")
        loops_ = [L_ for L_ in sccs(S_, S_.live) if any(r_ in L_ for r_ in reqs_)]
        if loops_:
            L_ = loops_[0]
            hdr_ = min((S_.nodes[v_].ctx for v_ in L_), key=lambda cx_: cx_.depth)
            hb_ = hdr_.bv
            for v_ in sorted(L_):
                nd_ = S_.nodes[v_]
                if nd_.ctx is hdr_ and nd_.term["k"] == "switch" and hb_.switch_subject(nd_.bi) is not None and any(b_ not in L_ for b_ in S_.succ[v_]):
                    # .. or on an Option/enum value computed by the arms (`let give_up: Option<Error> = match result { .. }`)
                    sub_ = hb_.switch_subject(nd_.bi)
                    if not sub_[0].get("p"):
                        tt_ = hb_.trace_place(sub_[0])
                        alts_ = tt_[1] if tt_[0] == "phi" else []
                        if len(alts_) >= 3 and all(a_[0] == "agg" and a_[1] == "adt" for a_ in alts_) and len(set(a_[2] for a_ in alts_)) >= 2:
                            R.condition("merged-retry-decision", "the request loop is left on a value that merges %d alternatives built by the arms (%s): which error ends the attempts cannot be read off the edges" % (len(alts_), nd_.loc()),
                                        ("C02-R3", "C06-R1", "C06-R2", "C06-R3", "C06-R4", "C06-R5", "C14-R1"))
                            break
                if nd_.ctx is not hdr_ or nd_.term["k"] != "switch" or hb_.switch_subject(nd_.bi) is not None or hb_.crate.types[nd_.term["ot"]]["s"] != "bool":
                    continue
                if not any(b_ not in L_ for b_ in S_.succ[v_]):
                    continue        # not a way out of the loop
                t_ = _unflip(hb_.trace_op(nd_.term["o"]))
                if t_[0] == "phi" and sum(1 for a_ in t_[1] if _unflip(a_)[0] != "const") >= 1 and len(t_[1]) >= 3:
                    R.condition("merged-retry-decision", "the request loop is left on a boolean that merges %d alternatives (%s): which error ends the attempts cannot be read off the edges" % (len(t_[1]), nd_.loc()),
                                ("C02-R3", "C06-R1", "C06-R2", "C06-R3", "C06-R4", "C06-R5", "C14-R1"))
                    break
    # 6. the long-running loop decides on values, not on a variable that merges several decisions
    #    (`let (params, reply) = match decision { .. }` ... `let Some(p) = params else { continue }`, or a select! whose
    #    arms each evaluate to "reboot allowed now?"): the gates of these properties are read off the edges of the policy's
    #    answer itself; behind a merged value the attribution is a relation between variables the path rules do not track
    COND = {"C05": ("C05-R2", "C05-R3", "C05-R5"), "C11": ("C11-R1", "C11-R2", "C11-R3", "C11-R5"), "C12": ("C12-R4",)}
    if rule[:3] in COND:
        S_ = sm.S_run
        for cx_ in S_.ctxs:
            if cx_.depth > 1 or cx_.bv.body.get("kind") != "coroutine":
                continue
            bv_ = cx_.bv
            hit_ = None
            for sb in sorted(bv_.reach0):
                tt = bv_.blocks[sb]["t"]
                if tt["k"] != "switch" or len(bv_.succ[sb]) < 2:
                    continue
                sub = bv_.switch_subject(sb)
                if sub is not None:
                    term = bv_.trace_place(sub[0]) if isinstance(sub[0], dict) else None
                    if term is not None and term[0] == "phi" and len(term[1]) >= 2 and all(a[0] == "agg" and a[1] == "adt" for a in term[1]) and len(set(a[2] for a in term[1])) >= 2 \
                            and any("update_check_allowed(" in core_fmt(a)[:1500] for a in term[1]) and any(not a[3] for a in term[1]):
                        hit_ = "%s switches on a value merged from %d constructed alternatives" % (lib.loc(bv_, sb), len(term[1]))
                else:
                    ct = _unflip(bv_.trace_op(tt["o"]))
                    if ct[0] == "phi" and len(ct[1]) >= 2 and sum(1 for a in ct[1] if "reboot_allowed" in core_fmt(_unflip(a))[:400]) >= 1 and len(ct[1]) >= 2 and not all("reboot_allowed" in core_fmt(_unflip(a))[:400] and _unflip(a)[0] != "phi" for a in ct[1][:1] * 0 + ct[1]) is False:
                        pass
                    if ct[0] == "phi" and len(ct[1]) >= 2 and any("reboot_allowed" in core_fmt(_unflip(a))[:600] for a in ct[1]):
                        hit_ = "%s tests a boolean merged from %d alternatives (policy answers computed in different arms)" % (lib.loc(bv_, sb), len(ct[1]))
                if hit_:
                    break
            if hit_:
                R.condition("merged-decision-value", hit_, COND[rule[:3]])
                break
    # 7. construction notes
    for S in sm._supers.values():
        for note in S.notes:
            R.inconclusive(rule, "skeleton-note:%s" % (note[0],), str(note))


# an effect hidden in a closure that the skeleton does not splice only matters to the properties whose rules look at
# that kind of effect (all properties, unless listed here)
CLOSURE_EFFECT_OWNERS = {
    "Cup": ("C01", "C02", "C03", "C04", "C06", "C07", "C08", "C10"),
    "CupVerifier": ("C01", "C02"),
    "Metrics": ("C02", "C06", "C10", "C18"),
    "TimeSource": ("C06", "C08", "C12", "C18", "C19"),
}
def merged_value_guard(S, x):
    """Is node x guarded by a `match`/`matches!` on a local that holds one of several *constant* enum values computed
    earlier (`let reason = match &err { A|B => Omaha, C => Internal, .. }; if matches!(reason, Omaha) { x }`)?  Which
    original case leads to x is then a relation between two variables that the path rules do not track.  Returns a
    description or None."""
    nd = S.nodes[x]
    bv = nd.ctx.bv
    for sb in sorted(bv.reach0):
        tt = bv.blocks[sb]["t"]
        if tt["k"] != "switch" or len(bv.succ[sb]) < 2:
            continue
        sub = bv.switch_subject(sb)
        if sub is None:
            # `if matches!(reason, Omaha)`: a boolean that is itself a merge of constants set in the arms of such a match
            ct = _unflip(bv.trace_op(tt["o"]))
            if ct[0] == "phi" and len(ct[1]) >= 2 and all(_unflip(a)[0] == "const" for a in ct[1]):
                for b in bv.succ[sb]:
                    if bv.dominated_by_edge(nd.bi, [(sb, b)]):
                        return "%s is decided by a boolean merged from %d constant cases (%s)" % (nd.loc(), len(ct[1]), lib.loc(bv, sb))
            # `if reason == Reason::Omaha`: equality of such a computed value with a constant
            if ct[0] == "call" and ct[1].rsplit("::", 1)[-1] in ("eq", "ne") and "PartialEq" in ct[1] and len(ct[2]) == 2:
                for a_ in ct[2]:
                    while a_[0] in ("ref", "deref"):
                        a_ = a_[1]
                    if a_[0] == "phi" and len(a_[1]) >= 2 and all(y[0] == "agg" and y[1] == "adt" and not y[3] for y in a_[1]):
                        for b in bv.succ[sb]:
                            if bv.dominated_by_edge(nd.bi, [(sb, b)]):
                                return "%s is decided by comparing a value computed earlier from %d cases with a constant (%s)" % (nd.loc(), len(a_[1]), lib.loc(bv, sb))
            continue
        term = bv.trace_place(sub[0]) if isinstance(sub[0], dict) else None
        if term is None or term[0] != "phi":
            continue
        alts_ = [a for a in term[1]]
        if len(alts_) >= 2 and all(a[0] == "agg" and a[1] == "adt" and not a[3] for a in alts_):
            for b in bv.succ[sb]:
                if bv.dominated_by_edge(nd.bi, [(sb, b)]):
                    return "%s is decided by a value computed earlier from %d cases (%s)" % (nd.loc(), len(alts_), lib.loc(bv, sb))
    return None


FUTURE_OWNERS = {
    "Storage": ("C07", "C08", "C09", "C14", "C18"),
    "Policy": ("C05", "C11", "C12"),
    "Installer": ("C05", "C10", "C13"),
    "Http": ("C02", "C06", "C10"),
    "Timer": ("C06", "C12"),
    "AppSet": ("C09",),
}
_UF = {}


def _env_summary(sm, b, memo, stack=()):
    """(set of env kinds, set of effect names) a body can perform, through local callees, closures and async bodies."""
    bid = b["id"]
    if bid in memo:
        return memo[bid]
    if bid in stack:
        return (set(), set())
    bv = BV.of(b)
    kinds, names = set(), set()
    for bi, t in bv.calls():
        if is_logging_span(t["sp"]):
            continue
        if t.get("trait") in ENV_TRAITS:
            kinds.add(ENV_TRAITS[t["trait"]])
            names.add(t.get("name"))
        cid = t.get("resolved_id") or t.get("callee_id")
        for k in (cid, (cid or "") + "::{closure#0}"):
            cb = sm.w.by_id.get(k)
            if cb is not None:
                k2, n2 = _env_summary(sm, cb, memo, stack + (bid,))
                kinds |= k2
                names |= n2
    for cb in lib.closures_of(bv.crate, bid):
        k2, n2 = _env_summary(sm, cb, memo, stack + (bid,))
        kinds |= k2
        names |= n2
    memo[bid] = (kinds, names)
    return memo[bid]


def _mentions_local(o, L):
    if isinstance(o, dict):
        if o.get("l") == L and "k" not in o:
            return True
        return any(_mentions_local(v, L) for v in o.values())
    if isinstance(o, list):
        return any(_mentions_local(v, L) for v in o)
    return False


def unused_futures(sm):
    """Calls in the state machine's crate whose result is a future that no statement or terminator ever uses."""
    k = id(sm)
    if k in _UF:
        return _UF[k]
    out = []
    memo = {}
    c = sm.c
    for b in c.bodies:
        if "::tests::" in b["id"] or b["id"].endswith("::tests"):
            continue
        bv = BV.of(b)
        for bi, t in bv.calls():
            dest = t.get("dest")
            if not dest or dest.get("p") or not isinstance(t.get("destt"), int):
                continue
            ty = c.types[t["destt"]]
            s_ = ty.get("s", "")
            if not (ty.get("k") == "coroutine" or "Future" in s_):
                continue
            L = dest["l"]
            used = False
            for bl in bv.blocks:
                if bl.get("cleanup"):
                    continue
                for st in bl["s"]:
                    if st["k"] == "assign" and _mentions_local(st["r"], L):
                        used = True
                tt = bl["t"]
                if tt["k"] == "call" and (_mentions_local(tt.get("args", []), L) or _mentions_local(tt.get("func"), L)):
                    used = True
                if tt["k"] in ("yield", "return") and L == 0:
                    used = True
            if used or L == 0:
                continue
            kinds, names = set(), set()
            if t.get("trait") in ENV_TRAITS:
                kinds.add(ENV_TRAITS[t["trait"]])
                names.add(t.get("name"))
            cid = t.get("resolved_id") or t.get("callee_id")
            for kk in (cid, (cid or "") + "::{closure#0}"):
                cb = sm.w.by_id.get(kk)
                if cb is not None:
                    k2, n2 = _env_summary(sm, cb, memo)
                    kinds |= k2
                    names |= n2
            if kinds:
                out.append({"fn": b["name"].split("::{closure")[0].split("::")[-1], "callee": t.get("name") or lib.norm(t.get("callee") or ""), "env": kinds, "names": names, "loc": lib.loc(bv, bi)})
    _UF[k] = out
    return out


def dump_skeleton(sm, S, out, limit=None):
    """Debug helper: print the event nodes with context depth."""
    for n in S.nodes:
        e = S.ev[n.idx]
        if e:
            out.write("%5d d%-2d %-50s %s  [%s]\n" % (n.idx, n.ctx.depth, str(e), n.loc(), n.ctx.bv.id.split("::", 2)[-1][:60]))


if __name__ == "__main__":
    import sys
    from . import facts
    F = facts.get()
    sm = get(F)
    print("run:", sm.run_co)
    print("check:", sm.check_co)
    S = sm.S_run if len(sys.argv) < 2 or sys.argv[1] == "run" else sm.S_check
    print("nodes", len(S.nodes), "ctxs", len(S.ctxs))
    dump_skeleton(sm, S, sys.stdout)


def _unflip(t):
    while t[0] == "unop" and t[1] == "Not":
        t = t[2]
    return t
