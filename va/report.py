"""Verdict collection, evidence files, known findings, VIOLATION / KNOWN-FINDING lines."""
import hashlib, json, os, sys, time

VERIF = os.path.dirname(os.path.dirname(os.path.abspath(__file__)))


class Inconclusive(Exception):
    pass


class Run:
    def __init__(self, pid, tier="quick", seed=0):
        self.pid = pid
        self.tier = tier
        self.seed = seed
        self.t0 = time.time()
        self.instances = []   # dicts: rule, key, verdict, detail, witness
        self.rules = {}       # rule -> description
        self.assumptions = []
        self.trusted = []
        self.analysed = {}    # free-form counters of what was analysed
        self.extra = {}
        kf = os.path.join(VERIF, "known_findings.json")
        self.known = []
        if os.path.exists(kf):
            with open(kf) as fh:
                self.known = json.load(fh).get("findings", [])

    # -- declarations
    def rule(self, rid, text):
        self.rules[rid] = text

    def assume(self, text):
        if text not in self.assumptions:
            self.assumptions.append(text)

    def trust(self, text):
        if text not in self.trusted:
            self.trusted.append(text)

    def count(self, k, n=1):
        self.analysed[k] = self.analysed.get(k, 0) + n

    # -- verdicts
    def holds(self, rule, key, detail="", nontrivial=True):
        self.instances.append({"rule": rule, "key": key, "verdict": "HOLDS", "detail": detail, "nontrivial": nontrivial})

    def violation(self, rule, key, detail, witness=None):
        self.instances.append({"rule": rule, "key": key, "verdict": "VIOLATION", "detail": detail, "witness": witness, "nontrivial": True})

    def inconclusive(self, rule, key, reason):
        self.instances.append({"rule": rule, "key": key, "verdict": "INCONCLUSIVE", "detail": reason, "nontrivial": False})

    def condition(self, name, reason, rules):
        """A modelling limitation that only some rules depend on: their VIOLATIONs are reported as INCONCLUSIVE while it
        holds (the other rules keep their verdicts)."""
        if not hasattr(self, "conditions"):
            self.conditions = {}
        old = self.conditions.get(name)
        self.conditions[name] = (reason, tuple(rules) + (old[1] if old else ()))

    def check(self, rule, key, ok, detail_ok="", detail_bad="", witness=None):
        if ok:
            self.holds(rule, key, detail_ok)
        else:
            self.violation(rule, key, detail_bad or detail_ok, witness)
        return ok

    def floor(self, rule, what, n, minimum):
        """Vacuity guard: a rule whose domain is smaller than the hand-counted floor is inconclusive."""
        if n < minimum:
            self.inconclusive(rule, "floor:" + what, "found %d %s, expected at least %d (anchor missing or renamed?)" % (n, what, minimum))
            return False
        return True

    # -- output
    def _apply_instance_floors(self):
        fp = os.path.join(VERIF, "tables", "instance_floors.json")
        if not os.path.exists(fp):
            return
        with open(fp) as fh:
            floors = json.load(fh).get(self.pid, {})
        counts = {}
        for i in self.instances:
            if i["verdict"] in ("HOLDS", "VIOLATION", "KNOWN-FINDING"):
                counts[i["rule"]] = counts.get(i["rule"], 0) + 1
        crashed = any(i["rule"] == "engine" for i in self.instances)
        for rule, mn in sorted(floors.items()):
            if counts.get(rule, 0) < mn and not crashed:
                self.inconclusive(rule, "instance-floor", "rule produced %d instances, at least %d were confirmed by hand on the pinned tree (a rule that matches nothing passes vacuously)" % (counts.get(rule, 0), mn))

    def finish(self):
        self._apply_instance_floors()
        out = sys.stdout
        # A failed modelling precondition (rule "<id>-pre") means the event skeleton no longer represents the code:
        # nothing derived from it is a verdict, in either direction.  The run is INCONCLUSIVE, not a VIOLATION.
        for cname, (creason, crules) in getattr(self, "conditions", {}).items():
            for i in self.instances:
                if i["verdict"] == "VIOLATION" and i["rule"] in crules:
                    i["verdict"] = "INCONCLUSIVE"
                    i["nontrivial"] = False
                    i["detail"] = "not decided (%s: %s): %s" % (cname, creason[:120], i["detail"])
        broken = [i for i in self.instances if i["verdict"] == "INCONCLUSIVE" and i["rule"].endswith("-pre")]
        if broken:
            for i in self.instances:
                if i["verdict"] == "VIOLATION":
                    i["verdict"] = "INCONCLUSIVE"
                    i["nontrivial"] = False
                    i["detail"] = "not decided (modelling precondition %s failed): %s" % (broken[0]["key"][:80], i["detail"])
        viol = [i for i in self.instances if i["verdict"] == "VIOLATION"]
        inc = [i for i in self.instances if i["verdict"] == "INCONCLUSIVE"]
        known_open = {(k["property"], k["key"]): k for k in self.known if k.get("state") == "open"}
        real = []
        nknown = 0
        rdir = os.path.join(os.environ.get("VERIF_EVIDENCE_DIR") or VERIF, "replay", self.pid)
        seen_keys = set()
        dedup = []
        for v in viol:
            fk = (v["rule"], v["key"])
            if fk in seen_keys:
                v["verdict"] = "DUPLICATE"
                continue
            seen_keys.add(fk)
            dedup.append(v)
        self.instances = [i for i in self.instances if i["verdict"] != "DUPLICATE"]
        viol = dedup
        for v in viol:
            fullkey = "%s:%s" % (v["rule"], v["key"])
            k = known_open.get((self.pid, fullkey))
            if k is not None:
                out.write("KNOWN-FINDING: property=%s %s (%s)\n" % (self.pid, k.get("what", v["detail"]), fullkey))
                v["verdict"] = "KNOWN-FINDING"
                nknown += 1
                continue
            real.append(v)
        if real:
            os.makedirs(rdir, exist_ok=True)
        for v in real:
            fullkey = "%s:%s" % (v["rule"], v["key"])
            h = hashlib.sha1(fullkey.encode()).hexdigest()[:12]
            path = os.path.join(rdir, "%s.json" % h)
            with open(path, "w") as fh:
                json.dump({"property": self.pid, "rule": v["rule"], "rule_text": self.rules.get(v["rule"], ""),
                           "key": v["key"], "detail": v["detail"], "witness": v.get("witness")}, fh, indent=1)
            out.write("  rule %s key %s\n    %s\n" % (v["rule"], v["key"], v["detail"]))
            if v.get("witness"):
                out.write("    witness: %s\n" % (v["witness"],))
            out.write("VIOLATION property=%s replay=%s\n" % (self.pid, path))
        for i in inc:
            out.write("INCONCLUSIVE property=%s rule=%s key=%s reason=%s\n" % (self.pid, i["rule"], i["key"], i["detail"]))
        n = len(self.instances)
        nh = sum(1 for i in self.instances if i["verdict"] == "HOLDS")
        nontriv = len({(i["rule"], i["key"]) for i in self.instances if i.get("nontrivial") and i["verdict"] in ("HOLDS", "KNOWN-FINDING")})
        samples = []
        seen_rules = set()
        for i in self.instances:
            if i["rule"] not in seen_rules or i["verdict"] != "HOLDS":
                seen_rules.add(i["rule"])
                samples.append({k: i[k] for k in ("rule", "key", "verdict", "detail") if k in i})
        samples = samples[:60]
        ev = {
            "property_id": self.pid,
            "tier": self.tier,
            "seed": self.seed,
            "level": "other",
            "coverage": {
                "explanation": "Static analysis of /repo's current source (pre-borrowck MIR of the type-checked workspace via a rustc_private driver). "
                               "Each obligation is one rule instance: a structural clause that is a necessary condition of the property, decided on every CFG path / "
                               "definition, not on executions. Rules applied: " + "; ".join("%s = %s" % kv for kv in sorted(self.rules.items())),
                "obligations": n,
                "discharged": nh,
                "evaluations": max(n, 1),
                "distinct_nontrivial": nontriv,
                "rule": "one evaluation per (rule, site) instance found in the current tree; non-trivial = the instance's domain was non-empty and its verdict used at least one CFG path, definition or table row",
                "samples": samples or [{"note": "no instance"}],
                "checker_cmd": "./check %s --tier %s" % (self.pid, self.tier),
                "trusted_base": self.trusted,
                "analysed": self.analysed,
                "instances_per_rule": {r: sum(1 for i in self.instances if i["rule"] == r and i["verdict"] in ("HOLDS", "VIOLATION", "KNOWN-FINDING")) for r in sorted(set(i["rule"] for i in self.instances))},
                "known_findings_matched": nknown,
                "inconclusive": len(inc),
                "exhaustive": True,
            },
            "assumptions": self.assumptions,
            "wall_s": round(time.time() - self.t0, 2),
            "violations": len(real),
        }
        ev["coverage"].update(self.extra)
        edir = os.environ.get("VERIF_EVIDENCE_DIR") or os.path.join(VERIF, "evidence")
        os.makedirs(edir, exist_ok=True)
        p = os.path.join(edir, "%s.json" % self.pid)
        with open(p + ".tmp", "w") as fh:
            json.dump(ev, fh, indent=1, default=str)
        os.replace(p + ".tmp", p)
        out.write("%s: %d rule instances, %d hold, %d known findings, %d violations, %d inconclusive (%.1fs)\n" % (
            self.pid, n, nh, nknown, len(real), len(inc), time.time() - self.t0))
        out.write("analysed: %s\n" % json.dumps(self.analysed, sort_keys=True))
        if real:
            return 1
        if inc:
            return 2
        return 0


class SubsetAlias:
    """Run another property's rule module as a premise: instances of the rules named in `mapping` are recorded under this
    property's rule id (key prefixed), everything else the module reports is dropped."""

    def __init__(self, R, mapping, prefix="", keys=None):
        self.R, self.mapping, self.prefix, self.keys = R, mapping, prefix, keys
        self._key = None

    def _m(self, rule):
        if self.keys is not None and self._key is not None and self._key not in self.keys:
            return None
        return self.mapping.get(rule)

    def rule(self, rule, text):
        self._key = None
        if self._m(rule):
            self.R.rule(self._m(rule), text) if self._m(rule) not in getattr(self.R, "rules", {}) else None

    def check(self, rule, key, ok, *a, **k):
        self._key = key
        if self._m(rule):
            return self.R.check(self._m(rule), self.prefix + key, ok, *a, **k)
        return bool(ok)

    def violation(self, rule, key, *a, **k):
        self._key = key
        if self._m(rule):
            return self.R.violation(self._m(rule), self.prefix + key, *a, **k)

    def holds(self, rule, key, *a, **k):
        self._key = key
        if self._m(rule):
            return self.R.holds(self._m(rule), self.prefix + key, *a, **k)

    def inconclusive(self, rule, key, *a, **k):
        self._key = key
        if self._m(rule):
            return self.R.inconclusive(self._m(rule), self.prefix + key, *a, **k)

    def floor(self, rule, what, n, minimum):
        self._key = None
        if self.keys is None and self._m(rule):
            return self.R.floor(self._m(rule), what, n, minimum)
        return n >= minimum

    def condition(self, name, reason, rules):
        return self.R.condition(name, reason, tuple(self.mapping.get(r_, r_) for r_ in rules))

    def trust(self, *a, **k):
        pass

    def assume(self, *a, **k):
        pass

    def count(self, *a, **k):
        pass

    @property
    def instances(self):
        return self.R.instances
