"""E5: tiny interval evaluator over value terms (constants, Rem/Sub/Add/Mul/Shl/min, Duration unit
constructors).  Returns (lo, hi) in the term's own unit, or None when unknown."""
from . import lib

DUR_FROM = {"from_nanos": 1, "from_micros": 1000, "from_millis": 10**6, "from_secs": 10**9}
DUR_AS = {"as_nanos": 1, "as_micros": 1000, "as_millis": 10**6, "as_secs": 10**9}


RANGES = {"u8": (0, 2**8 - 1), "u16": (0, 2**16 - 1), "u32": (0, 2**32 - 1), "u64": (0, 2**64 - 1), "u128": (0, 2**128 - 1), "usize": (0, 2**64 - 1),
          "i8": (-2**7, 2**7 - 1), "i16": (-2**15, 2**15 - 1), "i32": (-2**31, 2**31 - 1), "i64": (-2**63, 2**63 - 1), "i128": (-2**127, 2**127 - 1), "isize": (-2**63, 2**63 - 1),
          "bool": (0, 1)}


def _anon(t):
    """Term with the ids of recursion markers erased: a loop-carried value read through a temporary
    (`x = x + 1`) and read directly (`x += 1`) differ only in which local closes the cycle."""
    if isinstance(t, tuple):
        if len(t) == 2 and t[0] == "rec":
            return ("rec",)
        return tuple(_anon(x) for x in t)
    if isinstance(t, list):
        return [_anon(x) for x in t]
    return t


def ival(crate, t, env=None, depth=0):
    """env: list of (term, (lo, hi)) pairs giving intervals of opaque sub-terms (loop counters, parameters)."""
    env = env or []
    if depth > 40:
        return None
    for (et, iv) in env:
        if et == t or (et[0] == t[0] == "phi" and _anon(et) == _anon(t)):
            return iv
    k = t[0]
    if k == "const":
        v = lib.term_const(crate, t)
        if isinstance(v, int):
            return (v, v)
        return None
    if k in ("ref", "deref"):
        return ival(crate, t[1], env, depth + 1)
    if k == "cast":
        return ival(crate, t[2], env, depth + 1)
    if k == "unop" and t[1] == "Not":
        a = ival(crate, t[2], env, depth + 1)
        if a and a[0] >= 0 and a[1] <= 1:
            return (0, 1)
        return None
    if k == "field" and t[3] == 0 and t[1][0] == "binop" and t[1][1].endswith("WithOverflow"):
        return ival(crate, ("binop", t[1][1][:-len("WithOverflow")], t[1][2], t[1][3]), env, depth + 1)
    if k == "phi":
        parts = [ival(crate, p, env, depth + 1) for p in t[1]]
        if any(p is None for p in parts):
            return None
        return (min(p[0] for p in parts), max(p[1] for p in parts))
    if k == "binop":
        op = t[1]
        a = ival(crate, t[2], env, depth + 1)
        b = ival(crate, t[3], env, depth + 1)
        if op == "Rem":
            if b and b[0] == b[1] and b[0] > 0:
                if a and a[0] >= 0 and a[1] < b[0]:
                    return a
                return (0, b[0] - 1)
            return None
        if a is None or b is None:
            return None
        if op in ("Add", "AddUnchecked"):
            return (a[0] + b[0], a[1] + b[1])
        if op in ("Sub", "SubUnchecked"):
            return (a[0] - b[1], a[1] - b[0])
        if op == "Mul":
            c = [x * y for x in a for y in b]
            return (min(c), max(c))
        if op == "Shl":
            if b[0] < 0 or b[1] > 127:
                return None
            c = [x << y for x in a for y in b]
            return (min(c), max(c))
        if op == "Div":
            if b[0] <= 0:
                return None
            c = [x // y for x in a for y in b]
            return (min(c), max(c))
        return None
    if k == "call":
        name = t[1].split("::")[-1]
        if t[1].startswith("std::time::Duration::"):
            if name in DUR_FROM and t[2]:
                a = ival(crate, t[2][0], env, depth + 1)
                if a:
                    return (a[0] * DUR_FROM[name], a[1] * DUR_FROM[name])
            if name in DUR_AS and t[2]:
                a = ival(crate, t[2][0], env, depth + 1)
                if a:
                    return (a[0] // DUR_AS[name], a[1] // DUR_AS[name])
        if t[1] == "std::time::Duration::subsec_nanos":
            return (0, 999999999)
        if t[1] == "std::time::Duration::subsec_micros":
            return (0, 999999)
        if t[1] == "std::time::Duration::subsec_millis":
            return (0, 999)
        if name in ("from", "into") and t[1].split("::")[0] in ("std", "core") and len(t[2]) == 1 and "convert" in t[1]:
            return ival(crate, t[2][0], env, depth + 1)      # lossless integer widening
        if t[1] in ("std::cmp::min", "std::cmp::Ord::min") and len(t[2]) == 2:
            a = ival(crate, t[2][0], env, depth + 1)
            b = ival(crate, t[2][1], env, depth + 1)
            if a and b:
                return (min(a[0], b[0]), min(a[1], b[1]))
            if b:
                return (None, b[1]) if False else None
    return None
