"""Undo "extract helper": private functions that do not exist on the pinned tree are inlined into their callers
at fact level, before any analysis sees the program.

Most rules read one function body (dominance, provenance terms, guarded writes).  Moving a block of such a function
into a new private fn / async fn leaves the behaviour alone and the rule without its anchor.  The set of function ids of
the pinned tree is frozen in tables/known_functions.json; a local, private, non-trait function whose id is not in that
table is *new*, and every call of it (for an async fn: every await of the future it returns) is replaced by a copy of
its MIR with locals and blocks renumbered, parameters bound to the call's arguments and `return` turned into an
assignment to the call's destination.  Functions of the pinned tree are never touched, so the unchanged tree is analysed
exactly as before; a helper that is later renamed or split is treated like a new one.

What is inlined is recorded (`Crate.inlined`) and reported in the evidence."""
import copy
import json
import os
import re

VERIF = os.path.dirname(os.path.dirname(os.path.abspath(__file__)))
MAX_BLOCKS = 600


def known_ids():
    p = os.path.join(VERIF, "tables", "known_functions.json")
    if not os.path.exists(p):
        return None
    return set(_stable(i) for i in json.load(open(p))["ids"])


def _stable(fid):
    """Function id without the positional parts of its path: the ordinal of the impl block / closure it sits in changes
    when an unrelated impl is added earlier in the file, and must not make every later private method look new."""
    return re.sub(r"\{(impl|closure|constant|opaque)#\d+\}", r"{\1}", fid)


# ---------------------------------------------------------------- schema-aware rewriting of MIR JSON
class _Rw:
    def __init__(self, lmap, b0, upvars=None, p0=0):
        self.lmap = lmap          # callee local -> caller local
        self.b0 = b0
        self.upvars = upvars      # coroutine bodies: captured-variable index -> caller local
        self.p0 = p0              # offset of the callee's promoted constants in the caller's table

    def local(self, l):
        return self.lmap[l]

    def place(self, p):
        q = {k: v for k, v in p.items() if k not in ("l", "p")}
        proj = list(p.get("p", []))
        base = p["l"]
        if self.upvars is not None and base == 1:
            # (_1.k).rest / (*_1).k.rest : a captured parameter of the async fn
            i = 0
            while i < len(proj) and proj[i]["k"] == "deref":
                i += 1
            if i < len(proj) and proj[i]["k"] == "field" and proj[i]["i"] in self.upvars:
                q["l"] = self.upvars[proj[i]["i"]]
                rest = proj[i + 1:]
                if rest:
                    q["p"] = [self.proj(e) for e in rest]
                return q
        q["l"] = self.local(base)
        if proj:
            q["p"] = [self.proj(e) for e in proj]
        return q

    def proj(self, e):
        if e.get("k") == "index":
            return dict(e, l=self.local(e["l"]))
        return e

    def val(self, x):
        if isinstance(x, list):
            return [self.val(y) for y in x]
        if not isinstance(x, dict):
            return x
        if isinstance(x.get("f"), str) and "l" in x:
            return x                                  # a span
        if isinstance(x.get("l"), int) and "k" not in x:
            return self.place(x)
        if isinstance(x.get("promoted"), int) and "s" in x:
            return dict(x, promoted=x["promoted"] + self.p0)
        return {k: self.val(v) for k, v in x.items()}

    def stmt(self, s):
        if s.get("k") in ("live", "dead"):
            return dict(s, l=self.local(s["l"]))
        return self.val(s)

    def term(self, t):
        out = {}
        for k, v in t.items():
            if k in ("t", "imag", "drop") and isinstance(v, int) and t.get("k") in ("goto", "drop", "call", "assert", "yield", "falseedge", "falseunwind"):
                out[k] = v + self.b0
            elif k == "otherwise" and isinstance(v, int):
                out[k] = v + self.b0
            elif k == "arms":
                out[k] = [[a[0], a[1] + self.b0] for a in v]
            elif k == "sp":
                out[k] = v
            else:
                out[k] = self.val(v)
        return out


def _goto(t, sp=None):
    return {"sp": sp or {}, "k": "goto", "t": t}


def _assign(place, operand, sp=None):
    return {"k": "assign", "p": place, "r": {"k": "use", "o": operand}, "sp": sp or {}}


def _coroutine_of(crate, h):
    """h is the wrapper of an `async fn`: (coroutine body, {captured index: parameter local}) else None."""
    cid = h["id"] + "::{closure#0}"
    cb = crate.by_id.get(cid)
    if cb is None or cb.get("kind") != "coroutine":
        return None
    for bl in h["mir"]["blocks"]:
        for s in bl["s"]:
            if s.get("k") == "assign" and s["r"].get("k") == "agg" and s["r"].get("ak") == "coroutine" and s["r"].get("id") == cid:
                m = {}
                for i, o in enumerate(s["r"].get("ops", [])):
                    pl = o.get("m") or o.get("c")
                    if pl is None or pl.get("p") or not (1 <= pl["l"] <= h["mir"]["argc"]):
                        return None
                    m[i] = pl["l"]
                return cb, m
    return None


def _calls_new(b, new):
    for bl in b["mir"]["blocks"]:
        t = bl["t"]
        if t.get("k") == "call" and ((t.get("resolved_id") or t.get("callee_id")) in new):
            return True
    return False


def _def_of(mir, local):
    """The statement or call terminator that defines a local (first one found)."""
    for bi, bl in enumerate(mir["blocks"]):
        for s in bl["s"]:
            if s.get("k") == "assign" and s["p"]["l"] == local and not s["p"].get("p"):
                return ("stmt", bi, s)
        t = bl["t"]
        if t.get("k") == "call" and t.get("dest", {}).get("l") == local and not t["dest"].get("p"):
            return ("call", bi, t)
    return None


def _creation_of(mir, poll_t, hid):
    """Walk from the receiver of a poll back to the call of the async fn that created the future."""
    a0 = poll_t["args"][0]
    pl = a0.get("m") or a0.get("c")
    cur = pl["l"] if pl else None
    for _ in range(10):
        if cur is None:
            return None
        d = _def_of(mir, cur)
        if d is None:
            return None
        kind, bi, x = d
        if kind == "call":
            if (x.get("resolved_id") or x.get("callee_id")) == hid or x.get("callee_id") == hid:
                return bi
            nxt = None
            for a in x.get("args", []):
                p2 = a.get("m") or a.get("c")
                if p2:
                    nxt = p2["l"]
                    break
            cur = nxt
        else:
            r = x["r"]
            p2 = None
            if r.get("k") in ("ref", "rawptr", "copyderef"):
                p2 = r.get("p")
            elif r.get("k") == "use":
                p2 = r["o"].get("m") or r["o"].get("c")
            cur = p2["l"] if p2 else None
    return None


def _inline_sync(c, c_mir, bi, h):
    hm = h["mir"]
    p0 = len(c.setdefault("promoted", []))
    c["promoted"].extend(h.get("promoted", []))
    t = c_mir["blocks"][bi]["t"]
    l0 = len(c_mir["locals"])
    b0 = len(c_mir["blocks"])
    c_mir["locals"].extend(copy.deepcopy(hm["locals"]))
    rw = _Rw({i: l0 + i for i in range(len(hm["locals"]))}, b0, p0=p0)
    tgt = t.get("t")
    for hb in hm["blocks"]:
        nb = {"s": [rw.stmt(s) for s in hb["s"]]}
        if hb.get("cleanup"):
            nb["cleanup"] = True
        ht = hb["t"]
        if ht.get("k") == "return":
            nb["s"].append(_assign(t["dest"], {"m": {"l": l0}}, ht.get("sp")))
            nb["t"] = _goto(tgt, ht.get("sp")) if tgt is not None else {"sp": ht.get("sp", {}), "k": "unreachable"}
        else:
            nb["t"] = rw.term(ht)
        c_mir["blocks"].append(nb)
    blk = c_mir["blocks"][bi]
    for j, a in enumerate(t.get("args", [])):
        if j + 1 <= hm["argc"]:
            blk["s"].append(_assign({"l": l0 + j + 1}, a, t.get("sp")))
    blk["t"] = _goto(b0, t.get("sp"))


def _inline_async(c, c_mir, h, cb, upmap):
    """Replace every `h(args).await` in c_mir: arguments are bound where the future is created, the coroutine body runs
    where it is polled, its result is delivered as Poll::Ready."""
    hid, cid = h["id"], cb["id"]
    cm = cb["mir"]
    done = 0
    polls = [bi for bi, bl in enumerate(c_mir["blocks"]) if bl["t"].get("k") == "call" and bl["t"].get("resolved_id") == cid]
    for pbi in polls:
        pt = c_mir["blocks"][pbi]["t"]
        cbi = _creation_of(c_mir, pt, hid)
        if cbi is None or pt.get("dest", {}).get("p"):
            continue
        ct = c_mir["blocks"][cbi]["t"]
        if ct.get("k") != "call":
            continue            # already rewritten for another poll of the same future
        # 1. bind the arguments at the creation site
        l_args = len(c_mir["locals"])
        hm = h["mir"]
        argl = {}
        for j in range(1, hm["argc"] + 1):
            c_mir["locals"].append(copy.deepcopy(hm["locals"][j]))
            argl[j] = l_args + j - 1
        cblk = c_mir["blocks"][cbi]
        for j, a in enumerate(ct.get("args", [])):
            if j + 1 in argl:
                cblk["s"].append(_assign({"l": argl[j + 1]}, a, ct.get("sp")))
        cblk["t"] = _goto(ct["t"], ct.get("sp")) if ct.get("t") is not None else {"sp": ct.get("sp", {}), "k": "unreachable"}
        # 2. the coroutine body at the poll site
        l0 = len(c_mir["locals"])
        b0 = len(c_mir["blocks"])
        c_mir["locals"].extend(copy.deepcopy(cm["locals"]))
        lmap = {i: l0 + i for i in range(len(cm["locals"]))}
        if c.get("kind") == "coroutine" and len(cm["locals"]) > 2:
            lmap[2] = 2          # the resume argument (task context) is the caller's own
        p0 = len(c.setdefault("promoted", []))
        c["promoted"].extend(cb.get("promoted", []))
        rw = _Rw(lmap, b0, upvars={k: argl[p] for k, p in upmap.items() if p in argl}, p0=p0)
        rdest = pt["dest"]
        # where the caller goes once the future is ready: skip the Pending arm of the `match poll(..)`
        after = pt.get("t")
        ready_blk = None
        if after is not None:
            ab = c_mir["blocks"][after]
            at = ab["t"]
            if at.get("k") == "switch" and any(s.get("k") == "assign" and s["r"].get("k") == "discr" and s["r"]["p"].get("l") == rdest["l"] for s in ab["s"]):
                zero = [a[1] for a in at.get("arms", []) if a[0] == 0]
                if zero:
                    ready_blk = {"s": copy.deepcopy(ab["s"]), "t": _goto(zero[0], at.get("sp"))}
        nblocks = []
        for hb in cm["blocks"]:
            nb = {"s": [rw.stmt(s) for s in hb["s"]]}
            if hb.get("cleanup"):
                nb["cleanup"] = True
            ht = hb["t"]
            if ht.get("k") == "return":
                nb["s"].append({"k": "assign", "p": rdest, "sp": ht.get("sp", {}),
                                "r": {"k": "agg", "ak": "adt", "d": "std::task::Poll", "v": 0, "vn": "Ready", "fn": ["0"], "ops": [{"m": {"l": l0}}]}})
                nb["t"] = "RET"
            else:
                nb["t"] = rw.term(ht)
            nblocks.append(nb)
        c_mir["blocks"].extend(nblocks)
        ret_to = after
        if ready_blk is not None:
            c_mir["blocks"].append(ready_blk)
            ret_to = len(c_mir["blocks"]) - 1
        for nb in nblocks:
            if nb["t"] == "RET":
                nb["t"] = _goto(ret_to) if ret_to is not None else {"sp": {}, "k": "unreachable"}
        c_mir["blocks"][pbi]["t"] = _goto(b0, pt.get("sp"))
        done += 1
    return done


def _undo_renames(crate, known, new, log):
    """A private function that is new while exactly one known private function of the same module (impl ordinals aside) has
    disappeared is that function under a new name: it is not a helper to inline.  The rules find their anchors by item name,
    so the body and the calls to it get the old name back (`renamed` records the mapping for the evidence)."""
    if not crate.bodies:
        return
    prefix = crate.bodies[0]["id"].split("::")[0] + "::"
    present = set(_stable(b["id"]) for b in crate.bodies if b.get("kind") == "fn")
    missing = [k for k in known if k.startswith(prefix) and k not in present and "::tests" not in k and "::test_" not in k]
    by_parent = {}
    for k in missing:
        by_parent.setdefault(k.rsplit("::", 1)[0], []).append(k)
    new_by_parent = {}
    for nid in new:
        new_by_parent.setdefault(_stable(nid).rsplit("::", 1)[0], []).append(nid)
    crate.renamed = getattr(crate, "renamed", [])
    for par, nids in new_by_parent.items():
        olds = by_parent.get(par, [])
        if len(nids) != 1 or len(olds) != 1:
            continue
        nid, old = nids[0], olds[0]
        old_last = old.rsplit("::", 1)[1]
        b = new.pop(nid)
        new_last = b.get("item") or nid.rsplit("::", 1)[1]
        b["item"] = old_last
        if b.get("name", "").endswith("::" + new_last):
            b["name"] = b["name"][: -len(new_last)] + old_last
        for c in crate.bodies:
            if c.get("name") and ("::" + new_last + "::") in c["name"] and c.get("parent", "").startswith(nid):
                c["name"] = c["name"].replace("::" + new_last + "::", "::" + old_last + "::")
            for bl in c["mir"]["blocks"]:
                t = bl["t"]
                if t.get("k") == "call" and (t.get("callee_id") == nid or t.get("resolved_id") == nid):
                    if t.get("name") == new_last:
                        t["name"] = old_last
                    for fld in ("callee", "resolved"):
                        if isinstance(t.get(fld), str) and t[fld].endswith("::" + new_last):
                            t[fld] = t[fld][: -len(new_last)] + old_last
        # .. and where the function is mentioned as a value (`.map(parse_etag)`): constants and function-item types
        pat = re.compile(r"::" + re.escape(new_last) + r"(?![A-Za-z0-9_])")

        def _fix(x):
            if isinstance(x, dict):
                if (x.get("def") == nid or x.get("d") == nid) or (isinstance(x.get("s"), str) and ("::" + new_last) in x["s"] and ("def" in x or "promoted" not in x)):
                    for fld in ("s", "d", "def"):
                        if isinstance(x.get(fld), str) and fld != "def":
                            x[fld] = pat.sub("::" + old_last, x[fld])
                for v in x.values():
                    if isinstance(v, (dict, list)):
                        _fix(v)
            elif isinstance(x, list):
                for v in x:
                    if isinstance(v, (dict, list)):
                        _fix(v)
        for c in crate.bodies:
            _fix(c["mir"])
            for pm in c.get("promoted", []) or []:
                _fix(pm)
        for ty in (crate.types.values() if isinstance(crate.types, dict) else crate.types):
            if isinstance(ty, dict):
                for fld in ("s", "d"):
                    if isinstance(ty.get(fld), str) and ("::" + new_last) in ty[fld]:
                        ty[fld] = pat.sub("::" + old_last, ty[fld])
        crate.renamed.append((nid, old))
        log.append((nid, old, "renamed"))


def desugar_option_tests(crate):
    """`opt.is_some_and(|x| p(x))` / `opt.is_none_or(|x| p(x))` with a closure literal are rewritten, at fact level, into what
    they abbreviate: a test of the discriminant, the constant for the empty case, and the closure body on the payload.  The
    rules then see the `if let Some(x) = opt { p(x) } else { false }` they already read.  Returns the number of sites."""
    n = 0
    isize_ty = None
    for b in crate.bodies:
        for bl in b["mir"]["blocks"]:
            if bl["t"].get("k") == "switch" and any(s_.get("k") == "assign" and s_["r"].get("k") == "discr" for s_ in bl["s"]):
                isize_ty = bl["t"].get("ot")
                break
        if isize_ty is not None:
            break
    if isize_ty is None:
        return 0
    for c in crate.bodies:
        if "::tests::" in c["id"] or c["id"].endswith("::tests") or "::test_" in c["id"]:
            continue
        mir = c["mir"]
        for bi in range(len(mir["blocks"])):
            bl = mir["blocks"][bi]
            t = bl["t"]
            if t.get("k") != "call" or bl.get("cleanup") or len(t.get("args", [])) != 2 or t.get("t") is None or t.get("dest", {}).get("p"):
                continue
            cal = t.get("callee") or ""
            if cal not in ("std::option::Option::<T>::is_some_and", "std::option::Option::<T>::is_none_or"):
                continue
            opt = t["args"][0].get("m") or t["args"][0].get("c")
            clo = t["args"][1].get("m") or t["args"][1].get("c")
            if opt is None or clo is None or opt.get("p") or clo.get("p"):
                continue
            # the closure literal behind the second argument
            hid = None
            for bl2 in mir["blocks"]:
                for s_ in bl2["s"]:
                    if s_.get("k") == "assign" and s_["p"].get("l") == clo["l"] and not s_["p"].get("p") and s_["r"].get("k") == "agg" and s_["r"].get("ak") == "closure":
                        hid = s_["r"].get("id")
            h = crate.by_id.get(hid) if hid else None
            if h is None or h["mir"].get("argc") != 2 or len(h["mir"]["blocks"]) > MAX_BLOCKS:
                continue
            sp = t.get("sp", {})
            bool_ty = mir["locals"][t["dest"]["l"]]["t"]
            pay_ty = h["mir"]["locals"][2]["t"]
            opt_ty = mir["locals"][opt["l"]]["t"]
            dl = len(mir["locals"])
            mir["locals"].append({"t": isize_ty})
            empty_val = cal.endswith("is_none_or")
            b_none, b_some, b_unr = len(mir["blocks"]), len(mir["blocks"]) + 1, len(mir["blocks"]) + 2
            mir["blocks"].append({"s": [_assign(t["dest"], {"k": {"t": bool_ty, "s": "true" if empty_val else "false", "v": 1 if empty_val else 0}}, sp)], "t": _goto(t["t"], sp)})
            payload = {"l": opt["l"], "p": [{"k": "downcast", "v": 1, "n": "Some"}, {"k": "field", "i": 0, "t": pay_ty, "n": "0"}], "t": pay_ty}
            mir["blocks"].append({"s": [], "t": {"sp": sp, "k": "call", "callee": h.get("name", hid), "callee_id": hid, "resolved_id": hid, "name": "call_once",
                                                 "args": [t["args"][1], {"m": payload}], "argt": [], "substs": [], "dest": t["dest"], "destt": t.get("destt"), "t": t["t"]}})
            mir["blocks"].append({"s": [], "t": {"sp": sp, "k": "unreachable"}})
            bl["s"].append({"k": "assign", "p": {"l": dl}, "r": {"k": "discr", "p": {"l": opt["l"]}, "t": opt_ty}, "sp": sp})
            bl["t"] = {"sp": sp, "k": "switch", "o": {"m": {"l": dl}}, "ot": isize_ty, "arms": [[0, b_none], [1, b_some]], "otherwise": b_unr}
            _inline_sync(c, mir, b_some, h)
            n += 1
    return n


def apply(crate):
    """Inline new private helpers into their callers.  Returns [(helper id, caller id, how)]."""
    known = known_ids()
    log = []
    if known is None:
        return log
    new = {}
    for b in crate.bodies:
        if b.get("kind") != "fn" or _stable(b["id"]) in known or b.get("pub") or b.get("impl_trait") or b.get("trait_default"):
            continue
        if "::tests::" in b["id"] or b["id"].endswith("::tests") or "::test_" in b["id"]:
            continue
        new[b["id"]] = b
    if new:
        _undo_renames(crate, known, new, log)
    if not new:
        return log
    for _round in range(5):
        # leaf helpers first: a helper that itself calls a new helper waits for the next round
        leaves = {hid: h for hid, h in new.items() if not _calls_new(h, new) and not (_coroutine_of(crate, h) and _calls_new(_coroutine_of(crate, h)[0], new))}
        if not leaves:
            break
        any_change = False
        for c in crate.bodies:
            if c["id"] in leaves or c["id"] in {hid + "::{closure#0}" for hid in leaves}:
                continue
            if (c.get("impl_trait") or "").rsplit("::", 1)[-1] in ("Serialize", "Deserialize", "Visitor", "DeserializeSeed"):
                continue    # serde impls are read structurally by va/schema.py, which classifies a named skip/default predicate by its own body
            mir = c["mir"]
            if len(mir["blocks"]) > 4000:
                continue
            for hid, h in leaves.items():
                co = _coroutine_of(crate, h)
                if co is not None:
                    if len(co[0]["mir"]["blocks"]) > MAX_BLOCKS:
                        continue
                    n = _inline_async(c, mir, h, co[0], co[1])
                    if n:
                        log.append((hid, c["id"], "async x%d" % n))
                        any_change = True
                        for cl in crate.bodies:
                            if cl.get("parent") == co[0]["id"]:
                                cl["parent"] = c["id"]
                else:
                    if len(h["mir"]["blocks"]) > MAX_BLOCKS:
                        continue
                    sites = [bi for bi, bl in enumerate(mir["blocks"]) if bl["t"].get("k") == "call" and (bl["t"].get("resolved_id") or bl["t"].get("callee_id")) == hid and not bl.get("cleanup")]
                    for bi in sites:
                        _inline_sync(c, mir, bi, h)
                    if sites:
                        log.append((hid, c["id"], "sync x%d" % len(sites)))
                        any_change = True
                        for cl in crate.bodies:
                            if cl.get("parent") == hid:
                                cl["parent"] = c["id"]
        for hid in leaves:
            new.pop(hid, None)
        if not any_change and not new:
            break
    # a helper all of whose uses were inlined is gone from the program the rules see
    gone = set()
    for hid in sorted(set(x[0] for x in log)):
        cid = hid + "::{closure#0}"
        still = False
        for b in crate.bodies:
            if b["id"] in (hid, cid):
                continue
            for bl in b["mir"]["blocks"]:
                t = bl["t"]
                if t.get("k") == "call" and (t.get("callee_id") == hid or t.get("resolved_id") in (hid, cid)):
                    still = True
        if not still:
            gone.add(hid)
            if (crate.by_id.get(cid) or {}).get("kind") == "coroutine":
                gone.add(cid)      # the coroutine of an async helper; a real closure of a sync helper lives on in its new parent
    if gone:
        crate.bodies[:] = [b for b in crate.bodies if b["id"] not in gone]
        for g in gone:
            crate.by_id.pop(g, None)
    return log
