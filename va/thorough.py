"""Thorough tier: quick tier + (a) type-level witnesses (compile_fail doctests with compiling twins),
(b) the seeded-variant campaign for the property (each variant applied to a scratch copy of the current
tree must be reported; outcome recorded in the evidence, never in the exit status), (c) clippy
cross-reference for the census properties."""
import glob, json, os, re, shutil, subprocess, sys
from . import facts

WITNESS = {"C11": ["C11HandleOpaque", "C11RequestPrivate"], "C13": ["C13YieldUnforgeable", "C13YieldNotClone"], "C15": ["C15BuildBorrows"]}
CLIPPY = {"C01", "C14", "C16", "C17", "C19", "C20"}


def run(pid, F, R, mod):
    if hasattr(mod, "thorough"):
        mod.thorough(F, R)
    if pid in WITNESS:
        witnesses(pid, R)
    campaign(pid, R)
    if pid in CLIPPY:
        clippy(pid, R)


def witnesses(pid, R):
    R.rule(pid + "-W", "type-level witnesses: each compile_fail,E0xxx doctest fails to build with exactly that error and its twin builds")
    wd = os.path.join(facts.VERIF, "witness")
    lock = os.path.join(facts.REPO, "Cargo.lock")
    if os.path.exists(lock):
        shutil.copy(lock, os.path.join(wd, "Cargo.lock"))
    # the witness crate path-depends on /repo; for a scratch copy point it there
    env = dict(os.environ, CARGO_TARGET_DIR=os.path.join(facts.VERIF, ".build", "witness"), CARGO_NET_OFFLINE="true")
    cargo_toml = open(os.path.join(wd, "Cargo.toml")).read()
    tmp = None
    cwd = wd
    if facts.REPO != "/repo":
        import tempfile
        tmp = tempfile.mkdtemp(prefix="verif-witness-", dir="/var/tmp")
        shutil.copytree(wd, os.path.join(tmp, "w"), ignore=shutil.ignore_patterns("target"))
        cwd = os.path.join(tmp, "w")
        open(os.path.join(cwd, "Cargo.toml"), "w").write(cargo_toml.replace("/repo/omaha-client", os.path.join(facts.REPO, "omaha-client")))
    try:
        r = subprocess.run(["cargo", "+nightly", "test", "--doc", "--offline"] + ["--"] + WITNESS[pid], cwd=cwd, env=env, stdout=subprocess.PIPE, stderr=subprocess.STDOUT, text=True)
    finally:
        if tmp:
            shutil.rmtree(tmp, ignore_errors=True)
    res = re.findall(r"^test src/lib\.rs - (\w+) \(line (\d+)\)( - compile fail)? \.\.\. (\w+)", r.stdout, re.M)
    if not res:
        R.inconclusive(pid + "-W", "doctests", "witness doctests did not run: " + r.stdout[-300:])
        return
    for name, line, cf, verdict in res:
        kind = "compile_fail" if cf else "twin"
        key = "%s:%s" % (name, kind) + (":" + line if sum(1 for x in res if x[0] == name and bool(x[2]) == bool(cf)) > 1 else "")
        R.check(pid + "-W", key, verdict == "ok", "%s witness behaves as stated" % kind, "%s witness %s (line %s) no longer behaves as stated: %s" % (kind, name, line, verdict))


def campaign(pid, R):
    pats = sorted(glob.glob(os.path.join(facts.VERIF, "mutants", pid, "*.patch")))
    for p in sorted(glob.glob(os.path.join(facts.VERIF, "seeded", "*", "patch.diff"))):
        meta = os.path.join(os.path.dirname(p), "meta.json")
        if os.path.exists(meta) and json.load(open(meta)).get("property") == pid:
            pats.append(p)
    if not pats or os.environ.get("VERIF_NO_CAMPAIGN"):
        return
    r = subprocess.run([sys.executable, os.path.join(facts.VERIF, "tools", "run_mutants.py"), pid, "--jobs=8"], cwd=facts.VERIF, stdout=subprocess.PIPE, stderr=subprocess.STDOUT, text=True,
                       env=dict(os.environ, VERIF_NO_CAMPAIGN="1", VERIF_NO_RESULTS="1", VERIF_REPO="/repo"))
    rows = [l for l in r.stdout.splitlines() if " %s " % pid in l or "PATCH-FAILED" in l]
    det = sum(1 for l in rows if " DETECTED" in l)
    R.extra["seeded_variants_applied"] = len([l for l in rows if "PATCH-FAILED" not in l])
    R.extra["seeded_variants_detected"] = det
    R.extra["seeded_variants"] = rows


def clippy(pid, R):
    """Cross-reference only: counts of generic panic-related lints; never a verdict."""
    import tempfile
    t = tempfile.mkdtemp(prefix="verif-clippy-", dir="/var/tmp")
    try:
        env = dict(os.environ, CARGO_TARGET_DIR=t, CARGO_NET_OFFLINE="true")
        r = subprocess.run(["cargo", "+nightly", "clippy", "--offline", "--workspace", "--", "-W", "clippy::arithmetic_side_effects", "-W", "clippy::unwrap_used", "-W", "clippy::expect_used",
                            "-W", "clippy::indexing_slicing", "-W", "clippy::panic"], cwd=facts.REPO, env=env, stdout=subprocess.PIPE, stderr=subprocess.STDOUT, text=True)
        counts = {}
        for m in re.findall(r"= note: `-W (clippy::[\w_]+)`|warning: .*\n\s+--> (\S+?):\d+", r.stdout):
            pass
        for lint in ("arithmetic_side_effects", "unwrap_used", "expect_used", "indexing_slicing", "panic"):
            counts[lint] = len(re.findall(r"clippy::%s" % lint, r.stdout))
        R.extra["clippy_cross_reference"] = counts
    finally:
        shutil.rmtree(t, ignore_errors=True)
