"""C18 — Update-attempt bookkeeping spans attempts and reboots."""
from ..core import BV, strip, walk, fmt_t
from .. import lib, guards, sm as smod, terms, keys, census
from ..sm import reach, path, reach_in, reach_pf
from .c04 import cond_desc

RAU = "state_machine::RebootAfterUpdate"
K = {"plan": "install_plan_id", "first": "update_first_seen_time", "finish": "update_finish_time", "target": "target_version", "attempts": "consecutive_failed_install_attempts"}


def _stored_plus_one(v):
    """stored + 1 in any spelling, where stored = get_int(consecutive_failed_install_attempts).unwrap_or(0)"""
    v = v.strip()
    if v.startswith("cast<IntToInt>(") and v.endswith(")"):
        v = v[len("cast<IntToInt>("):-1]
    # `stored.map_or(1, |n| n + 1)`: the absent case spelt as the constant 0 + 1
    import re
    m = re.fullmatch(r"map_or\((poll\(get_int\(.*@Ready\.0), 1, \|\$1\| (.*)\)", v)
    if m and terms.plus_one_base(m.group(2)) == "$1":
        v = "saturating_add(unwrap_or(%s, 0), 1)" % m.group(1)
    x = terms.plus_one_base(v)
    return x is not None and x.startswith("unwrap_or(poll(get_int(") and x.endswith("@Ready.0, 0)") and "'consecutive_failed_install_attempts'" in x and x.count("get_int(") == 1


def _transition(rows):
    """rows: [(elem cond or None, state cond or None, value)] with elem in {'IPE','Updated','other'}, state in {'None','!None'},
    value in {'Some{0}','Some{1}','same'}  ->  {(state, elem): set(values)} over the 3x3 domain."""
    out = {}
    for st in ("None", "Some{0}", "Some{1}"):
        for el in ("IPE", "Updated", "other"):
            vals = set()
            for (ec, sc, v) in rows:
                if ec is not None and ec != el:
                    continue
                if sc is not None and ((sc == "None") != (st == "None")):
                    continue
                vals.add(st if v == "same" else v)
            out[(st, el)] = vals
    return out


EXPECTED_T = {(st, el): {"Some{0}" if el == "IPE" else (("Some{1}" if st == "None" else st) if el == "Updated" else st)}
              for st in ("None", "Some{0}", "Some{1}") for el in ("IPE", "Updated", "other")}


def _summary_loop_table(R, sm, rb):
    c = sm.c
    W = sm.w
    # first-match spellings: find_map(|app| ..) keeps the first decisive element — as a transition: (None, e) -> f(e), (Some x, e) -> Some x
    fm = [(bi, t) for bi, t in rb.calls() if lib.callee_is(t, "std::iter::Iterator::find_map") and "Option<bool>" in c.types[t["destt"]]["s"]]
    if len(fm) == 1:
        clo = [x for x in walk(rb.trace_op(fm[0][1]["args"][1])) if x[0] == "agg" and x[1] == "closure"]
        if clo:
            cb = W.bv(clo[0][2])
            rows = []
            for conds, d in cb.decision_paths(0, 0):
                ec = None
                for k_ in cond_desc(cb, conds):
                    subj, nm = k_.rsplit("=", 1)
                    if subj.endswith(".result"):
                        ec = {"InstallPlanExecutionError": "IPE", "Updated": "Updated"}.get(nm, "other")
                val = terms.render(cb, cb._trace_rv(cb.blocks[d[0]]["s"][d[1]]["r"], None, 0), W, {}) if d is not None and d[1] is not None else "?"
                rows.append((ec, "None", {"None{}": "same"}.get(val, val)))
            rows.append((None, "!None", "same"))
            T = _transition(rows)
            diff = sorted("%s,%s -> %s (expected %s)" % (k[0], k[1], sorted(v), sorted(EXPECTED_T[k])) for k, v in T.items() if v != EXPECTED_T[k])
            R.check("C18-R2", "fold-table", not diff, "first-match summary equals the property's table", "the per-app install summary (find_map: the first decisive app wins) differs from the property's table: %s" % diff[:4], lib.loc(rb, fm[0][0]))
            return
    cands = []
    for l, ds in rb.defs.items():
        if rb.lty(l)["s"] != "std::option::Option<bool>" or not rb.locals[l].get("u"):
            continue
        loops = [L_ for L_ in rb.sccs() if any(d[0] in L_ for d in ds)]
        if loops:
            cands.append((l, ds, loops[0]))
    if len(cands) != 1:
        R.inconclusive("C18-R2", "fold-table", "the per-app install summary is computed neither by Iterator::fold nor by one loop over an Option<bool> (%d candidates)" % len(cands))
        return
    l, ds, L_ = cands[0]
    init = [terms.render(rb, rb._trace_rv(d[3], None, 0), W, {}) for d in ds if d[0] not in L_ and d[2] == "rv"]
    heads = [b for b in L_ if any(p_ not in L_ for p_ in rb.pred[b])]
    nexts = [terms.render(rb, rb.trace_op(t["args"][0]), W, {}) for bi, t in rb.calls() if bi in L_ and lib.callee_is(t, "std::iter::Iterator::next")]
    R.check("C18-R2", "fold-source", init == ["None{}"] and len(heads) == 1 and len(nexts) == 1 and "app_responses" in nexts[0] and not any(w in nexts[0] for w in ("filter", "skip", "take", "rev(")),
            "loop over result.app_responses starting from None", "the summary loop starts from %s over %s" % (init, [n_[-80:] for n_ in nexts]))
    if len(heads) != 1:
        return
    rows = []
    bad = []
    for conds, d in rb.decision_paths(heads[0], l, stop=set(heads), within=set(L_)):
        ec = sc = None
        for (cb_, labs) in conds:
            si = guards.switch_info(rb, cb_)
            if si is None:
                bad.append("unreadable switch")
                continue
            names = []
            for lb in labs:
                if si.kind == "bool":
                    names.append("false" if lb == 0 else "true")
                elif lb == "otherwise":
                    cov = set(a for a, _ in si.arms)
                    names.append("!" + "|".join(si.names.get(v, str(v)) for v in sorted(cov)))
                else:
                    names.append(si.names.get(lb, str(lb)))
            subj = lib.apath(rb.trace_place(si.place)) if si.kind == "discr" else lib.apath(si.term)
            nm = "|".join(names)
            if si.kind == "discr" and not subj.endswith(".result") and (lib.head_call(si.term) or "").endswith("Iterator::next"):
                continue
            if si.kind == "discr" and subj.endswith(".result"):
                ec = {"InstallPlanExecutionError": "IPE", "Updated": "Updated"}.get(nm, "other" if nm.startswith("!") else "?")
                if ec == "?":
                    # an arm for another Action variant: same as `other` for this table
                    ec = "other"
            elif si.kind == "discr" and not si.place.get("p") and si.place["l"] == l:
                sc = "None" if nm == "None" else "!None"
            elif si.kind == "bool" and si.term[0] == "call" and lib.norm(si.term[1]).split("::")[-1] in ("is_none", "is_some"):
                isn = lib.norm(si.term[1]).endswith("is_none")
                sc = "None" if (nm == "true") == isn else "!None"
            else:
                bad.append("%s=%s" % (subj[:40], nm))
        val = "same"
        if d is not None and d[1] is not None:
            val = terms.render(rb, rb._trace_rv(rb.blocks[d[0]]["s"][d[1]]["r"], None, 0), W, {})
        elif d is not None:
            val = "call"
        rows.append((ec, sc, val))
    if bad:
        R.inconclusive("C18-R2", "fold-table", "the summary loop branches on conditions this rule does not know: %s" % sorted(set(bad))[:3])
        return
    T = _transition(rows)
    diff = sorted("%s,%s -> %s (expected %s)" % (k[0], k[1], sorted(v), sorted(EXPECTED_T[k])) for k, v in T.items() if v != EXPECTED_T[k])
    R.check("C18-R2", "fold-table", not diff, "summary loop: any failure -> Some(false); else first update -> Some(true); else unchanged (%d paths)" % len(rows),
            "the per-app install summary differs from the property's table: %s" % diff[:4])


def _bool_sites(bv, c, l, want, depth=0):
    """Blocks at which the boolean local `l` receives the constant `want`, looking through copies and negations of
    other boolean locals (`flag = !tmp`, with tmp set to constants in the arms of a match): where the flag becomes true/false.
    None when some definition is not of that kind (computed value)."""
    if depth > 4:
        return None
    out = []
    for (bi, si, kind, x) in bv.defs.get(l, []):
        if bi not in bv.reach0:
            continue
        if kind != "rv":
            return None
        v = lib.term_const(c, bv._trace_rv(x, None, 0)) if x["k"] in ("use",) and "k" in x.get("o", {}) else None
        if v in (0, 1):
            if bool(v) == want:
                out.append(bi)
            continue
        src = None
        neg = False
        if x["k"] == "use":
            src = x["o"].get("m") or x["o"].get("c")
        elif x["k"] == "unop" and x.get("op") == "Not":
            src = x["o"].get("m") or x["o"].get("c")
            neg = True
        if src is None or src.get("p"):
            return None
        sub = _bool_sites(bv, c, src["l"], (not want) if neg else want, depth + 1)
        if sub is None:
            return None
        out += sub
    return out


def _flag_sites(bv, c, l, want, depth=0, W=None):
    """Like _bool_sites, but a computed definition counts too: [(block, term or None)] — the blocks at which the boolean
    local `l` may receive `want`; term is the computed value (None for a constant).  None when a definition is negated
    computation or otherwise unreadable."""
    from .. import optnorm
    if depth > 4:
        return None
    out = []
    for (bi, si, kind, x) in bv.defs.get(l, []):
        if bi not in bv.reach0:
            continue
        if kind == "call":
            # the value of a call: readable only if it is a comparison / presence test / their combinators
            t = bv._trace_call(bi, x, frozenset(), 0)
            if not _readable_cond(t):
                return None
            out.append((bv, bi, t))
            continue
        if kind != "rv":
            return None
        v = lib.term_const(c, bv._trace_rv(x, None, 0)) if x["k"] in ("use",) and "k" in x.get("o", {}) else None
        if v in (0, 1):
            if bool(v) == want:
                out.append((bv, bi, None))
            continue
        src = None
        neg = False
        if x["k"] == "use":
            src = x["o"].get("m") or x["o"].get("c")
        elif x["k"] == "unop" and x.get("op") == "Not":
            src = x["o"].get("m") or x["o"].get("c")
            neg = True
        if src is not None and not src.get("p") and bv.crate.types[bv.locals[src["l"]]["t"]]["s"] == "bool" and bv.defs.get(src["l"]):
            sub = _flag_sites(bv, c, src["l"], (not want) if neg else want, depth + 1, W)
            if sub is None:
                return None
            out += sub
            continue
        if src is not None and src.get("p") and not neg and _follow_fields(bv, src) is not None:
            # a field of a field (.. of an inlined helper's returned tuple, delivered as Poll::Ready(tuple)): follow the
            # aggregates that built it, alternative by alternative
            ends = _follow_fields(bv, src)
            if ends is not None:
                okf = True
                for (kind_, val_, bi_) in ends:
                    if kind_ == "const":
                        if val_ in (0, 1):
                            if bool(val_) == want:
                                out.append((bv, bi_, None))
                        else:
                            okf = False
                    else:
                        sub = _flag_sites(bv, c, val_, want, depth + 1, W)
                        if sub is None:
                            okf = False
                        else:
                            out += sub
                if okf:
                    continue
                return None
        if src is not None and src.get("p") and len(src["p"]) == 1 and src["p"][0].get("k") == "field" and not neg:
            # `let (a, flag) = (x, cond);`: the flag is a field of a tuple built once — read the operand it was built from
            tds = [d for d in bv.defs.get(src["l"], []) if d[0] in bv.reach0]
            if len(tds) == 1 and tds[0][2] == "rv" and tds[0][3]["k"] == "agg" and tds[0][3].get("ak") == "tuple":
                op_ = tds[0][3]["ops"][src["p"][0]["i"]]
                pl_ = op_.get("m") or op_.get("c")
                if pl_ is not None and not pl_.get("p") and bv.defs.get(pl_["l"]) and bv.crate.types[bv.locals[pl_["l"]]["t"]]["s"] == "bool":
                    sub = _flag_sites(bv, c, pl_["l"], want, depth + 1, W)
                    if sub is None:
                        return None
                    out += sub
                    continue
        if neg:
            return None
        if W is not None and src is not None and src.get("p") and len(src["p"]) == 1 and src["p"][0].get("k") == "field":
            # `let (finish, flag) = self.load_it().await;`: follow the private async helper to the tuple it returns
            ac = optnorm.await_callee(W, bv, bv.trace_local(src["l"]))
            if ac is not None and not (W.by_id.get(ac[0].body.get("parent")) or {}).get("pub"):
                cv_ = ac[0]
                rds = [d for d in cv_.defs.get(0, []) if d[0] in cv_.reach0]
                if len(rds) == 1 and rds[0][2] == "rv" and rds[0][3]["k"] == "agg" and rds[0][3].get("ak") == "tuple":
                    op_ = rds[0][3]["ops"][src["p"][0]["i"]]
                    pl_ = op_.get("m") or op_.get("c")
                    if pl_ is not None and not pl_.get("p") and cv_.defs.get(pl_["l"]) and cv_.crate.types[cv_.locals[pl_["l"]]["t"]]["s"] == "bool":
                        sub = _flag_sites(cv_, c, pl_["l"], want, depth + 1, W)
                        if sub is None:
                            return None
                        out += sub
                        continue
        t = optnorm.simplify(bv._trace_rv(x, None, 0))
        tc = lib.term_const(c, strip(t))
        if tc in (0, 1):
            if bool(tc) == want:
                out.append((bv, bi, None))
            continue
        if strip(t)[0] == "phi":
            # `a && b` as a value: the alternatives are the constant false and b
            for a_ in strip(t)[1]:
                ac = lib.term_const(c, strip(a_))
                if ac in (0, 1):
                    if bool(ac) == want:
                        out.append((bv, bi, None))
                elif _readable_cond(a_):
                    out.append((bv, bi, a_))
                else:
                    return None
            continue
        if not _readable_cond(t):
            return None
        out.append((bv, bi, t))
    return out


def _follow_fields(bv, pl, depth=0):
    """Value of the place `local.proj..` read through the aggregates that define the local:
    [("local", l, block) | ("const", value, block)], or None when a step is not an aggregate field."""
    fields = [e for e in pl.get("p", []) if e["k"] not in ("downcast", "deref")]
    if any(e["k"] != "field" for e in fields):
        return None
    return _ff(bv, pl["l"], fields, None, depth)


def _ff(bv, l, fields, at, depth):
    if depth > 12:
        return None
    if not fields:
        return [("local", l, at)]
    e, rest = fields[0], fields[1:]
    ds = [d for d in bv.defs.get(l, []) if d[0] in bv.reach0]
    if not ds:
        return None
    out = []
    for (bi, si, kind, x) in ds:
        if kind != "rv":
            return None
        if x["k"] == "use":
            p2 = x["o"].get("m") or x["o"].get("c")
            if p2 is None:
                return None
            f2 = [q for q in p2.get("p", []) if q["k"] not in ("downcast", "deref")]
            if any(q["k"] != "field" for q in f2):
                return None
            sub = _ff(bv, p2["l"], f2 + fields, bi, depth + 1)
        elif x["k"] == "agg" and e["i"] < len(x.get("ops", [])):
            op = x["ops"][e["i"]]
            if "k" in op:
                sub = None if rest else [("const", lib.term_const(bv.crate, ("const", op["k"])), bi)]
            else:
                p2 = op.get("m") or op.get("c")
                f2 = [q for q in p2.get("p", []) if q["k"] not in ("downcast", "deref")]
                if any(q["k"] != "field" for q in f2):
                    return None
                sub = _ff(bv, p2["l"], f2 + rest, bi, depth + 1)
        else:
            return None
        if sub is None:
            return None
        out += sub
    return out


def _readable_cond(t):
    """A boolean term this analysis can read: ==, is_some/is_none, map_or(false, ..), is_some_and, `&`, merges of those."""
    t = strip(t)
    if t[0] == "phi":
        return all(_readable_cond(a_) or strip(a_)[0] == "const" for a_ in t[1])
    if t[0] == "binop" and t[1] in ("BitAnd", "Eq", "Ne"):
        return True
    if t[0] == "call":
        cal = lib.norm(t[1])
        return cal in ("std::cmp::PartialEq::eq", "std::cmp::PartialEq::ne") or cal.endswith("Option::<T>::is_some") or cal.endswith("Option::<T>::is_none") or cal.endswith("Option::<T>::map_or") or cal.endswith("Option::<T>::is_some_and")
    return False


def _implies(W, bv, t, atom, depth=0):
    """Does the boolean term `t` being true imply a sub-condition satisfying atom(bv, term)?  Looks through
    `opt.map_or(false, |x| ..)`, `opt.is_some_and(|x| ..)`, `a & b` and merged alternatives (all must imply it)."""
    from .. import optnorm
    if depth > 6:
        return False
    t = strip(t)
    if atom(bv, t):
        return True
    if t[0] == "phi":
        alts_ = [a_ for a_ in t[1] if lib.term_const(bv.crate, strip(a_)) != 0]
        return bool(alts_) and all(_implies(W, bv, a_, atom, depth + 1) for a_ in alts_)
    if t[0] == "binop" and t[1] == "BitAnd":
        return _implies(W, bv, t[2], atom, depth + 1) or _implies(W, bv, t[3], atom, depth + 1)
    if t[0] == "call":
        cal = lib.norm(t[1])
        clo_arg = None
        if cal.endswith("Option::<T>::map_or") and len(t[2]) == 3 and lib.term_const(bv.crate, strip(t[2][1])) == 0:
            clo_arg = t[2][2]
        elif cal.endswith("Option::<T>::is_some_and") and len(t[2]) == 2:
            clo_arg = t[2][1]
            if atom(bv, ("call", "std::option::Option::<T>::is_some", [t[2][0]])):
                return True
        if clo_arg is not None:
            clo = optnorm._closure_of(clo_arg)
            if clo is not None and clo[2] in W.by_id:
                cb = W.bv(clo[2])
                body = optnorm.simplify(lib.subst_params(optnorm._ann(cb), [clo, optnorm.payload_of(W, bv, t[2][0])]))
                return _implies(W, cb, body, atom, depth + 1)
    return False


def _is_some_finish(bv, t):
    return t[0] == "call" and lib.norm(t[1]).endswith("Option::<T>::is_some") and "update_finish_time" in fmt_t(t)


def _eq_target_version(W):
    """atom: `<stored target version> == config.os.version` where a missing target version is not turned into a value
    (`unwrap_or_default() == version` reports for a machine whose version string is empty and no target was stored)."""
    from .. import optnorm

    def atom(bv, t):
        if not (t[0] == "call" and t[1] == "std::cmp::PartialEq::eq" and len(t[2]) == 2):
            return False
        sides = [fmt_t(a_) for a_ in t[2]]
        tv = [i for i, s_ in enumerate(sides) if "'target_version'" in s_]
        ov = [i for i, s_ in enumerate(sides) if "os.version" in s_]
        if not tv or not ov or tv == ov and len(tv) == 1:
            return False
        # a default in the stored side turns "nothing stored" into a value that can equal the running version
        for x in walk(t[2][tv[0]]):
            if x[0] == "call" and lib.norm(x[1]).split("::")[-1] in ("unwrap_or", "unwrap_or_else", "unwrap_or_default"):
                return False
        return True
    return atom


def nodes_of(S, bv, bi):
    return [n.idx for n in S.nodes if n.ctx.bv is bv and n.bi == bi and n.idx in S.live]


def _option_flag(rv, rbi):
    """The report-once flag carried as `Option<SystemTime>` (Some = still to report, with the finish time as payload):
    -> (edges under which it is Some, sites that assign Some(..), sites that assign None or take() it), or None when the
    body has no such local or it is defined in a way this rule does not read."""
    cands = []
    for l, loc in enumerate(rv.locals):
        if not loc.get("u") or not rv.crate.types[loc["t"]]["s"].startswith("std::option::Option<std::time::SystemTime>"):
            continue
        edges = []
        for sb in sorted(rv.reach0):
            sub = rv.switch_subject(sb)
            if sub is None or sub[0].get("p"):
                continue
            hit = sub[0]["l"] == l
            if not hit:
                # `if let Some(t) = flag.take()`: the tested value is what take() handed out of this local
                for (dbi, dsi, kind, x) in rv.defs.get(sub[0]["l"], []):
                    if kind == "call" and lib.norm(x.get("callee") or "").endswith("Option::<T>::take") and any(
                            s_["k"] == "assign" and s_["r"]["k"] == "ref" and s_["r"].get("m") and s_["r"]["p"]["l"] == l and not s_["r"]["p"].get("p") for s_ in rv.blocks[dbi]["s"]):
                        hit = True
            if hit:
                si = guards.switch_info(rv, sb)
                edges += [(sb, b) for b in rv.succ[sb] if si.edge_names(rv, b) == ["Some"]]
        if edges and rv.dominated_by_edge(rbi, edges):
            cands.append((l, edges))
    if len(cands) != 1:
        return None
    U, edges = cands[0]
    sites_true, resets = [], []
    seen = set()

    def defs_of(l):
        if l in seen:
            return True
        seen.add(l)
        for (bi, si_, kind, x) in rv.defs.get(l, []):
            if bi not in rv.reach0:
                continue
            if kind == "call":
                return False
            if x["k"] == "agg" and x.get("ak") == "adt" and x.get("vn") == "Some":
                sites_true.append((rv, bi, None))
            elif x["k"] == "agg" and x.get("ak") == "adt" and x.get("vn") == "None":
                resets.append(bi)
            elif x["k"] == "use" and (x["o"].get("m") or x["o"].get("c")) is not None and not (x["o"].get("m") or x["o"].get("c")).get("p"):
                if not defs_of((x["o"].get("m") or x["o"].get("c"))["l"]):
                    return False
            else:
                return False
        return True

    if not defs_of(U) or not sites_true:
        return None
    # `U.take()` / `mem::take(&mut U)` / `replace`: clears it where it stands
    for bi in sorted(rv.reach0):
        for s_ in rv.blocks[bi]["s"]:
            if s_["k"] == "assign" and s_["r"]["k"] == "ref" and s_["r"].get("m") and s_["r"]["p"]["l"] == U and not s_["r"]["p"].get("p"):
                t = rv.blocks[bi]["t"]
                nm = lib.norm(t.get("callee") or "") if t["k"] == "call" else ""
                if nm.rsplit("::", 1)[-1] in ("take", "replace") :
                    resets.append(bi)
                else:
                    return None
    return edges, sites_true, resets


def run(F, R):
    sm = smod.get(F)
    c = sm.c
    S = sm.S_check
    Sr = sm.S_run
    W = sm.w
    smod.preconditions(sm, R, "C18-pre")
    R.trust("Storage contract (durable after commit); Plan::id identifies an update; TimeSource")
    R.assume("arithmetic on the reported durations is only checked to use checked operations (census), not for numeric correctness")
    ku = keys.key_users(W, c)
    bykey = {}
    for k in ku:
        bykey.setdefault(k["key_val"], []).append(k)
    for name in K.values():
        R.floor("C18-keys", "users of storage key " + name, len(bykey.get(name, [])), 2)

    # ---------------------------------------------------------------- R1 first seen
    R.rule("C18-R1", "the first-seen time and plan id are (re)written only when the stored plan id is absent or differs from plan.id(); on the equal path the stored time is returned; both writes are committed together")
    setplan = [k for k in bykey.get(K["plan"], []) if k["name"] == "set_string"]
    if setplan:
        # the attempt is recorded before the installer runs, so that a failed (or interrupted) attempt still leaves its first-seen time
        fvp = setplan[0]["bv"].body.get("parent")
        rec_calls = [n.idx for n in S.nodes if n.idx in S.live and n.term["k"] == "call" and fvp and n.term.get("callee_id") == fvp]
        pi_ = sm.env(S, "Installer", "perform_install")
        if R.floor("C18-R1", "calls recording the first-seen time / perform_install", min(len(rec_calls), len(pi_)), 1):
            r0 = reach(S, [S.root.entry], cut_nodes=rec_calls)
            R.check("C18-R1", "recorded-before-install", not (set(pi_) & r0), "perform_install is reached only after the plan id / first-seen time were recorded",
                    "perform_install can run before the attempt's first-seen time is recorded: a failed attempt leaves no first-seen time behind")
    if R.floor("C18-R1", "writer of install_plan_id", len(setplan), 1):
        fv = setplan[0]["bv"]
        R.count("bodies")
        wbi = setplan[0]["bi"]
        eq_false = lib.equal_edges(fv, lambda t: "get_string" in lib.apath(t), holds=False)
        eq_true = lib.equal_edges(fv, lambda t: "get_string" in lib.apath(t))
        none_e = []
        for sb in sorted(fv.reach0):
            si = guards.switch_info(fv, sb)
            if si and si.kind == "discr" and si.ty.get("d") == "std::option::Option" and (lib.head_call(si.term) or "").endswith("Storage::get_string"):
                for tgt in fv.succ[sb]:
                    if "Some" not in si.edge_names(fv, tgt):
                        none_e.append((sb, tgt))
        eqt = set(terms.render(fv, fv.trace_op(fv.blocks[a]["t"]["o"]), W, {}) for a, b in eq_true)
        R.check("C18-R1", "compare-with-plan-id", len(eqt) == 1 and all("install_plan_id" in t and "param1.1" in t for t in eqt), str(sorted(eqt))[:160], "the stored id is not compared with the plan id argument: %s" % sorted(eqt))
        # `stored == Some(id)` compared as Options: its false edge already covers "absent"
        eqf_t = set(terms.render(fv, fv.trace_op(fv.blocks[a]["t"]["o"]), W, {}) for a, b in eq_false)
        opt_cmp = bool(eqf_t) and all("Some{" in t_ for t_ in eqf_t)
        R.check("C18-R1", "write-only-for-new-plan", eq_false and (none_e or opt_cmp) and fv.dominated_by_edge(wbi, eq_false + none_e), "install_plan_id written only when absent or different", "install_plan_id / first-seen time are rewritten for the same plan", lib.loc(fv, wbi))
        setfirst = [k for k in bykey.get(K["first"], []) if k["name"] == "set_time" and k["bv"] is fv]
        R.check("C18-R1", "first-seen-with-id", len(setfirst) == 1 and setfirst[0]["bi"] in fv.reach_from([wbi]) and fv.dominated_by_edge(setfirst[0]["bi"], eq_false + none_e) and (none_e or opt_cmp), "first-seen time written together with the id", "first-seen time is not written together with the plan id")
        if setfirst:
            v = setfirst[0]["value"]
            R.check("C18-R1", "first-seen-value", v == "param1.2", "first-seen time <- the `now` argument", "first-seen time <- %s" % v)
        # equal path returns the stored time
        for (a, b) in eq_true:
            region = fv.arm_region(a, b)
            with fv.restrict(region):
                ret = terms.render(fv, fv.trace_local(0), W, {})
            R.check("C18-R1", "same-plan-returns-stored", "unwrap_or(poll(get_time(" in ret and "'update_first_seen_time'" in ret and ret.endswith(", param1.2)") or ("get_time" in ret and "update_first_seen_time" in ret), ret[:160], "for the same plan the function returns %s" % ret[:160])
        # a plan id must never stay stored without its first-seen time: when the time cannot be written, the id written just
        # before is taken back (otherwise every later attempt of the same plan finds "its" id, skips the write, and has no time)
        if setfirst:
            ferr = []
            for sb in sorted(fv.reach0):
                si = guards.switch_info(fv, sb)
                if si and si.kind == "discr" and si.ty.get("d") == "std::result::Result" and "set_time" in (lib.head_call(si.term) or "") and "'update_first_seen_time'" in fmt_t(si.term):
                    for tgt in fv.succ[sb]:
                        if "Err" in si.edge_names(fv, tgt):
                            ferr.append((sb, tgt))
            rmplan = [k["bi"] for k in bykey.get(K["plan"], []) if k["name"] in ("remove", "remove_or_log") and k["bv"] is fv]
            if R.floor("C18-R1", "error edge of the first-seen write", len(ferr), 1):
                esc = set(fv.exits()) & fv.reach_from([b for _, b in ferr], avoid=rmplan)
                R.check("C18-R1", "id-taken-back-when-time-write-fails", bool(rmplan) and not esc, "a failed first-seen write removes the plan id again before returning",
                        "when writing the first-seen time fails the plan id stays stored without a time: later attempts of the same plan never record one", lib.loc(fv, ferr[0][0]))
        commits = [bi for bi, t in fv.calls() if t.get("trait") in ("storage::Storage", "storage::StorageExt") and t["name"] in ("commit", "commit_or_log")]
        if setfirst:
            ok_edges = []
            for sb in sorted(fv.reach0):
                si = guards.switch_info(fv, sb)
                if si and si.kind == "discr" and si.ty.get("d") == "std::result::Result" and (lib.head_call(si.term) or "").startswith("storage::Storage"):
                    for tgt in fv.succ[sb]:
                        if "Err" in si.edge_names(fv, tgt):
                            ok_edges.append((sb, tgt))
            # from the second write, with no storage failure, a commit precedes the return
            seen = set()
            st = [setfirst[0]["bi"]]
            cut = set(ok_edges)
            while st:
                x = st.pop()
                if x in seen or x in commits:
                    continue
                seen.add(x)
                for y in fv.succ[x]:
                    if (x, y) not in cut:
                        st.append(y)
            R.check("C18-R1", "commit-after-writes", commits and not (seen & set(fv.exits())), "the pair of writes is committed before returning", "the new plan id / first-seen time can be left uncommitted")

    # ---------------------------------------------------------------- R2 attempt counter
    R.rule("C18-R2", "the failed-install-attempt counter is reported (stored + 1) with every install that failed or installed something, removed on success and incremented on failure; it is consulted only when the per-app results say so")
    root = S.root
    rb = root.bv
    folds = [(bi, t) for bi, t in rb.calls() if lib.callee_is(t, "std::iter::Iterator::fold")]
    if not folds:
        # the install-success summary is not computed by a fold: read the same transition table off the loop that carries it
        _summary_loop_table(R, sm, rb)
    else:
        bi, t = folds[0]
        init = terms.render(rb, rb.trace_op(t["args"][1]), W, {})
        src = terms.render(rb, rb.trace_op(t["args"][0]), W, {})
        clo = [x for x in walk(rb.trace_op(t["args"][2])) if x[0] == "agg" and x[1] == "closure"]
        R.check("C18-R2", "fold-source", init == "None{}" and src.startswith("iter(") and src.endswith("app_responses)"), "fold(None) over result.app_responses", "fold(%s) over %s" % (init, src[-80:]))
        if clo:
            cb = W.bv(clo[0][2])
            rows = set()
            for conds, d in cb.decision_paths(0, 0):
                val = "?"
                if d is not None and d[1] is not None:
                    val = terms.render(cb, cb._trace_rv(cb.blocks[d[0]]["s"][d[1]]["r"], None, 0), W, {})
                rows.add((tuple(cond_desc(cb, conds)), val))
            pretty = sorted("%s -> %s" % (" & ".join(k), v) for k, v in rows)
            # decide the table semantically (order of arms, guards vs nested matches do not matter)
            trows = []
            unknown = []
            for k_, v in rows:
                ec = sc = None
                for cnd in k_:
                    subj, nm = cnd.rsplit("=", 1)
                    if subj.endswith(".result"):
                        ec = {"InstallPlanExecutionError": "IPE", "Updated": "Updated"}.get(nm, "other")
                    elif subj == "param2":
                        sc = "None" if nm == "None" else "!None"
                    else:
                        unknown.append(cnd)
                trows.append((ec, sc, "same" if v == "param2" else v))
            if unknown:
                R.inconclusive("C18-R2", "fold-table", "the fold closure branches on conditions this rule does not know: %s" % sorted(set(unknown))[:3])
            else:
                T = _transition(trows)
                diff = sorted("%s,%s -> %s (expected %s)" % (k[0], k[1], sorted(v), sorted(EXPECTED_T[k])) for k, v in T.items() if v != EXPECTED_T[k])
                R.check("C18-R2", "fold-table", not diff, "; ".join(pretty), "the per-app install summary differs from the property's table: %s" % diff[:4])
    helper = [k for k in bykey.get(K["attempts"], []) if k["name"] == "get_int"]
    spread = [k for k in bykey.get(K["attempts"], []) if k["name"] in ("remove_or_log", "remove", "set_int") and helper and k["bv"] is not helper[0]["bv"]]
    if helper and spread:
        # the read, the report, the removal and the increment are no longer in one function (e.g. split into helpers that
        # take the locked storage): the dominance rules below are written for one body and do not apply to this shape
        R.inconclusive("C18-R2", "counter-helper-shape", "the attempt counter is read in %s but written in %s: rule reads one function" % (helper[0]["bv"].name.split("::")[-2], sorted(set(k["bv"].name.split("::")[-2] for k in spread))))
    elif R.floor("C18-R2", "reader of the attempt counter", len(helper), 1):
        hv = helper[0]["bv"]
        hcalls = [n for n in S.nodes if n.idx in S.live and n.ctx.bv is hv]
        hctx = set(n.ctx for n in hcalls)
        R.check("C18-R2", "single-call-site", len(hctx) == 1, "the counter helper is called from one place", "the counter helper is called from %d places" % len(hctx))
        for cx in hctx:
            # called iff install_success is Some
            someE = []
            # the summary value = the Option<bool> whose Some payload is handed to the counter helper
            # (the helper is an async fn: the call that builds its future carries the arguments)
            mk = [n for n in S.nodes if n.idx in S.live and n.ctx is cx.parent and n.term["k"] == "call" and hv.body.get("parent") and n.term.get("callee_id") == hv.body.get("parent")]
            site = mk[0] if mk else (S.nodes[cx.site] if cx.site is not None else None)
            summary = None
            if site is not None and site.term["k"] == "call":
                pv_ = site.ctx.bv
                for a_ in site.term["args"]:
                    pl_ = a_.get("m") or a_.get("c")
                    hops = 0
                    while pl_ and not pl_.get("p") and hops < 6 and summary is None:
                        hops += 1
                        nxt = None
                        for (dbi, dsi, kind, x) in pv_.defs.get(pl_["l"], []):
                            if kind == "rv" and x["k"] == "use":
                                src_ = x["o"].get("m") or x["o"].get("c")
                                pj = (src_ or {}).get("p", [])
                                if src_ and len(pj) == 2 and pj[0]["k"] == "downcast" and pj[0].get("n") == "Some" and pj[1]["k"] == "field":
                                    summary = src_["l"]
                                elif src_ and not pj:
                                    nxt = src_
                        pl_ = nxt
            for m in S.nodes:
                if m.ctx is cx.parent and m.idx in S.live and m.term["k"] == "switch":
                    si = guards.switch_info(m.ctx.bv, m.bi)
                    if si and si.kind == "discr" and si.ty.get("d") == "std::option::Option" and ((lib.head_call(si.term) or "").endswith("Iterator::fold") or (summary is not None and not m.ctx.bv.switch_subject(m.bi)[0].get("p") and m.ctx.bv.switch_subject(m.bi)[0]["l"] == summary)):
                        for b in S.succ[m.idx]:
                            nm = [si.names.get(l[2], str(l[2])) for l in S.elabel.get((m.idx, b), []) if l[0] == "switch"]
                            if "Some" in nm:
                                someE.append((m.idx, b))
            r_ = reach(S, [S.root.entry], cut_edges=someE)
            R.check("C18-R2", "only-when-relevant", someE and cx.entry not in r_, "consulted only when an app failed or was updated", "the attempt counter is touched although no app failed or was updated")
            for (a, b) in someE:
                R.check("C18-R2", "always-when-relevant", not (set(root.returns) & reach(S, [b], cut_nodes=[cx.entry])), "always consulted when an app failed or was updated", "an install result can be dropped without updating the attempt counter")
            # argument = payload of Some
            site = S.nodes[cx.site] if cx.site is not None else None
        mt = [x for x in sm.metrics(S, "AttemptsToSuccessfulInstall")]
        for x in mt:
            nd = S.nodes[x]
            t = S.trace(nd, nd.term["args"][1])
            agg = [y for y in walk(t) if y[0] == "agg" and y[2] and y[2].endswith("Metrics::AttemptsToSuccessfulInstall")]
            if agg:
                cnt = terms.render(hv, agg[0][3][agg[0][4].index("count")], W, {}) if nd.ctx.parent and nd.ctx.parent.bv is hv else fmt_t(agg[0][3][0])
                R.check("C18-R2", "metric-count", _stored_plus_one(cnt), cnt[:140], "AttemptsToSuccessfulInstall.count <- %s" % cnt[:160], nd.loc())
        rm = [k for k in bykey.get(K["attempts"], []) if k["name"] in ("remove_or_log", "remove")]
        st = [k for k in bykey.get(K["attempts"], []) if k["name"] == "set_int"]
        tr_e = [(a, b) for (a, b, tr) in hv.bool_edges(lambda t: strip(t) in (("param", 2),) or lib.apath(t).endswith("param1.1") or lib.apath(t) == "param1.1") if tr]
        fl_e = [(a, b) for (a, b, tr) in hv.bool_edges(lambda t: lib.apath(t) in ("param1.1", "param2")) if not tr]
        tr_e = [(a, b) for (a, b, tr) in hv.bool_edges(lambda t: lib.apath(t) in ("param1.1", "param2")) if tr]
        R.check("C18-R2", "remove-on-success", len(rm) == 1 and tr_e and hv.dominated_by_edge(rm[0]["bi"], tr_e), "removed exactly under success == true", "the counter is not removed exactly on success")
        R.check("C18-R2", "increment-on-failure", len(st) == 1 and fl_e and hv.dominated_by_edge(st[0]["bi"], fl_e) and _stored_plus_one(st[0]["value"]),
                "set_int(stored + 1) exactly under success == false", "the counter is not incremented exactly on failure: %s" % (st[0]["value"][:120] if st else None))

    # ---------------------------------------------------------------- R3 durable before reboot
    R.rule("C18-R3", "an install without failed app records finish time (and the system app's target version) and commits before reboot_needed is asked / Needed is built; the target version is looked up under AppSet::get_system_app_id()")
    fin = [k for k in bykey.get(K["finish"], []) if k["name"] == "set_time"]
    tgt = [k for k in bykey.get(K["target"], []) if k["name"] == "set_string"]
    needed_sites = [n.idx for n in S.nodes if n.idx in S.live and any(s_["k"] == "assign" and s_["r"]["k"] == "agg" and s_["r"].get("d") == RAU and s_["r"].get("vn") == "Needed" for s_ in n.block["s"])]
    rn = sm.env(S, "Policy", "reboot_needed")
    if R.floor("C18-R3", "writer of update_finish_time", len(fin), 1) and R.floor("C18-R3", "Needed constructions / reboot_needed", min(len(needed_sites), len(rn)), 1):
        fn = [x for k in fin for x in nodes_of(S, k["bv"], k["bi"])]
        hctx = S.nodes[fn[0]].ctx
        cm = [x for x in sm.env(S, "Storage", "commit") if x in reach_in(S, fn, hctx)]
        goal = set(needed_sites) | set(rn)
        r_ = reach(S, [S.root.entry], cut_nodes=fn)
        R.check("C18-R3", "finish-time-before-reboot", not (goal & r_), "reboot_needed / Needed only after the finish time was stored", "a reboot can be requested without storing the finish time")
        R.check("C18-R3", "commit-before-reboot", cm and not (goal & reach_in(S, fn, hctx, cut_nodes=cm)), "committed before reboot_needed is asked", "the finish time can be left uncommitted when the reboot is requested")
        v = fin[0]["value"]
        R.check("C18-R3", "finish-time-value", "now_in_walltime" in v, v[:100], "finish time <- %s" % v[:100])
        errs = sm.yields(S, "InstallerError") + sm.yields(S, "StateChange", "InstallationError")
        R.check("C18-R3", "only-without-failed-app", not (set(fn) & reach_pf(S, errs)), "not recorded after an installation error", "finish time is recorded although an app failed")
        if R.floor("C18-R3", "writer of target_version", len(tgt), 1):
            tn = [x for k in tgt for x in nodes_of(S, k["bv"], k["bi"])]
            R.check("C18-R3", "target-version-before-commit", not (goal & reach_in(S, tn, hctx, cut_nodes=cm)) and all(x in reach_in(S, fn, hctx) for x in tn), "target version stored between finish time and commit", "the target version is not covered by the commit before reboot")
            tv = tgt[0]["bv"]
            # guard: Some edge of next_versions.get(system_app_id)
            okk = False
            keyt = ""
            for sb in sorted(tv.reach0):
                si = guards.switch_info(tv, sb)
                if si and si.kind == "discr" and si.ty.get("d") == "std::option::Option" and "HashMap::" in (lib.head_call(si.term) or "") and (lib.head_call(si.term) or "").endswith("::get"):
                    t_ = si.term
                    calls = [x for x in walk(t_) if x[0] == "call" and "HashMap::" in x[1] and x[1].endswith("::get")]
                    if calls:
                        keyt = terms.render(tv, calls[0][2][1], W, {})
                    some = [(sb, b) for b in tv.succ[sb] if "Some" in si.edge_names(tv, b)]
                    if tv.dominated_by_edge(tgt[0]["bi"], some) and keyt.startswith("get_system_app_id("):
                        okk = True
            R.check("C18-R3", "system-app-key", okk, "target version looked up under get_system_app_id(): %s" % keyt[:80], "the target version is not looked up under AppSet::get_system_app_id(): key = %s" % keyt[:120], tgt[0]["loc"])
            val = tgt[0]["value"]
            from .. import optnorm
            tt_ = tgt[0]["t"]
            alts_ = optnorm.value_alts(W, tv, tv.trace_op(tt_["args"][2])) if len(tt_.get("args", [])) > 2 else []
            pays = [optnorm.canon(terms.render(tv, a_[1], W, {})) for a_ in alts_ if a_[0] == "payload"]
            vals = [terms.render(tv, a_[1], W, {}) for a_ in alts_ if a_[0] == "value"]
            # either the offered version of the system app (payload of the map entry found under the system app id) or the literal UNKNOWN
            okv = len(pays) >= 1 and all(p_.startswith("get(") and p_.endswith("@OK") and "get_system_app_id(" in p_ for p_ in pays) and vals == ["'UNKNOWN'"]
            R.check("C18-R3", "target-version-value", okv, "target version <- %s | %s" % ([p_[:60] for p_ in pays], vals), "target version value <- %s | %s (%s)" % ([p_[:100] for p_ in pays], vals, val[:100]))

    # ---------------------------------------------------------------- R4 report once, clear after
    R.rule("C18-R4", "the waited-for-reboot duration is reported only when a finish time is stored and the stored target version equals the running OS version; the flag is cleared and both keys removed+committed only on a successful report; the start instant is taken once")
    rv = Sr.root.bv
    rep = [(bi, t) for bi, t in rv.calls() if t.get("callee_id") in W.by_id and any(lib.callee_is(t2, "wall_duration_since") for _, t2 in W.bv(t["callee_id"]).calls())]
    if R.floor("C18-R4", "report call in the long-running task", len(rep), 1):
        rbi, rt = rep[0]
        # flag local: a user bool tested before the report; set from constants (possibly through temporaries / negation)
        # or computed (`finish.is_some() && target == version`)
        flag = None
        for l, ds in rv.defs.items():
            if rv.crate.types[rv.locals[l]["t"]]["s"] != "bool" or not rv.locals[l].get("u"):
                continue
            ts_ = _flag_sites(rv, c, l, True, 0, W)
            fs_ = _flag_sites(rv, c, l, False, 0, W)
            if ts_ and fs_:
                # the flag that is tested right before the report call
                ft = rv.trace_local(l)
                es = [(a, b) for (a, b, tr) in rv.bool_edges(lambda t: t == ft, whole=True) if tr]
                if es and rv.dominated_by_edge(rbi, es):
                    # several locals can carry the same value (the flag and the temporary it was computed in): the flag is
                    # the one that is also reset inside the loop
                    comps_ = rv.sccs()
                    has_reset = any(v_ is rv and tm_ is None and any(b_ in L_ for L_ in comps_) for v_, b_, tm_ in fs_)
                    if flag is None or has_reset:
                        flag = l
        optf = _option_flag(rv, rbi) if flag is None else None
        if flag is None and optf is None:
            R.inconclusive("C18-R4", "flag", "no boolean flag guards the report call")
        else:
            comps = rv.sccs()
            inloop = lambda b: any(b in L for L in comps)
            if flag is not None:
                fterm = rv.trace_local(flag)
                flag_true = [(a, b) for (a, b, tr) in rv.bool_edges(lambda t: t == fterm, whole=True) if tr]
                sites_true = _flag_sites(rv, c, flag, True, 0, W)
                resets = [bi for v_, bi, tm_ in _flag_sites(rv, c, flag, False, 0, W) if v_ is rv and inloop(bi) and tm_ is None]
            else:
                # the flag and the finish time folded into one `Option<SystemTime>`: "set" = assigned Some(..), "reset" = assigned None / taken
                flag_true, sites_true, resets_all = optf
                resets = [b for b in resets_all if inloop(b)]
            R.check("C18-R4", "report-guarded-by-flag", flag_true and rv.dominated_by_edge(rbi, flag_true), "report only while the flag is set", "the duration is reported without consulting the report-once flag", lib.loc(rv, rbi))
            sets_true = [b for v_, b, _ in sites_true if v_ is rv]
            eq_atom = _eq_target_version(W)

            def some_fin_of(v_):
                es_ = [(a, b) for (a, b, tr) in v_.bool_edges(lambda t: t[0] == "call" and t[1].endswith("Option::<T>::is_some") and "update_finish_time" in lib.apath(t)) if tr]
                es_ += [(a, b) for (a, b, tr) in v_.bool_edges(lambda t: t[0] == "call" and t[1].endswith("Option::<T>::is_none") and "update_finish_time" in lib.apath(t)) if not tr]
                # `match finish_time { Some(_) => .., None => false }` / `if let Some(..) = finish_time`
                for sb in sorted(v_.reach0):
                    si = guards.switch_info(v_, sb)
                    if si and si.kind == "discr" and si.ty.get("d") == "std::option::Option" and "update_finish_time" in fmt_t(si.term) and "get_time" in fmt_t(si.term):
                        es_ += [(sb, b) for b in v_.succ[sb] if "Some" in si.edge_names(v_, b)]
                return es_

            def eq_os_of(v_):
                return lib.equal_edges(v_, lambda t: eq_atom(v_, ("call", "std::cmp::PartialEq::eq", t[2])))
            # a site inside `if flag { .. }` that sets the flag again (e.g. `flag = !reported`) keeps it as it was
            keeps = lambda v_, b: v_ is rv and bool(flag_true) and rv.dominated_by_edge(b, flag_true)
            fin_ok = bool(sites_true) and all(keeps(v_, b) or (some_fin_of(v_) and v_.dominated_by_edge(b, some_fin_of(v_))) or (tm_ is not None and _implies(W, v_, tm_, _is_some_finish)) for v_, b, tm_ in sites_true)
            R.check("C18-R4", "flag-set-only-if-finish-time", fin_ok, "flag set only when a finish time is stored", "the flag is set without a stored finish time")
            ver_ok = bool(sites_true) and all(keeps(v_, b) or (eq_os_of(v_) and v_.dominated_by_edge(b, eq_os_of(v_))) or (tm_ is not None and _implies(W, v_, tm_, eq_atom)) for v_, b, tm_ in sites_true)
            R.check("C18-R4", "flag-set-only-on-target-version", ver_ok, "flag set only when a stored target version == config.os.version", "the flag is set although no stored target version equals the running version (a missing one compared as a default value counts as not stored)")
            okE = []
            for sb in sorted(rv.reach0):
                si = guards.switch_info(rv, sb)
                if si and si.kind == "discr" and si.ty.get("d") == "std::result::Result" and lib.head_call(si.term) == lib.norm(rt.get("callee")):
                    for b in rv.succ[sb]:
                        if "Ok" in si.edge_names(rv, b):
                            okE.append((sb, b))
            rms = [k for k in bykey.get(K["finish"], []) + bykey.get(K["target"], []) if k["name"] in ("remove_or_log", "remove") and k["bv"] is rv]
            cm_helper = []
            if not rms:
                # the clean-up (remove both keys, commit) may have been moved into a private async helper called here
                for (hbi_, ht_, hcv_) in lib.async_callees(W, rv):
                    hk_ = [k for k in bykey.get(K["finish"], []) + bykey.get(K["target"], []) if k["name"] in ("remove_or_log", "remove") and k["bv"] is hcv_]
                    if len(hk_) == 2:
                        rms = [dict(k, bi=hbi_) for k in hk_]
                        if any(t2.get("trait") in ("storage::Storage", "storage::StorageExt") and t2["name"] in ("commit", "commit_or_log") and not (set(hcv_.exits()) & hcv_.reach_from([0], avoid=[b2])) for b2, t2 in hcv_.calls()):
                            cm_helper = [hbi_]
            R.check("C18-R4", "cleared-only-on-success", okE and resets and all(rv.dominated_by_edge(b, okE) for b in resets) and len(rms) == 2 and all(rv.dominated_by_edge(k["bi"], okE) for k in rms),
                    "flag reset and both keys removed only after a successful report", "the record is cleared without a successful report (or never)")
            for (a, b) in okE:
                nxt = [bi for bi, t in rv.calls() if t.get("trait") == "policy::PolicyEngine"]
                cmts = [bi for bi, t in rv.calls() if t.get("trait") in ("storage::Storage", "storage::StorageExt") and t["name"] in ("commit", "commit_or_log") and rv.dominated_by_edge(bi, okE)]
                cmts += [b_ for b_ in cm_helper if rv.dominated_by_edge(b_, okE)]
                r1 = rv.reach_from([b], avoid=resets)
                r2 = rv.reach_from([b], avoid=[k["bi"] for k in rms])
                r3 = rv.reach_from([b], avoid=cmts)
                R.check("C18-R4", "cleared-always-on-success", not (set(nxt) & r1) and not (set(nxt) & r3) and cmts, "after a successful report the flag is reset and the removal committed before going on", "a successful report can be repeated (flag/record not cleared)")
            start = [bi for bi, t in rv.calls() if t.get("trait") == "time::TimeSource" and t["name"] == "now_in_monotonic"]
            R.check("C18-R4", "start-instant-once", len(start) == 1 and not inloop(start[0]), "state-machine start instant taken once before the loop", "the start instant is re-read inside the loop")
            # .. and before the stored record is read: waiting for the storage (its mutex, a slow backend) must not count as time waited for the reboot
            from .. import locks as _locks
            st_ops = [bi for bi, t in rv.calls() if t.get("trait") in ("storage::Storage", "storage::StorageExt") or _locks.lock_kind_of_call(c, t) == "ST"]
            # .. or hands the job to a private async helper that does
            summ_ = _locks.Summaries(W)
            st_ops += [hbi_ for (hbi_, ht_, hcv_) in lib.async_callees(W, rv) if "ST" in summ_.of(hcv_.body)[0]]
            R.check("C18-R4", "start-instant-before-storage", len(start) == 1 and st_ops and start[0] not in rv.reach_from(st_ops), "the start instant is taken before the storage is locked or read",
                    "the start instant is taken after storage operations: the time spent waiting for the storage is reported as time waited for the reboot", lib.loc(rv, start[0]) if start else None)
            from .. import optnorm as _on4
            a_fin = terms.render(rv, _on4.simplify(_on4.inline_awaits(W, rv, rv.trace_op(rt["args"][1]))), W, {})
            a_start = terms.render(rv, rv.trace_op(rt["args"][2]), W, {})
            if "get_time(" not in a_fin and "(param1" in a_fin:
                R.inconclusive("C18-R4", "report-arguments", "the finish time handed to the report comes out of a helper this rule does not read: %s" % a_fin[:80])
            else:
                R.check("C18-R4", "report-arguments", "get_time(" in a_fin and "'update_finish_time'" in a_fin and a_start.startswith("now_in_monotonic("), "report(finish time from storage, start instant, now)", "report arguments: %s ; %s" % (a_fin[:80], a_start[:80]))
    # ---------------------------------------------------------------- R5 checked arithmetic only
    R.rule("C18-R5", "the duration computation uses checked operations only (no panic-capable site)")
    if rep:
        bvr = W.bv(rep[0][1]["callee_id"])
        ps = census.panic_sites(bvr)
        R.check("C18-R5", "report-duration-census", not ps, "no panic-capable site in the duration computation", "panic-capable sites: %s" % [p["desc"] + "@" + p["loc"] for p in ps])
        names = [lib.norm(t.get("callee")).split("::")[-1] for _, t in bvr.calls()]
        R.check("C18-R5", "checked-ops", "checked_sub" in names and "checked_duration_since" in names and "wall_duration_since" in names, "wall_duration_since / checked_duration_since / checked_sub", "duration computed with %s" % names)
