"""C06 — Retries are bounded, only for transient failures, and backed off."""
from ..core import BV, strip, walk, fmt_t, is_logging_span
from .. import lib, guards, sm as smod, census
from ..sm import reach, path

ORE = "state_machine::OmahaRequestError"
NEVER_RETRIED = ("Json", "HttpBuilder", "CupDecoration", "CupValidation")
MAX_SENDS = 3  # oracle: "at most three update-check requests"


def counter_sim(S, L, hdr_ctx, counter, init, req, entry_nodes):
    """Concrete simulation of the counter over the otherwise nondeterministic loop sub-graph.
    Returns (max sends, detail) or (None, reason) when unbounded/not analysable."""
    bv = hdr_ctx.bv
    inc_blocks = set()
    for (bi, si, kind, x) in bv.defs.get(counter, []):
        n = [nd.idx for nd in S.nodes if nd.ctx is hdr_ctx and nd.bi == bi]
        if n and n[0] in L:
            inc_blocks.add(n[0])
    tests = {}
    for v in L:
        nd = S.nodes[v]
        if nd.ctx is not hdr_ctx or nd.term["k"] != "switch":
            continue
        if bv.switch_subject(nd.bi) is not None:
            continue
        t = strip(bv.trace_op(nd.term["o"]))
        if t[0] == "binop" and t[1] in ("Ge", "Gt", "Lt", "Le", "Eq", "Ne"):
            a, b = t[2], t[3]
            cterm = bv.trace_local(counter)
            if a == cterm and lib.term_const(bv.crate, b) is not None:
                tests[v] = (t[1], lib.term_const(bv.crate, b), False)
            elif b == cterm and lib.term_const(bv.crate, a) is not None:
                tests[v] = (t[1], lib.term_const(bv.crate, a), True)
    if not tests:
        return None, "no comparison of the attempt counter against a constant inside the loop"
    ops = {"Ge": lambda x, k: x >= k, "Gt": lambda x, k: x > k, "Lt": lambda x, k: x < k, "Le": lambda x, k: x <= k,
           "Eq": lambda x, k: x == k, "Ne": lambda x, k: x != k}
    CAP = 64
    # state graph
    import sys
    sys.setrecursionlimit(100000)
    memo = {}
    onstack = set()

    def succ_states(v, n):
        out = []
        n2 = n + 1 if v in inc_blocks else n
        for w in S.succ[v]:
            if w not in L:
                continue
            if v in tests:
                op, k, swapped = tests[v]
                truth = ops[op](k, n) if swapped else ops[op](n, k)
                labs = [l[2] for l in S.elabel.get((v, w), []) if l[0] == "switch" and l[1] == S.nodes[v].bi]
                ok = False
                for lab in labs:
                    edge_truth = (lab != 0)
                    if edge_truth == truth:
                        ok = True
                if not ok:
                    continue
            out.append((w, n2))
        return out

    # explicit state graph (block, counter value); cycles that do not contain the send neither add sends nor hide any
    # (an inner loop of a callee, e.g. a scan over the app entries while building the request)
    states = {}
    work = [(e, init) for e in entry_nodes]
    while work:
        st = work.pop()
        if st in states:
            continue
        if st[1] > CAP:
            return None, "the counter grows beyond %d without the loop being left" % CAP
        states[st] = succ_states(*st)
        work.extend(states[st])
    # Tarjan SCC (iterative)
    index = {}
    low = {}
    onst = set()
    stack = []
    comp = {}
    comps = []
    counter_ = [0]
    for root in list(states):
        if root in index:
            continue
        it = [(root, iter(states[root]))]
        index[root] = low[root] = counter_[0]
        counter_[0] += 1
        stack.append(root)
        onst.add(root)
        while it:
            v, ch = it[-1]
            adv = False
            for w in ch:
                if w not in index:
                    index[w] = low[w] = counter_[0]
                    counter_[0] += 1
                    stack.append(w)
                    onst.add(w)
                    it.append((w, iter(states[w])))
                    adv = True
                    break
                elif w in onst:
                    low[v] = min(low[v], index[w])
            if adv:
                continue
            it.pop()
            if it:
                low[it[-1][0]] = min(low[it[-1][0]], low[v])
            if low[v] == index[v]:
                cset = []
                while True:
                    w = stack.pop()
                    onst.discard(w)
                    comp[w] = len(comps)
                    cset.append(w)
                    if w == v:
                        break
                comps.append(cset)
    weight = []
    for ci, cset in enumerate(comps):
        cyclic = len(cset) > 1 or any(s_ in states[s_] for s_ in cset)
        has_req = any(s_[0] == req for s_ in cset)
        if cyclic and has_req:
            return None, "a cycle through the send does not increment the counter"
        weight.append(1 if has_req else 0)
    # longest path over the condensation (components are numbered in reverse topological order by Tarjan)
    best_c = [0] * len(comps)
    for ci in range(len(comps)):
        m = 0
        for s_ in comps[ci]:
            for w in states[s_]:
                if comp[w] != ci:
                    m = max(m, best_c[comp[w]])
        best_c[ci] = m + weight[ci]
    best = max([best_c[comp[(e, init)]] for e in entry_nodes] or [0])
    return best, "tests %s, increment blocks %d, %d states" % (sorted(set((o, k) for o, k, _ in tests.values())), len(inc_blocks), len(states))


def run(F, R):
    sm = smod.get(F)
    S = sm.S_check
    c = sm.c
    smod.preconditions(sm, R, "C06-pre")
    R.trust("futures/await lowering of rustc; HttpRequest/Timer are embedder traits reached only through the trait items")
    R.assume("the numeric back-off law 2^(k-1) s +/- 500 ms is not decided, only that the wait depends on the attempt counter and on an RNG")
    R.count("supergraph_nodes", len(S.live))
    reqs = sm.env(S, "Http", "request")
    if not R.floor("C06-R1", "HttpRequest::request sites in one check", len(reqs), 2):
        return
    comps = smod.sccs(S, S.live)
    R.count("loops", len(comps))
    with_req = [L for L in comps if any(r in L for r in reqs)]
    # ---------------------------------------------------------------- R2b: only one send site is in a loop
    R.rule("C06-R2", "retry reachability per OmahaRequestError variant: never for Json/HttpBuilder/CupDecoration/CupValidation; HttpTransport only past attempt-limit, is_user and poll-interval tests; HttpStatus only past attempt-limit and poll-interval tests; all other sends are in no loop")
    R.check("C06-R2", "single-send-loop", len(with_req) == 1 and sum(1 for r in reqs if r in with_req[0]) == 1,
            "exactly one of the %d send sites of a check lies on a cycle (the attempt loop); event reports are sent once" % len(reqs),
            "send sites on cycles: %s" % [[S.nodes[r].loc() for r in reqs if r in L] for L in with_req])
    if len(with_req) != 1:
        return
    L = with_req[0]
    req = [r for r in reqs if r in L][0]
    hdr_ctx = min((S.nodes[v].ctx for v in L), key=lambda cx: cx.depth)
    bv = hdr_ctx.bv
    R.count("loop_nodes", len(L))
    parse = sm.calls(S, "protocol::response::parse_json_response")
    R.check("C06-R2", "parse-not-in-loop", parse and not any(p in L for p in parse), "the response parse is outside the attempt loop (unparseable bodies are never retried)",
            "parse_json_response is inside the attempt loop or missing")
    # ---------------------------------------------------------------- R1 bound
    R.rule("C06-R1", "the attempt loop sends at most three requests (concrete simulation of the attempt counter over the nondeterministic loop graph)")
    cands = []
    for l, ds in bv.defs.items():
        inn = []
        outn = []
        for (bi, si, kind, x) in ds:
            nid = [nd.idx for nd in S.nodes if nd.ctx is hdr_ctx and nd.bi == bi]
            if not nid or nid[0] not in S.live:
                continue
            (inn if nid[0] in L else outn).append((bi, si, kind, x))
        if len(inn) >= 1 and len(outn) == 1 and all(d_[2] == "rv" for d_ in inn) and outn[0][2] == "rv":
            # one `+= 1` per way round the loop (several textual sites when an arm continues early)
            t_out = bv._trace_rv(outn[0][3], None, 0)
            k0 = lib.term_const(c, t_out)
            t_ins = [bv._trace_rv(d_[3], frozenset([l]), 0) for d_ in inn]
            if isinstance(k0, int) and all(t_in[0] == "field" and t_in[1][0] == "binop" and t_in[1][1] == "AddWithOverflow" and lib.term_const(c, t_in[1][3]) == 1 and t_in[1][2] == ("rec", l) for t_in in t_ins):
                cands.append((l, k0))
    if not R.floor("C06-R1", "attempt counters (init const, +1 per iteration)", len(cands), 1):
        return
    entry_nodes = [v for v in L if any(p not in L for p in S.pred[v])]
    best = None
    for (l, k0) in cands:
        n, det = counter_sim(S, L, hdr_ctx, l, k0, req, entry_nodes)
        if n is not None and (best is None or n < best[0]):
            best = (n, det, l, k0)
        elif best is None:
            last = det
    if best is None:
        R.violation("C06-R1", "bound", "no attempt counter bounds the send loop: %s" % last, S.nodes[req].loc())
        return
    n, det, counter, k0 = best
    maxc = [lib.term_const(c, t) for t in [x for x in walk(("phi", [strip(bv.trace_op(S.nodes[v].term["o"])) for v in L if S.nodes[v].ctx is hdr_ctx and S.nodes[v].term["k"] == "switch" and bv.switch_subject(S.nodes[v].bi) is None]))] if t[0] == "const" and t[1].get("def", "").endswith("MAX_OMAHA_REQUEST_ATTEMPTS")]
    R.check("C06-R1", "bound", n <= MAX_SENDS, "at most %d sends per check (counter %s from %d; %s)" % (n, bv.names.get(counter, "_%d" % counter), k0, det),
            "the attempt loop can send %d requests (> %d): counter %s starts at %d; %s" % (n, MAX_SENDS, bv.names.get(counter, "_%d" % counter), k0, det), S.nodes[req].loc())
    R.extra = getattr(R, "extra", {})
    # ---------------------------------------------------------------- R2 per-variant retry reachability
    adt = c.adts.get(ORE)
    variants = [v["n"] for v in adt["variants"]] if adt else []
    R.floor("C06-R2", "variants of OmahaRequestError", len(variants), 6)
    cterm = bv.trace_local(counter)

    def is_guard(kind):
        def pred(nd, term):
            if nd.ctx is not hdr_ctx:
                return False
            t = strip(term)
            if kind == "limit":
                return t[0] == "binop" and t[1] in ("Ge", "Gt", "Eq") and (t[2] == cterm or t[3] == cterm)
            if kind == "user":
                return t[0] == "call" and t[1] == "http_request::Error::is_user"
            if kind == "poll":
                return t[0] == "call" and t[1].endswith("Option::<T>::is_some") and "server_dictated_poll_interval" in fmt_t(t)
            return False
        return pred
    gedges = {}
    for kind in ("limit", "user", "poll"):
        es = sm.bool_edges(S, is_guard(kind))
        gedges[kind] = [(a, b) for (a, b, truth) in es if not truth]
    required = {"HttpTransport": ("limit", "user", "poll"), "HttpStatus": ("limit", "poll")}
    all_ore = [e for e in sm.outcome_edges(S, ORE) if S.nodes[e[0]].ctx is hdr_ctx and e[0] in L]
    for v in variants:
        es = [e for e in sm.outcome_edges(S, ORE, v) if S.nodes[e[0]].ctx is hdr_ctx and e[0] in L]
        # a later test of the same error inside an arm (`matches!(&e, HttpTransport(x) if ..)`) has an `otherwise` edge that
        # names every other variant; for variant v only the edges count that can be reached while the error *is* v
        notv = [(a_, b_) for (a_, b_, n_) in all_ore if v not in n_]
        feas_ = reach(S, S.succ[req], cut_edges=notv)
        es = [e for e in es if e[0] in feas_]
        if not es:
            R.violation("C06-R2", "variant:" + v, "the attempt loop does not distinguish OmahaRequestError::%s (no match arm in the loop)" % v, S.nodes[req].loc())
            continue
        for (a, b, names) in es:
            back = req in reach(S, [b], cut_edges=notv)
            if v in NEVER_RETRIED:
                p = path(S, [b], [req], cut_edges=notv) if back else None
                R.check("C06-R2", "variant:" + v, not back, "%s ends the loop: no path back to the send" % v,
                        "%s failures are retried: path %s" % (v, S.fmt_path(p) if p else ""), S.nodes[a].loc())
            elif v in required:
                if not back:
                    R.violation("C06-R2", "variant:" + v, "%s is never retried (the property allows a further attempt after transient failures)" % v, S.nodes[a].loc())
                    continue
                for g in required[v]:
                    if not gedges[g]:
                        R.violation("C06-R2", "variant:%s:guard:%s" % (v, g), "no %s test in the attempt loop" % g, S.nodes[a].loc())
                        continue
                    still = req in reach(S, [b], cut_edges=gedges[g] + notv)
                    p = path(S, [b], [req], cut_edges=gedges[g] + notv) if still else None
                    R.check("C06-R2", "variant:%s:guard:%s" % (v, g), not still,
                            "retry after %s only through the false edge of the %s test" % (v, g),
                            "retry after %s possible without passing the %s test: %s" % (v, g, S.fmt_path(p) if p else ""), S.nodes[a].loc())
            else:
                R.inconclusive("C06-R2", "variant:" + v, "variant %s is not in the retry table of the property" % v)
    ok_edges = [e for e in sm.outcome_edges(S, "std::result::Result", "Ok") if S.nodes[e[0]].ctx is hdr_ctx and e[0] in L and ORE in hdr_ctx.bv.crate.types[hdr_ctx.bv.switch_subject(S.nodes[e[0]].bi)[1]]["s"]]
    for (a, b, names) in ok_edges:
        R.check("C06-R2", "variant:Ok", req not in reach(S, [b]), "success leaves the loop", "a successful exchange loops back to the send", S.nodes[a].loc())
    # ---------------------------------------------------------------- R3 back-off
    R.rule("C06-R3", "every retry path waits exactly once on Timer::wait_for with a duration that depends on the attempt counter and on an RNG")
    waits = [w for w in sm.env(S, "Timer", "wait_for") if w in L]
    cont = []  # edges that continue the loop after a failure = false edges of the limit test
    R.floor("C06-R3", "Timer::wait_for in the attempt loop", len(waits), 1)
    if waits:
        # every cycle through the send passes a wait
        succs_of_req = S.succ[req]
        cyc = req in reach(S, succs_of_req, cut_nodes=waits)
        p = path(S, succs_of_req, [req], cut_nodes=waits) if cyc else None
        R.check("C06-R3", "wait-on-every-retry", not cyc, "every path from one send to the next passes Timer::wait_for",
                "a retry without back-off wait exists: %s" % (S.fmt_path(p) if p else ""))
        R.check("C06-R3", "single-wait", len(waits) == 1, "one wait site", "several wait sites in the loop: %s" % [S.nodes[w].loc() for w in waits])
        for w in waits:
            nd = S.nodes[w]
            term = S.trace(nd, nd.term["args"][1])
            dep_counter = any(x == cterm for x in walk(term)) and any(x[0] == "binop" and x[1] in ("Shl", "ShlUnchecked", "Mul") for x in walk(term)) or any(x[0] == "call" and x[1].endswith("pow") for x in walk(term))
            rnd = False
            for x in walk(term):
                if x[0] == "call":
                    if x[1].startswith("rand::"):
                        rnd = True
                    else:
                        # local helper: does it reach the rand crate?
                        for b in c.bodies:
                            if b["kind"] == "fn" and b["name"] == x[1]:
                                for bid in census.reachable_bodies(sm.w, [b["id"]]):
                                    for _, t in sm.w.bv(bid).calls():
                                        if (t.get("callee") or "").startswith("rand::"):
                                            rnd = True
            R.check("C06-R3", "wait-depends-on-attempt", dep_counter, "duration term: " + fmt_t(term)[:160], "the back-off duration does not depend on the attempt counter: " + fmt_t(term)[:200], nd.loc())
            R.check("C06-R3", "wait-is-randomised", rnd, "duration passes through an RNG (rand::*)", "the back-off duration is deterministic (no rand::* on its provenance): " + fmt_t(term)[:200], nd.loc())
            # the wait is awaited before the next send: its future flows into an await immediately
    # ---------------------------------------------------------------- R4 what varies between attempts
    R.rule("C06-R4", "inside the attempt loop the only RequestBuilder transformer is request_id(GUID::new()) evaluated in the iteration; session id and payload are set before the loop")
    transformers = ("add_update_check", "add_ping", "add_event", "request_id", "session_id")
    inloop = {}
    for v in L:
        t = S.nodes[v].term
        # any builder method other than the consuming build() is a transformer (also ones added later, e.g. a params setter)
        if t["k"] == "call" and (t.get("callee") or "").startswith("request_builder::RequestBuilder") and t.get("name") not in ("build", "build_intermediate", "new") and S.nodes[v].ctx is hdr_ctx:
            inloop.setdefault(t["name"], []).append(v)
    R.check("C06-R4", "only-request-id", set(inloop) == {"request_id"}, "transformers in loop: %s" % sorted(inloop),
            "RequestBuilder transformers applied inside the attempt loop: %s (payload/session must not change between attempts; request id must)" % sorted(inloop))
    for v in inloop.get("request_id", []):
        nd = S.nodes[v]
        term = strip(S.trace(nd, nd.term["args"][1]))
        fresh = term[0] == "call" and term[1].endswith("GUID::new")
        site = None
        if fresh:
            site = [x.idx for x in S.nodes if x.ctx is nd.ctx and x.bi == term[3]]
        R.check("C06-R4", "fresh-request-id", fresh and site and site[0] in L, "request_id(GUID::new()) with GUID::new() evaluated inside the iteration",
                "request id of a retry is not a GUID::new() evaluated in the iteration: " + fmt_t(term)[:120], nd.loc())
    pre = {}
    for nd in S.nodes:
        if nd.idx in S.live and nd.ctx is hdr_ctx and nd.idx not in L:
            t = nd.term
            if t["k"] == "call" and (t.get("callee") or "").startswith("request_builder::RequestBuilder") and t.get("name") in transformers:
                if req in reach(S, [nd.idx]):
                    pre.setdefault(t["name"], []).append(nd.idx)
    # transformers applied inside closures evaluated before the loop (e.g. `apps.iter().fold(RequestBuilder::new(..), |b, a| b.add_update_check(a))`):
    # read them off the value that reaches the loop's send
    rq_call = [n for n in S.nodes if n.idx in L and n.ctx is hdr_ctx and n.term["k"] == "call" and n.term.get("name") == "do_omaha_request_and_update_context"]
    if rq_call and len(rq_call[0].term["args"]) > 1:
        from .. import terms as _terms
        bterm = _terms.render(hdr_ctx.bv, hdr_ctx.bv.trace_op(rq_call[0].term["args"][1]), sm.w, {})
        for nm in transformers:
            if nm + "(" in bterm and nm != "request_id":
                pre.setdefault(nm, [])
    R.check("C06-R4", "session-before-loop", "session_id" in pre and "add_update_check" in pre, "session_id/add_update_check/add_ping applied before the loop: %s" % sorted(pre),
            "session id or update-check payload is not set before the attempt loop: %s" % sorted(pre))
    # the setter really replaces the id (a setter that keeps the first id makes every retry reuse it)
    for setter, fld in (("request_id", "request_id"), ("session_id", "session_id")):
        sb_ = [b for b in lib.bodies(c, item=setter, impl_self="request_builder::RequestBuilder")]
        if not R.floor("C06-R4", "RequestBuilder::%s" % setter, len(sb_), 1):
            continue
        sv_ = BV.of(sb_[0])
        from .. import terms as _terms
        ret_ = strip(sv_.trace_local(0))
        got_ = None
        if ret_[0] == "agg" and len(ret_) > 4 and fld in ret_[4]:
            got_ = _terms.render(sv_, ret_[3][ret_[4].index(fld)], sm.w, {})
        else:
            ws_ = [(bi_, r_) for (bi_, si_, p_, r_) in sv_.field_writes if bi_ in sv_.reach0 and smod._chain(p_)[-1:] == [fld]]
            if len(ws_) == 1 and ws_[0][1]["k"] != "callret" and not [b_ for b_ in sv_.exits() if b_ in sv_.reach_from([0], avoid=[ws_[0][0]])]:
                got_ = _terms.render(sv_, sv_._trace_rv(ws_[0][1], None, 0), sm.w, {})
        R.check("C06-R4", "setter-replaces:" + setter, got_ == "Some{param2}", "%s(x) stores Some(x) unconditionally" % setter,
                "RequestBuilder::%s does not unconditionally store its argument (%s): a later call may keep an earlier id" % (setter, got_))
    # ---------------------------------------------------------------- R7 premise of "only while no poll interval is in force"
    R.rule("C06-R7", "premises shared with C07: every answered exchange records the server-dictated poll interval before the HTTP status is looked at (C07-R2), the recorded value is the header's (C07-R1) and a change is always stored in memory whatever the storage does (C07-R4) — so a failure that carries X-Retry-After ends the attempts, now and in later checks")
    from . import c07 as _c07
    from .. import report as _report
    _c07.run(F, _report.SubsetAlias(R, {"C07-R2": "C06-R7", "C07-R1": "C06-R7", "C07-R4": "C06-R7"}))
    # ---------------------------------------------------------------- R6 one send per built request outside the loop
    R.rule("C06-R6", "outside the attempt loop every request value is handed to the sending function by one call site only (event reports and pings are sent once): within one function invocation no two send call sites receive the same RequestBuilder value")
    sends = [n for n in S.nodes if n.idx in S.live and n.term["k"] == "call" and (n.term.get("name") == "do_omaha_request_and_update_context") and not smod.is_logging_span(n.term["sp"])]
    if R.floor("C06-R6", "call sites of the sending function", len(sends), 3):
        groups = {}
        ordn = {}
        for nd in sends:
            args = nd.term["args"]
            term = strip(S.trace(nd, args[1])) if len(args) > 1 else ("undef",)
            groups.setdefault((id(nd.ctx), repr(term)), []).append((nd, term))
        for (cx, _), pairs in sorted(groups.items(), key=lambda kv: kv[1][0][0].loc()):
            nds = [p[0] for p in pairs]
            term = pairs[0][1]
            sites = sorted(set(n.bi for n in nds))
            fn = nds[0].ctx.bv.body.get("item") or nds[0].ctx.bv.id.split("::")[-2]
            inl = any(n.idx in L for n in nds)
            ordn[fn] = ordn.get(fn, 0) + 1
            R.check("C06-R6", "one-send-site:%s:%s" % (fn, "loop" if inl else "#%d" % ordn[fn]), len(sites) == 1,
                    "request value sent from one call site", "the same request value is handed to the sending function at %d call sites of one invocation: %s" % (len(sites), [n.loc() for n in nds]), nds[0].loc())
    # ---------------------------------------------------------------- R5 metrics
    R.rule("C06-R5", "RequestsPerCheck carries the attempt counter and is reported exactly once after the loop; UpdateCheckResponseTime is reported in every iteration after the send")
    rpc = sm.metrics(S, "RequestsPerCheck")
    R.floor("C06-R5", "RequestsPerCheck report", len(rpc), 1)
    for m in rpc:
        nd = S.nodes[m]
        term = S.trace(nd, nd.term["args"][1])
        cnt = None
        for x in walk(term):
            if x[0] == "agg" and x[2] and x[2].endswith("Metrics::RequestsPerCheck"):
                names = x[4] if len(x) > 4 else []
                if "count" in names:
                    cnt = x[3][names.index("count")]
        R.check("C06-R5", "requests-per-check-count", cnt is not None and strip(cnt) == cterm, "count <- attempt counter", "RequestsPerCheck.count is not the attempt counter: %s" % (fmt_t(cnt) if cnt else None), nd.loc())
        R.check("C06-R5", "requests-per-check-after-loop", m not in L, "reported outside the loop", "RequestsPerCheck is reported inside the loop", nd.loc())
    if rpc:
        exits_of_loop = [w for v in L for w in S.succ[v] if w not in L]
        root_exits = S.root.returns
        # all paths from loop exit to check exit pass a RequestsPerCheck report (of the header context's function)
        hdr_returns = hdr_ctx.returns
        miss = reach(S, exits_of_loop, cut_nodes=rpc) & set(hdr_returns)
        p = path(S, exits_of_loop, list(miss), cut_nodes=rpc) if miss else None
        R.check("C06-R5", "requests-per-check-always", not miss, "every path leaving the loop reports RequestsPerCheck before the check function returns",
                "a path leaves the attempt loop without reporting RequestsPerCheck: %s" % (S.fmt_path(p) if p else ""))
    rt = [m for m in sm.metrics(S, "UpdateCheckResponseTime")]
    R.floor("C06-R5", "UpdateCheckResponseTime report", len(rt), 1)
    for m in rt:
        R.check("C06-R5", "response-time-in-loop", m in L, "reported per attempt", "UpdateCheckResponseTime is not reported inside the attempt loop", S.nodes[m].loc())
    if rt:
        # from the send, every path to the next send or to the loop exit passes the report, except through the
        # monotonic-clock-went-backwards arm (named exception: TimeSource contract)
        none_edges = []
        for (a, b, names) in sm.outcome_edges(S, "std::option::Option", "None"):
            # (the computation may sit in a helper spliced below the loop's function)
            if a in L and smod.descends(S.nodes[a].ctx, hdr_ctx) and "checked_duration_since" in fmt_t(S.nodes[a].ctx.bv.trace_place(S.nodes[a].ctx.bv.switch_subject(S.nodes[a].bi)[0])):
                none_edges.append((a, b))
        exits_of_loop = set(w for v in L for w in S.succ[v] if w not in L)
        tgt = exits_of_loop | {req}
        got = reach(S, S.succ[req], cut_nodes=rt, cut_edges=none_edges) & tgt
        p = path(S, S.succ[req], list(got), cut_nodes=rt, cut_edges=none_edges) if got else None
        R.check("C06-R5", "response-time-every-attempt", not got, "every attempt reports its response time (exception: monotonic clock moved backwards, excluded by the TimeSource contract; %d such edges)" % len(none_edges),
                "an attempt can complete without reporting UpdateCheckResponseTime: %s" % (S.fmt_path(p) if p else ""))
