"""C20 — Versions parse, print and order numerically (structural clauses)."""
import re
from ..core import BV, strip, walk, fmt_t
from .. import lib, guards, terms

V = "version::Version"


def _from_str_get_mut(R, c, bv, gm_stores):
    nexts = [(bi, t) for bi, t in bv.calls() if lib.callee_is(t, "std::iter::Iterator::next") and "Enumerate" in (t.get("resolved") or "")]
    if not R.floor("C20-R1", "Enumerate::next call", len(nexts), 1):
        return
    nbi = nexts[0][0]
    it = bv.trace_op(nexts[0][1]["args"][0])
    calls = [x for x in walk(it) if x[0] == "call"]
    names = [lib.norm(x[1]) for x in calls]
    sep = [lib.term_const(c, a) for x in calls if lib.norm(x[1]).endswith("::split") for a in x[2][1:]]
    R.check("C20-R1", "source", any(n.endswith("::split") for n in names) and any(n.endswith("Iterator::enumerate") for n in names) and sep == [46] and not any(n.split("::")[-1] in ("filter", "skip", "take", "rev", "step_by") for n in names),
            "iterator is enumerate(split('.'))", "iterator source is not enumerate(split('.')): %s sep=%s" % (names, sep))
    ps = [t2 for _, t2 in bv.calls() if lib.callee_is(t2, "parse")]
    for cb_ in lib.closures_of(c, bv.id):
        ps += [t2 for _, t2 in BV.of(cb_).calls() if lib.callee_is(t2, "parse")]
    by_path = "parse::<u32>" in fmt_t(it)   # `.map(str::parse::<u32>)`: the parser handed on as a function item
    R.check("C20-R1", "component-type", (len(ps) == 1 and [c.types[s_]["s"] for s_ in ps[0].get("substs", []) if isinstance(s_, int)] == ["u32"]) or (not ps and by_path), "components parsed with str::parse::<u32>", "component parser is not parse::<u32>")
    for (bi, si, p, r, gm) in gm_stores:
        arr = strip(gm[2][0])
        idx = strip(gm[2][1])
        s_i = fmt_t(idx)
        R.check("C20-R1", "index-is-enumerate-counter", idx[0] == "field" and idx[3] == 0 and "Iterator::next" in s_i, "index term: " + s_i, "store index is not the enumerate counter: " + s_i, lib.loc(bv, bi))
        val = strip(bv._trace_rv(r, None, 0))
        sv = fmt_t(val)
        okv = val[0] == "okpayload" and "parse" in sv and "Iterator::next" in sv and ".1" in sv
        R.check("C20-R1", "value-is-parsed-component", okv, "value term: " + sv[:160], "stored value is not the Ok payload of the parsed component: " + sv[:160], lib.loc(bv, bi))
        sws, on = guards.switches_between(bv, [nbi], bi)
        bad = []
        bound_ok = False
        for sb in sws:
            si_ = guards.switch_info(bv, sb)
            desc = fmt_t(si_.term)
            if si_.kind == "discr" and si_.ty.get("d") == "std::option::Option" and (lib.head_call(si_.term) or "").endswith("Iterator::next"):
                continue
            if si_.kind == "discr" and "std::ops::Try::branch" in desc and "::get_mut" in desc and "::ok_or" in desc:
                # `get_mut(i).ok_or(TooMany)?`: the Break edge is the out-of-range case and must leave the loop
                brk = [b for b in bv.succ[sb] if "Continue" not in si_.edge_names(bv, b)]
                bound_ok = bool(brk) and all(nbi not in bv.reach_from([b]) for b in brk)
                continue
            if si_.kind == "discr" and "std::ops::Try::branch" in desc:
                continue
            if si_.kind == "discr" and (lib.head_call(si_.term) or "").endswith("::get_mut"):
                # the store is on the Some edge; the None edge must leave with the too-many-parts error
                none_t = [b for b in bv.succ[sb] if "Some" not in si_.edge_names(bv, b)]
                leaves_ = all(nbi not in bv.reach_from([b]) for b in none_t)
                bound_ok = bool(none_t) and leaves_
                continue
            bad.append("%s at %s" % (desc[:80], lib.loc(bv, sb)))
        R.check("C20-R1", "store-unconditional", not bad, "store control-depends only on iterator exhaustion, the bounds lookup and the parse result", "store is control-dependent on: %s" % "; ".join(bad), lib.loc(bv, bi))
        R.check("C20-R1", "bounds", bound_ok, "the slot comes from get_mut(i): in bounds by construction, out of bounds leaves with an error", "an out-of-range component index does not end the parse with an error")
    R.floor("C20-R1", "stores through get_mut in from_str", len(gm_stores), 1)


def run(F, R):
    c = F.client
    R.trust("rustc MIR construction; core::str::parse::<u32>, str::split, Itertools::format, derive(Ord) on arrays")
    R.assume("numeric identities (parse(print(v)) = v for all v) are not decided; only the structural clauses below")

    # ---------------------------------------------------------------- R1 store discipline
    R.rule("C20-R1", "FromStr stores each parsed component at the enumerate counter, unconditionally on the non-error path, after the too-many-parts check; index proved < 4")
    bv = lib.one(R, "C20-R1", c, "FromStr::from_str for Version", item="from_str", impl_self=V, impl_trait="std::str::FromStr")
    if bv:
        R.count("bodies")
        stores = [(bi, si, p, r) for (bi, si, p, r) in bv.field_writes if any(e["k"] == "index" for e in p.get("p", [])) and bi in bv.reach0]
        # second spelling: `match parts.get_mut(i) { Some(part) => *part = component.parse::<u32>()?, None => return Err(TooMany..) }`
        gm_stores = []
        for (bi, si, p, r) in bv.field_writes:
            if bi in bv.reach0 and [e["k"] for e in p.get("p", [])] == ["deref"]:
                tgt = strip(bv.trace_local(p["l"]))
                if tgt[0] == "field" and tgt[1][0] == "downcast" and tgt[1][2] == "Some" and strip(tgt[1][1])[0] == "call" and lib.norm(strip(tgt[1][1])[1]).endswith("::get_mut"):
                    gm_stores.append((bi, si, p, r, strip(tgt[1][1])))
                elif tgt[0] == "okpayload" and strip(tgt[1])[0] == "call" and lib.norm(strip(tgt[1])[1]).endswith("::ok_or") and strip(strip(tgt[1])[2][0])[0] == "call" and lib.norm(strip(strip(tgt[1])[2][0])[1]).endswith("::get_mut"):
                    # `let slot = parts.get_mut(i).ok_or(TooMany)?; *slot = ..`
                    gm_stores.append((bi, si, p, r, strip(strip(tgt[1])[2][0])))
        if not stores and gm_stores:
            _from_str_get_mut(R, c, bv, gm_stores)
        elif R.floor("C20-R1", "indexed stores in from_str", len(stores), 1):
            # the loop: Iterator::next on Enumerate
            nexts = [(bi, t) for bi, t in bv.calls() if lib.callee_is(t, "std::iter::Iterator::next")]
            nexts = [(bi, t) for bi, t in nexts if "Enumerate" in (t.get("resolved") or "")]
            if R.floor("C20-R1", "Enumerate::next call", len(nexts), 1):
                nbi = nexts[0][0]
                # the enumerate source must be split('.') . map(parse::<u32>)
                it = bv.trace_op(nexts[0][1]["args"][0])
                calls = [x for x in walk(it) if x[0] == "call"]
                names = [lib.norm(x[1]) for x in calls]
                ok_src = any(n.endswith("::split") for n in names) and any(n.endswith("Iterator::enumerate") for n in names)
                sep = [lib.term_const(c, a) for x in calls if lib.norm(x[1]).endswith("::split") for a in x[2][1:]]
                R.check("C20-R1", "source", ok_src and sep == [46],
                        "iterator is enumerate(map(split('.'), parse))", "iterator source is not enumerate(split('.')): %s sep=%s" % (names, sep))
                # element parser: closure passed to map must be str::parse::<u32>
                parse_ok = False
                for cb in lib.closures_of(c, bv.id):
                    for bi2, t2 in BV.of(cb).calls():
                        if lib.callee_is(t2, "parse"):
                            ts = [c.types[s]["s"] for s in t2.get("substs", []) if isinstance(s, int)]
                            parse_ok = ts == ["u32"]
                R.check("C20-R1", "component-type", parse_ok, "components parsed with str::parse::<u32>", "component parser is not parse::<u32>")
                for (bi, si, p, r) in stores:
                    idx = [e for e in p["p"] if e["k"] == "index"][0]
                    it = strip(bv.trace_local(idx["l"]))
                    # expect field .0 of (Some payload of next())
                    s = fmt_t(it)
                    ok = it[0] == "field" and it[3] == 0 and "Iterator::next" in s and "Enumerate" not in s or ("Iterator::next" in s and it[0] == "field" and it[3] == 0)
                    R.check("C20-R1", "index-is-enumerate-counter", ok, "index term: " + s, "store index is not the enumerate counter: " + s, lib.loc(bv, bi))
                    val = strip(bv._trace_rv(r, None, 0))
                    sv = fmt_t(val)
                    okv = val[0] == "okpayload" and val[1][0] == "field" and val[1][3] == 1 and "Iterator::next" in sv
                    R.check("C20-R1", "value-is-parsed-component", okv, "value term: " + sv, "stored value is not the Ok payload of the parsed component: " + sv, lib.loc(bv, bi))
                    # control dependence between the loop's next() and the store
                    sws, on = guards.switches_between(bv, [nbi], bi)
                    bad = []
                    bound_ok = False
                    for sb in sws:
                        si_ = guards.switch_info(bv, sb)
                        st = strip(si_.term)
                        desc = fmt_t(si_.term)
                        if si_.kind == "discr" and "Iterator::next" in desc and si_.ty.get("d") == "std::option::Option":
                            continue
                        if si_.kind == "discr" and "std::ops::Try::branch" in desc:
                            continue
                        if si_.kind == "bool" and st[0] == "binop" and st[1] == "Ge":
                            lim = lib.term_const(c, st[3])
                            if lim == 4 and "Iterator::next" in fmt_t(st[2]):
                                # store must be on the false edge
                                tgt_false = [b for v, b in si_.arms if v == 0]
                                if tgt_false and bi in bv.reach_from(tgt_false) and bi not in bv.reach_from([b for b in bv.succ[sb] if b not in tgt_false], avoid=[nbi]):
                                    bound_ok = True
                                    continue
                        bad.append("%s at %s" % (desc, lib.loc(bv, sb)))
                    R.check("C20-R1", "store-unconditional", not bad,
                            "store control-depends only on iterator exhaustion, the part-count check and the parse result",
                            "store is control-dependent on: %s" % "; ".join(bad), lib.loc(bv, bi))
                    R.check("C20-R1", "bounds", bound_ok, "index < 4 on every path to the store (i >= 4 returns an error first)",
                            "no `i >= 4` early error dominating the store: the index is not proved in bounds")
    # ---------------------------------------------------------------- R2 printing
    R.rule("C20-R2", "Display prints all four components in order joined by '.', Debug delegates to Display")
    d = lib.one(R, "C20-R2", c, "Display for Version", item="fmt", impl_self=V, impl_trait="std::fmt::Display")
    if d:
        R.count("bodies")
        fm = lib.has_call(d, "itertools::Itertools::format")
        ok = False
        det = "no Itertools::format call"
        if fm:
            t = fm[0][1]
            src = d.trace_op(t["args"][0])
            sep = d.trace_op(t["args"][1])
            sepv = lib.term_const(c, strip(sep))
            s = fmt_t(src)
            sliced = any(x[0] in ("subslice", "index", "cindex") or (x[0] == "call" and any(k in x[1] for k in ("skip", "take", "rev", "get", "split", "index"))) for x in walk(src))
            ok = sepv == "." and "iter" in s and "param1" in s and not sliced
            det = "format(%s, %r)" % (s, sepv)
        R.check("C20-R2", "display", ok, det, "Display is not `self.0.iter().format(\".\")`: " + det)
    g = lib.one(R, "C20-R2", c, "Debug for Version", item="fmt", impl_self=V, impl_trait="std::fmt::Debug")
    if g:
        cs = [t for _, t in g.calls()]
        ok = len(cs) == 1 and lib.callee_is(cs[0], "std::fmt::Display::fmt") and V in (cs[0].get("resolved") or "")
        R.check("C20-R2", "debug-delegates", ok, "Debug::fmt calls only <Version as Display>::fmt", "Debug does not delegate to Display")
    # ---------------------------------------------------------------- R3 serde
    R.rule("C20-R3", "Serialize emits exactly the Display string; Deserialize requests a string and parses it with FromStr")
    s = lib.one(R, "C20-R3", c, "Serialize for Version", item="serialize", impl_self=V, impl_trait=None, name_contains="Serialize")
    if s:
        ss = lib.has_call(s, "serde::Serializer::serialize_str")
        ok = False
        det = "no serialize_str"
        if ss:
            a = strip(s.trace_op(ss[0][1]["args"][1]))
            det = fmt_t(a)
            ok = a[0] == "call" and a[1] == "std::string::ToString::to_string" and strip(a[2][0]) == ("param", 1)
        others = [lib.norm(t.get("callee", "")) for _, t in s.calls() if "Serializer::" in lib.norm(t.get("callee", ""))]
        R.check("C20-R3", "serialize", ok and others == ["serde::Serializer::serialize_str"], "serialize_str(self.to_string())", "Serialize is not serialize_str(self.to_string()): %s %s" % (det, others))
    dz = lib.one(R, "C20-R3", c, "Deserialize for Version", item="deserialize", impl_self=V, name_contains="Deserialize")
    if dz:
        cs = [lib.norm(t.get("callee", "")) for _, t in dz.calls()]
        R.check("C20-R3", "deserialize", cs == ["serde::Deserializer::deserialize_str"], "deserialize_str(VersionVisitor)", "Deserialize does not request a str: %s" % cs)
    vs = lib.bodies(c, item="visit_str", impl_self="version::VersionVisitor")
    if not vs:
        other_v = sorted(b["item"] for b in c.bodies if (b.get("impl_self") or "") == "version::VersionVisitor" and (b.get("item") or "").startswith("visit_"))
        if other_v:
            # the visitor exists but does not take the general string case: serde hands `visit_str` a string it cannot lend
            # (escapes, from_reader, from_value), and the default `visit_str` rejects it
            R.violation("C20-R3", "visit_str", "VersionVisitor implements %s but not visit_str: version strings that the deserializer cannot borrow (escaped, streamed, from a Value) are rejected" % other_v)
    if vs or not [b for b in c.bodies if (b.get("impl_self") or "") == "version::VersionVisitor"]:
      if R.floor("C20-R3", "VersionVisitor::visit_str", len(vs), 1):
          v = BV.of(vs[0])
          fs = lib.has_call(v, "std::str::FromStr::from_str")
          ok = bool(fs) and V in (fs[0][1].get("resolved") or "") and strip(v.trace_op(fs[0][1]["args"][0])) == ("param", 2)
          ret = strip(v.trace_local(0))
          ok = ok and ret[0] == "call" and ret[1].endswith("map_err") and strip(ret[2][0])[0] == "call"
          R.check("C20-R3", "visit_str", ok, "visit_str = Version::from_str(v).map_err(custom)", "visit_str does not return FromStr::from_str(v)")
          visitors = [b["item"] for b in c.bodies if (b.get("impl_self") or "") == "version::VersionVisitor" and b["item"].startswith("visit_")]
          R.check("C20-R3", "only-visit_str", visitors == ["visit_str"], "the visitor accepts strings only", "visitor accepts other inputs: %s" % visitors)
    # ---------------------------------------------------------------- R4 ordering
    R.rule("C20-R4", "Eq/Ord for Version are the compiler-derived impls over the single field [u32; 4]")
    adt = c.adts.get(V)
    if R.floor("C20-R4", "Version ADT", 1 if adt else 0, 1):
        f = adt["variants"][0]["fields"]
        lay = c.types[f[0]["t"]]["s"] if len(f) == 1 else ""
        m_ = re.fullmatch(r"\[u32; ([A-Za-z_:0-9]+)\]", lay)
        if m_ and not m_.group(1).isdigit():
            # a named length: evaluate it
            kk = [k_ for k_ in c.consts if k_ == m_.group(1) or k_.endswith("::" + m_.group(1))]
            kv = lib.const_val(c.consts[kk[0]]) if len(kk) == 1 else None
            if kv is None and len(kk) == 1:
                mm = re.search(r"(\d+)", c.consts[kk[0]].get("s", ""))
                kv = int(mm.group(1)) if mm else None
            lay = "[u32; %s]" % kv
        R.check("C20-R4", "layout", len(f) == 1 and lay == "[u32; 4]", "struct Version([u32; 4])", "Version is not a single [u32; 4] field: %s" % [c.types[x["t"]]["s"] for x in f])
        for tr in ("std::cmp::PartialEq", "std::cmp::Eq", "std::cmp::PartialOrd", "std::cmp::Ord"):
            im = [i for i in c.impls if i.get("trait") == tr and i["self"] == V]
            okd = len(im) == 1 and im[0]["derived"]
            how = "derived"
            if len(im) == 1 and not okd:
                # hand-written but delegating to the component array (whose own impls are the lexicographic ones)
                meth = {"std::cmp::PartialEq": "eq", "std::cmp::PartialOrd": "partial_cmp", "std::cmp::Ord": "cmp"}.get(tr)
                if meth is None:
                    okd, how = not im[0].get("items"), "marker impl"
                else:
                    mb = [b for b in lib.bodies(c, item=meth, impl_self=V, impl_trait=tr)]
                    others_ = [i_ for i_ in im[0].get("items", []) if i_.get("kind") == "AssocFn" and i_.get("name") != meth]
                    if len(mb) == 1 and not others_:
                        mv = BV.of(mb[0])
                        from .. import flow as _flow
                        r_ = terms.render(mv, mv.trace_local(0), _flow.World([c]), {1: "a", 2: "b"})
                        accepted = {"eq": ("eq(a.0, b.0)", "Eq(a.0, b.0)"), "cmp": ("cmp(a.0, b.0)",), "partial_cmp": ("Some{cmp(a, b)}", "partial_cmp(a.0, b.0)", "Some{cmp(a.0, b.0)}")}[meth]
                        okd, how = r_.replace("*", "").replace("&", "") in accepted, "hand-written, delegates to the [u32; 4] field: " + r_
                    else:
                        how = "hand-written with %d bodies / extra methods %s" % (len(mb), [i_.get("name") for i_ in others_])
            R.check("C20-R4", "derived:" + tr, okd, how, "%s for Version is neither #[derive]d nor a plain delegation to the component array (%s)" % (tr, how))
    # ---------------------------------------------------------------- R5 zero fill
    R.rule("C20-R5", "From<[u32; N]> copies into the prefix of a zero-initialised [u32; 4]")
    fr = [b for b in lib.bodies(c, item="from", impl_self=V, impl_trait="std::convert::From")]
    if R.floor("C20-R5", "From<[u32;N]> impls", len(fr), 4):
        for b in fr:
            v = BV.of(b)
            src = c.types[b["inputs"][0]]["s"]
            ret = strip(v.trace_local(0))
            ok = ret[0] == "agg" and ret[2] == V + "::Version"
            arr = None
            for bi, si, kind, x in v.defs.get(2, []) if ok else []:
                pass
            zero = any(s["k"] == "assign" and s["r"]["k"] == "repeat" and lib.const_val(s["r"]["o"].get("k", {})) == 0 and s["r"]["n"].startswith("4") for bl in v.blocks for s in bl["s"])
            sp = lib.has_call(v, "split_at_mut")
            cp = lib.has_call(v, "copy_from_slice")
            ixm = lib.has_call(v, "index_mut")
            if ok and zero and not sp and len(ixm) == 1 and len(cp) == 1:
                # parts[..v.len()].copy_from_slice(&v)
                ix = strip(v.trace_op(ixm[0][1]["args"][1]))
                okr = ix[0] == "agg" and (ix[2] or "").endswith("RangeTo") and len(ix[3]) == 1
                if okr:
                    e_ = strip(ix[3][0])
                    okr = e_[0] == "call" and e_[1].endswith("len") and ("param", 1) in [strip(x) for x in walk(e_)]
                dst = v.trace_op(cp[0][1]["args"][0])
                okr = okr and any(x[0] == "call" and x[1].endswith("index_mut") for x in walk(dst))
                okr = okr and ("param", 1) in [strip(x) for x in walk(v.trace_op(cp[0][1]["args"][1]))]
                R.check("C20-R5", "from:" + src, okr, "[0;4][..v.len()].copy_from_slice(&v)", "From<%s> does not zero-fill a prefix copy" % src)
                continue
            ok = ok and zero and len(sp) == 1 and len(cp) == 1
            if ok:
                mid = strip(v.trace_op(sp[0][1]["args"][1]))
                ok = mid[0] == "call" and mid[1].endswith("len") and ("param", 1) in [strip(x) for x in walk(mid)]
                dst = v.trace_op(cp[0][1]["args"][0])
                ok = ok and any(x[0] == "field" and x[3] == 0 for x in walk(dst))
                srcop = strip(cp[0][1]["args"][1] and v.trace_op(cp[0][1]["args"][1]))
                ok = ok and ("param", 1) in [strip(x) for x in walk(v.trace_op(cp[0][1]["args"][1]))]
            R.check("C20-R5", "from:" + src, ok, "[0;4].split_at_mut(v.len()).0.copy_from_slice(&v)", "From<%s> does not zero-fill a prefix copy" % src)
