"""C01 — CUP verification accepts exactly the authentic responses (structural clauses)."""
from ..core import BV, strip, walk, fmt_t
from .. import lib, guards, terms, flow, census

H = "cup_ecdsa::StandardCupv2Handler"
NOERR = set(terms.TRANSPARENT) | {"std::result::Result::<T, E>::map_err", "std::option::Option::<T>::ok_or", "std::option::Option::<T>::ok_or_else", "std::ops::Try::branch"}
# oracle: the digest formula of the property statement
EXPECTED_DIGEST = ("Sha256", ["Sha256::digest(request_body)", "Sha256::digest(response_body)", "fmt('{0}:{1}', display(key_id), display(nonce))"])


def success_edges(bv, pred):
    """Edges on which a `?` / match on a Result/Option continues with the value, for switches whose
    subject's producing call satisfies pred(head callee, SwitchInfo)."""
    out = []
    for bi in sorted(bv.reach0):
        si = guards.switch_info(bv, bi)
        if si is None or si.kind != "discr" or len(bv.succ[bi]) < 2:
            continue
        h = lib.head_call(si.term)
        if not h or not pred(h, si):
            continue
        for b in bv.succ[bi]:
            nm = si.edge_names(bv, b)
            if any(x in ("Continue", "Ok", "Some") for x in nm):
                out.append((bi, b))
    return out


def nonce_display(R, rule, c, W):
    """Display for Nonce prints hex::encode of all 32 bytes (64 lower-case hex digits); shared by C01 (digest component) and
    C03 (cup2key value).  Returns the body view (or None)."""
    nd = lib.one(R, rule, c, "Display for Nonce", item="fmt", impl_self="cup_ecdsa::Nonce", impl_trait="std::fmt::Display")
    if nd:
        wf = [t for _, t in nd.calls() if lib.callee_is(t, "write_fmt")]
        ok = False
        det = ""
        if wf:
            ft = terms.format_term(nd, nd.trace_op(wf[0]["args"][1]))
            if ft:
                det = "%s %s" % (ft[0], [terms.render(nd, a, W, {1: "self"}) for _, a in ft[1]])
                ok = ft[0] == "{0}" and [terms.render(nd, a, W, {1: "self"}) for _, a in ft[1]] == ["encode(self.0)"] and [k for k, _ in ft[1]] == ["display"]
        R.check(rule, "nonce-display", ok, det, "Nonce prints as %s, expected hex::encode(self.0)" % det)
        adt = c.adts.get("cup_ecdsa::Nonce")
        R.check(rule, "nonce-width", adt and c.types[adt["variants"][0]["fields"][0]["t"]]["s"] == "[u8; 32]", "Nonce([u8; 32])", "Nonce is not 32 bytes")

    return nd


def key_map_registers_all(nw, W):
    """Does StandardCupv2Handler::new register (id -> key) for the latest key and for every historical key?
    Recognised spellings: once(latest).chain(historical).map(|k| (k.id, k.key)).collect(), and HashMap::new() followed by
    insert(latest.id, latest.key) plus a loop over keys.historical inserting (k.id, k.key) that only ends by exhaustion.
    -> (True/False/None for an unknown spelling, detail)"""
    t = nw.trace_local(0)
    agg = [x for x in walk(t) if x[0] == "agg" and x[2] and x[2].endswith("StandardCupv2Handler::StandardCupv2Handler")]
    if not agg:
        return None, "no StandardCupv2Handler aggregate"
    nm = agg[0][4]
    mp = terms.render(nw, agg[0][3][nm.index("parameters_by_id")], W, {1: "keys"})
    if mp.startswith("collect"):
        return ("chain(once(keys.latest), keys.historical)" in mp and "|$1| tuple{$1.id, $1.key}" in mp), mp[:160]
    ins = [(bi, tt) for bi, tt in nw.calls() if lib.norm(tt.get("callee") or "").endswith("::insert") and "HashMap" in (tt.get("callee") or "")]
    if mp.startswith("new(") or mp == "new()" or ins:
        pairs = set()
        loops = nw.sccs()
        for bi, tt in ins:
            k_ = terms.render(nw, nw.trace_op(tt["args"][1]), W, {1: "keys"})
            v_ = terms.render(nw, nw.trace_op(tt["args"][2]), W, {1: "keys"})
            pairs.add((k_, v_, any(bi in L_ for L_ in loops)))
        latest = ("keys.latest.id", "keys.latest.key", False) in pairs
        hist = [p_ for p_ in pairs if p_[2] and p_[0].endswith("@Some.0.id") and p_[1].endswith("@Some.0.key") and "keys.historical" in p_[0] and p_[0][:-3] == p_[1][:-4]]
        exhaustive = True
        for L_ in loops:
            for a_ in L_:
                for b_ in nw.succ[a_]:
                    if b_ not in L_:
                        si = guards.switch_info(nw, a_)
                        if not (si is not None and si.kind == "discr" and (lib.head_call(si.term) or "").endswith("Iterator::next") and si.edge_names(nw, b_) == ["None"]):
                            exhaustive = False
        filt = any(w_ in p_[0] for p_ in hist for w_ in ("filter(", "skip(", "take(", "step_by("))
        return (latest and len(hist) == 1 and len(pairs) == 2 and exhaustive and not filt), "inserts: %s" % sorted(pairs)
    return None, mp[:160]


def verifier_gate(R, rule, vs):
    """Ok(()) of verify_response_with_signature is dominated by the success edges of the key lookup and of the
    ECDSA verification under that key (shared by C01 and, as the premise of the state machine's typestate, C02)."""
    oks2 = [bi for bi in sorted(vs.reach0) for s_ in vs.blocks[bi]["s"] if s_["k"] == "assign" and not s_["p"].get("p") and s_["p"]["l"] == 0 and s_["r"]["k"] == "agg" and s_["r"].get("vn") == "Ok"]
    # other producers of the return value: anything but an explicit Err / `?` residual must be the verification itself
    OKNESS_PRESERVING = ("std::result::Result::<T, E>::map_err", "std::result::Result::<T, E>::map")
    direct = []
    for a in lib.alts(vs.trace_local(0)):
        if a[0] == "agg":
            continue
        x = a
        while x[0] == "call" and x[1] in OKNESS_PRESERVING and x[2]:
            x = x[2][0]
            while x[0] in ("ref", "deref"):
                x = x[1]
        if x[0] == "call" and lib.norm(x[1]).endswith("FromResidual::from_residual"):
            continue
        if x[0] == "call" and lib.norm(x[1]).endswith("Verifier::verify"):
            direct.append(x[3])
            continue
        R.violation(rule, "verifier:ok-producer", "the verifier's result is produced by `%s`, which can turn a failed verification into Ok" % (lib.norm(x[1]) if x[0] == "call" else fmt_t(x)[:80]))
    oks_agg = list(oks2)
    oks2 = oks2 + direct
    if R.floor(rule, "Ok returns in the verifier", len(oks2), 1):
        for name, pred in (("key-registered", lambda h, si: "HashMap::" in h and h.endswith("::get")), ("ecdsa-verify", lambda h, si: h.endswith("Verifier::verify"))):
            es = success_edges(vs, pred)
            if name == "ecdsa-verify":
                # a result handed on as the verification's own Result (only its error mapped) is Ok exactly when the verification is
                R.check(rule, "verifier:" + name, (es or (direct and not oks_agg)) and all(vs.dominated_by_edge(o, es) for o in oks_agg), "Ok(()) only when `%s` succeeded" % name, "the verifier can return Ok without `%s`" % name)
            else:
                R.check(rule, "verifier:" + name, es and all(vs.dominated_by_edge(o, es) for o in oks2), "Ok(()) is dominated by `%s`" % name, "the verifier can return Ok without `%s`" % name)
        # exactly one signature verification, under the key that was looked up with the request's key id
        vcalls = [(bi, t) for bi, t in vs.calls() if (lib.norm(t.get("callee") or "")).endswith("Verifier::verify")]
        inner = [b2 for b2 in vs.crate.bodies if b2.get("parent") == vs.id and any((lib.norm(t.get("callee") or "")).endswith("Verifier::verify") for _, t in BV.of(b2).calls())]
        R.check(rule, "verifier:single-verification", len(vcalls) == 1 and not inner, "one Verifier::verify call, none in closures", "the verifier performs %d signature verifications (+%d in closures): a signature may be accepted under a key other than the one named by the request" % (len(vcalls), len(inner)))


def accept_gates(R, rule, W, vr):
    """Control gates and provenance of StandardCupv2Handler::verify_response (shared by C01-R1 and, as premise, C02-R0)."""
    from .. import optnorm
    from ..sm import reach_pf
    names_vr = {1: "self", 2: "metadata", 3: "resp", 4: "key_id"}
    KEEP = lambda n: n in ("parse_etag", "make_transaction_hash")
    # borrow/ownership/whole-slice adapters do not change what is compared or verified
    canon_of = lambda bv_, tm: census._strip_adapters(optnorm.canon(terms.render(bv_, optnorm.inline_all(W, bv_, tm, KEEP), W, names_vr, transparent=NOERR)))
    ETAG_T = "parse_etag(to_str(get(headers(resp), http::header::ETAG)@OK)@OK)"
    EXP_HASH = "decode(split_once(%s, 58)@OK.1)@OK" % ETAG_T
    EXP_SIG = "from_bytes(decode(split_once(%s, 58)@OK.0)@OK)@OK" % ETAG_T
    EXP_DIGEST = "Sha256::digest(metadata.request_body)"
    S1 = flow.Super(W, vr.id)
    live1 = S1.reach([S1.root.entry])
    oks = [n.idx for n in S1.nodes if n.ctx is S1.root and n.idx in live1 and any(s_["k"] == "assign" and not s_["p"].get("p") and s_["p"]["l"] == 0 and s_["r"]["k"] == "agg" and s_["r"].get("vn") == "Ok" for s_ in n.block["s"])]
    if R.floor(rule, "Ok returns in verify_response", len(oks), 1):
        # (a) control: the comparison
        eq_edges = []
        cmp_nodes = []
        for n in S1.nodes:
            t = n.term
            if n.idx not in live1 or t["k"] != "switch" or n.ctx.bv.switch_subject(n.bi) is not None or n.ctx.bv.crate.types[t["ot"]]["s"] != "bool":
                continue
            term = n.ctx.bv.trace_op(t["o"])
            flip = False
            while term[0] == "unop" and term[1] == "Not":
                term = term[2]
                flip = not flip
            if not (term[0] == "call" and term[1] in ("std::cmp::PartialEq::ne", "std::cmp::PartialEq::eq")):
                continue
            sides = sorted(canon_of(n.ctx.bv, S1.resolve(n.ctx, a_)) for a_ in term[2])
            if EXP_DIGEST not in sides:
                continue
            cmp_nodes.append((n, sides))
            for b in S1.succ[n.idx]:
                for l_ in S1.elabel.get((n.idx, b), []):
                    if l_[0] == "switch" and l_[1] == n.bi:
                        truth = ((l_[2] != 0) != flip)
                        if truth == term[1].endswith("::eq"):
                            eq_edges.append((n.idx, b))
        if R.floor(rule, "comparison of the request-body digest", len(cmp_nodes), 1):
            r_ = reach_pf(S1, [S1.root.entry], cut_edges=eq_edges)
            R.check(rule, "check:hash-matches", eq_edges and not (set(oks) & r_), "Ok is reachable only through the equal edge of the request-hash comparison", "a response can be accepted without the request hash matching", cmp_nodes[0][0].loc())
            other = [x for x in cmp_nodes[0][1] if x != EXP_DIGEST]
            R.check(rule, "compared-hash", other == [EXP_HASH], "digest(request body) == %s" % EXP_HASH,
                    "the request-body digest is compared with %s, expected %s (whole Ok payload of hex-decoding the hash half of this response's ETag)" % ([o[:200] for o in other], EXP_HASH), cmp_nodes[0][0].loc())
        # (b) control + data: the signature verification
        ver_edges = []
        ver_calls = []
        for n in S1.nodes:
            if n.idx not in live1:
                continue
            t = n.term
            if t["k"] == "call" and lib.callee_is(t, "cup_ecdsa::Cupv2Verifier::verify_response_with_signature"):
                ver_calls.append(n)
            if t["k"] != "switch":
                continue
            si = guards.switch_info(n.ctx.bv, n.bi)
            if si is None or si.kind != "discr" or not (lib.head_call(si.term) or "").endswith("Cupv2Verifier::verify_response_with_signature"):
                continue
            for b in S1.succ[n.idx]:
                nm = [si.names.get(l_[2], str(l_[2])) for l_ in S1.elabel.get((n.idx, b), []) if l_[0] == "switch" and l_[1] == n.bi]
                if any(x in ("Continue", "Ok") for x in nm):
                    ver_edges.append((n.idx, b))
        if R.floor(rule, "calls of the signature verifier", len(ver_calls), 1):
            r_ = reach_pf(S1, [S1.root.entry], cut_edges=ver_edges)
            R.check(rule, "check:signature-verifies", ver_edges and not (set(oks) & r_), "Ok is reachable only through the success edge of verify_response_with_signature", "a response can be accepted without its signature having been verified", ver_calls[0].loc())
            R.check(rule, "single-verification", len(ver_calls) == 1, "one verification call", "%d verification calls" % len(ver_calls))
            sig = canon_of(ver_calls[0].ctx.bv, S1.trace(ver_calls[0], ver_calls[0].term["args"][1]))
            R.check(rule, "verified-signature", sig == EXP_SIG, "verified signature = " + EXP_SIG, "the verified signature is %s, expected %s" % (sig[:220], EXP_SIG), ver_calls[0].loc())
            # verification comes after the hash comparison: the verifier is not even consulted for a mismatching hash
            r2 = reach_pf(S1, [S1.root.entry], cut_edges=eq_edges)
            R.check(rule, "order:hash-matches<signature-verifies", eq_edges and not any(v.idx in r2 for v in ver_calls), "hash comparison before signature verification", "the signature is verified on a path that has not passed the request-hash comparison")
    return {"canon_of": canon_of, "EXP_DIGEST": EXP_DIGEST, "EXP_HASH": EXP_HASH, "EXP_SIG": EXP_SIG, "names_vr": names_vr, "oks": oks}


def run(F, R):
    c = F.client
    W = flow.World([c])
    R.trust("p256/ecdsa signature verification, sha2, hex::decode, http::HeaderValue::to_str")
    R.assume("cryptographic validity and the 'if' direction (every authentic response is accepted) are not decided; panics inside hex/p256/ecdsa are out of scope")
    vr = lib.one(R, "C01-R1", c, "verify_response impl for StandardCupv2Handler", item="verify_response", impl_self=H, impl_trait="cup_ecdsa::Cupv2RequestHandler")
    vs = lib.one(R, "C01-R1", c, "verify_response_with_signature impl", item="verify_response_with_signature", impl_self=H, impl_trait="cup_ecdsa::Cupv2Verifier")
    mth = lib.one(R, "C01-R3", c, "make_transaction_hash", item="make_transaction_hash", kind="fn", name_contains="cup_ecdsa::make_transaction_hash")
    pe = lib.one(R, "C01-R6", c, "parse_etag", item="parse_etag", kind="fn")
    if not (vr and vs and mth and pe):
        return
    R.count("bodies", 4)

    # ---------------------------------------------------------------- R1 accept path gated by every check
    R.rule("C01-R1", "Ok(signature) is returned only behind the equal edge of the request-hash comparison and the success edge of the signature verification (path rule over verify_response and the helpers it calls); the compared hash and the verified signature are the Ok payloads of hex(hash half) / DER(hex(signature half)) of the ETag header of this response split at ':' (a payload exists only on the success edge of its check, so presence, text, split, hex and DER checks are implied); the verifier's Ok passes key lookup and ECDSA verify")
    g_ = accept_gates(R, "C01-R1", W, vr)
    canon_of, EXP_DIGEST, EXP_HASH, EXP_SIG, names_vr, oks = g_["canon_of"], g_["EXP_DIGEST"], g_["EXP_HASH"], g_["EXP_SIG"], g_["names_vr"], g_["oks"]
    from .. import optnorm
    verifier_gate(R, "C01-R1", vs)

    # ---------------------------------------------------------------- R2 argument positions
    R.rule("C01-R2", "request body, response body, key id and nonce reach the verifier, the digest and the key lookup in their own positions; the key map holds latest and historical keys")
    names_vr = {1: "self", 2: "metadata", 3: "resp", 4: "key_id"}
    call = [t for _, t in vr.calls() if lib.callee_is(t, "cup_ecdsa::Cupv2Verifier::verify_response_with_signature")]
    if R.floor("C01-R2", "call of the verifier", len(call), 1):
        args = [terms.render(vr, vr.trace_op(a), W, names_vr, transparent=NOERR) for a in call[0]["args"]]
        exp = ["self", None, "metadata.request_body", "body(resp)", "key_id", "metadata.nonce"]
        ok = all(e is None or e == a for e, a in zip(exp, args)) and "from_bytes(" in args[1] and "decode(" in args[1] and args[1].rstrip(")").endswith(".0@Continue.0") is False or (all(e is None or e == a for e, a in zip(exp, args)) and "from_bytes(" in args[1])
        R.check("C01-R2", "verifier-arguments", ok, str(args[2:]), "verifier called with %s, expected (signature, metadata.request_body, resp.body(), key id, metadata.nonce)" % args[1:])
    names_vs = {1: "self", 2: "signature", 3: "request_body", 4: "response_body", 5: "key_id", 6: "nonce"}
    call = [t for _, t in vs.calls() if lib.callee_is(t, "cup_ecdsa::make_transaction_hash")]
    if R.floor("C01-R2", "call of make_transaction_hash", len(call), 1):
        args = [terms.render(vs, vs.trace_op(a), W, names_vs, transparent=NOERR) for a in call[0]["args"]]
        R.check("C01-R2", "digest-arguments", args == ["request_body", "response_body", "key_id", "nonce"], str(args), "make_transaction_hash called with %s" % args)
    vcall = [t for _, t in vs.calls() if lib.callee_is(t, "signature::Verifier::verify", "Verifier::verify")]
    if R.floor("C01-R2", "ECDSA verify call", len(vcall), 1):
        a = [terms.render(vs, vs.trace_op(x), W, names_vs, transparent=NOERR) for x in vcall[0]["args"]]
        okk = "get(self.parameters_by_id, key_id)" in a[0] and a[1] == "make_transaction_hash(request_body, response_body, key_id, nonce)" and "signature" in a[2]
        R.check("C01-R2", "verify-arguments", okk, str(a)[:200], "ECDSA verify is called with key=%s digest=%s sig=%s" % (a[0][:80], a[1][:80], a[2][:80]))
    nw = lib.one(R, "C01-R2", c, "StandardCupv2Handler::new", item="new", impl_self=H)
    if nw:
        t = nw.trace_local(0)
        agg = [x for x in walk(t) if x[0] == "agg" and x[2] and x[2].endswith("StandardCupv2Handler::StandardCupv2Handler")]
        if agg:
            nm = agg[0][4]
            lt = terms.render(nw, agg[0][3][nm.index("latest_public_key_id")], W, {1: "keys"})
            okm, detm = key_map_registers_all(nw, W)
            if okm is None:
                R.inconclusive("C01-R2", "key-map", "the key map is built in a way this rule does not know: " + detm)
            else:
                R.check("C01-R2", "key-map", okm, detm, "key map built as %s" % detm)
            R.check("C01-R2", "latest-id", lt == "keys.latest.id", lt, "latest key id <- %s" % lt)

    # ---------------------------------------------------------------- R3 digest composition
    R.rule("C01-R3", "make_transaction_hash = SHA-256( SHA-256(request body) || SHA-256(response body) || \"<key id>:<nonce>\" ) and Display for Nonce = hex of all 32 bytes")
    fin = [bi for bi, t in mth.calls() if lib.callee_is(t, "sha2::Digest::finalize")]
    if R.floor("C01-R3", "finalize in make_transaction_hash", len(fin), 1):
        ret = strip(mth.trace_local(0))
        R.check("C01-R3", "returns-the-digest", ret[0] == "call" and ret[3] == fin[0], "returns finalize()", "make_transaction_hash does not return the finalized digest")
        got = terms.digest_chain(mth, W, fin[0], {1: "request_body", 2: "response_body", 3: "key_id", 4: "nonce"}, xform=lambda t_: optnorm.inline_all(W, mth, t_))
        R.check("C01-R3", "composition", got == EXPECTED_DIGEST, str(got), "digest is %s, expected %s" % (got, EXPECTED_DIGEST), lib.loc(mth, fin[0]))
    nd = nonce_display(R, "C01-R3", c, W)

    # ---------------------------------------------------------------- R4 full-width comparison
    R.rule("C01-R4", "the request-hash comparison is over the whole digest and the whole decoded value (no slicing, prefix or zip on either operand)")
    cmps = [(bi, t) for bi, t in vr.calls() if t.get("callee") in ("std::cmp::PartialEq::ne", "std::cmp::PartialEq::eq")]
    if R.floor("C01-R4", "hash comparison", len(cmps), 1):
        bi, t = cmps[0]
        a = vr.trace_op(t["args"][0])
        b = vr.trace_op(t["args"][1])
        ra = terms.render(vr, a, W, names_vr, transparent=NOERR)
        rb = terms.render(vr, b, W, names_vr, transparent=NOERR)
        sl = [x for x in list(walk(a)) + list(walk(b)) if x[0] in ("subslice", "index", "cindex") or (x[0] == "call" and lib.norm(x[1]).split("::")[-1] in ("index", "get", "split_at", "starts_with", "ends_with", "take", "zip", "first", "last", "truncate", "split_first", "chunks", "iter", "get_unchecked", "first_chunk", "last_chunk") and any(k in lib.norm(x[1]) for k in ("slice", "Vec", "<impl [T]>", "Index", "Iterator", "GenericArray", "[T]")))]
        ra_c, rb_c = canon_of(vr, a), canon_of(vr, b)
        R.check("C01-R4", "operands", sorted([ra_c, rb_c]) == sorted([EXP_DIGEST, EXP_HASH]) and not sl, "%s  vs  %s" % (ra_c[:60], rb_c[:80]),
                "hash comparison is %s vs %s (slicing: %s)" % (ra_c[:120], rb_c[:160], [x[0] if x[0] != "call" else x[1] for x in sl]), lib.loc(vr, bi))
        tys = [c.types[x]["s"] for x in t.get("substs", []) if isinstance(x, int)]
        R.check("C01-R4", "operand-types", all(("[u8]" in x or "GenericArray" in x or "Vec<u8>" in x) for x in tys), str(tys)[:120], "comparison operand types: %s" % tys)

    # ---------------------------------------------------------------- R5 returned signature
    R.rule("C01-R5", "the returned signature is the DER signature decoded from the ETag, unchanged")
    if oks:
        with vr.restrict(vr.reach0):
            # the function's own success value: a top-level alternative of the return value (an inlined helper's `Ok(..)`
            # that was consumed by `?` sits deeper in the term)
            ret = [x for x in lib.alts(vr.trace_local(0)) if x[0] == "agg" and x[2] and x[2].endswith("Result::Ok")]
            if not ret:
                ret = [x for x in walk(vr.trace_local(0)) if x[0] == "agg" and x[2] and x[2].endswith("Result::Ok")]
        if ret:
            s_ = terms.render(vr, ret[0][3][0], W, names_vr, transparent=NOERR)
            s_c = canon_of(vr, ret[0][3][0])
            R.check("C01-R5", "returned-signature", s_c == EXP_SIG, s_c[:120], "Ok carries %s, expected %s" % (s_c[:200], EXP_SIG))
            same = False
            if call:
                pass
        vc = [t for _, t in vr.calls() if lib.callee_is(t, "cup_ecdsa::Cupv2Verifier::verify_response_with_signature")]
        if vc and ret:
            a1 = terms.render(vr, vr.trace_op(vc[0]["args"][1]), W, names_vr, transparent=NOERR)
            R.check("C01-R5", "verified-is-returned", a1 == terms.render(vr, ret[0][3][0], W, names_vr, transparent=NOERR), "the verified signature is the one returned", "verified %s but returned another value" % a1[:80])

    # ---------------------------------------------------------------- R6 / R7 parse_etag
    R.rule("C01-R6", "parse_etag's two from_utf8_unchecked calls are sound (every stripped byte was compared equal to an ASCII constant, length checked) and the verification path has no other panic-capable site")
    R.rule("C01-R7", "parse_etag accepts exactly W/\"..\", \"..\" and the identity")
    un = [(bi, t) for bi, t in pe.calls() if lib.callee_is(t, "std::str::from_utf8_unchecked")]
    shapes = []
    safe_spelling = "unwrap_or(or_else(and_then(strip_prefix(etag, 'W/\"'), |$1| strip_suffix($1, 34)), || and_then(strip_prefix(etag, 34), |$1| strip_suffix($1, 34))), etag)"
    if not un and terms.render(pe, pe.trace_local(0), W, {1: "etag"}) != safe_spelling and _safe_shapes(W, pe) == [("'W/\"'", "34"), ("34", "34"), "etag"]:
        # the same three shapes in another safe spelling (helper fn, `?`, or/or_else/match): read as ordered alternatives
        R.holds("C01-R6", "unchecked:none", "parse_etag uses no unchecked conversion (strip_prefix/strip_suffix spelling)")
        R.holds("C01-R7", "accepted-shapes", "W/\"..\" then \"..\" then identity (ordered alternatives of strip_prefix+strip_suffix)")
        R.holds("C01-R7", "identity-otherwise", "otherwise the ETag is used unchanged")
    elif not un and terms.render(pe, pe.trace_local(0), W, {1: "etag"}) == safe_spelling:
        # the same three shapes written with str::strip_prefix/strip_suffix: no unchecked conversion to justify
        R.holds("C01-R6", "unchecked:none", "parse_etag uses no unchecked conversion (strip_prefix/strip_suffix spelling)")
        R.holds("C01-R7", "accepted-shapes", "W/\"..\" then \"..\" then identity: " + safe_spelling)
        R.holds("C01-R7", "identity-otherwise", "otherwise the ETag is used unchanged")
    elif R.floor("C01-R6", "from_utf8_unchecked calls", len(un), 2):
        for bi, t in un:
            a = terms._unref(pe.trace_op(t["args"][0]))
            if a[0] != "subslice":
                R.violation("C01-R6", "unchecked-arg", "from_utf8_unchecked argument is not a sub-slice of the input bytes: %s" % fmt_t(a)[:100], lib.loc(pe, bi))
                continue
            base = terms.render(pe, a[1], W, {1: "etag"})
            frm, to, from_end = a[2], a[3], a[4]
            consts = {}
            for sb in sorted(pe.reach0):
                tt = pe.blocks[sb]["t"]
                if tt["k"] != "switch":
                    continue
                o = tt["o"]
                pl = o.get("c") or o.get("m")
                if not pl or not pl.get("p"):
                    continue
                ci = [e for e in pl["p"] if e["k"] == "cindex"]
                if not ci:
                    continue
                for (v, tgt) in tt["arms"]:
                    if pe.dominated_by_edge(bi, [(sb, tgt)]):
                        pos = (-(ci[0]["off"]) if ci[0]["end"] else ci[0]["off"])
                        consts[pos] = v
            need = list(range(0, frm)) + ([-(i + 1) for i in range(to)] if from_end else [])
            missing = [p for p in need if p not in consts]
            nonascii = [p for p in need if p in consts and consts[p] >= 0x80]
            lens = [(a_, b_, tr) for (a_, b_, tr) in pe.bool_edges(lambda x: x[0] == "binop" and x[1] == "Ge")]
            len_ok = False
            for (a_, b_, tr) in lens:
                tt = pe.trace_op(pe.blocks[a_]["t"]["o"])
                k = lib.term_const(c, tt[3])
                if tr and isinstance(k, int) and k >= frm + to and pe.dominated_by_edge(bi, [(a_, b_)]):
                    len_ok = True
            R.check("C01-R6", "unchecked:%d..-%d" % (frm, to), base in ("as_bytes(etag)", "etag") and not missing and not nonascii and len_ok,
                    "bytes stripped %s all compared to ASCII constants %s; length >= %d checked" % (need, {p: consts[p] for p in need if p in consts}, frm + to),
                    "from_utf8_unchecked on as_bytes(etag)[%d..-%d]: positions not compared to an ASCII constant: %s; non-ASCII: %s; length check: %s" % (frm, to, missing, nonascii, len_ok), lib.loc(pe, bi))
            shapes.append(tuple(consts.get(p) for p in need))
        R.check("C01-R7", "accepted-shapes", sorted(shapes, key=str) == sorted([(0x57, 0x2f, 0x22, 0x22), (0x22, 0x22)], key=str), "W/\"..\" and \"..\"", "quote/weak-validator shapes stripped: %s" % shapes)
        rets = lib.alts(pe.trace_local(0))
        ident = [x for x in rets if x == ("param", 1)]
        R.check("C01-R7", "identity-otherwise", len(ident) == 1 and len(rets) == 3, "otherwise the ETag is used unchanged", "parse_etag returns %s" % [fmt_t(x)[:40] for x in rets])
    # .. the bodies themselves, the closures written inside them and the private helpers they call (an extracted
    # `split_etag_header()` / `check_request_hash()` is part of the verification path)
    path_bodies = [bv for bv in (vr, vs, mth, pe, nd) if bv is not None]
    seen_ids = set(bv.id for bv in path_bodies)
    grew = True
    while grew:
        grew = False
        for b_ in c.bodies:
            if b_["id"] in seen_ids or "::tests" in b_["id"]:
                continue
            if b_.get("parent") in seen_ids:
                path_bodies.append(W.bv(b_["id"])); seen_ids.add(b_["id"]); grew = True
        for bv in list(path_bodies):
            for _, t_ in bv.calls():
                cid_ = t_.get("resolved_id") or t_.get("callee_id")
                cb_ = W.by_id.get(cid_) if cid_ else None
                if cb_ is not None and cid_ not in seen_ids and cid_.startswith("omaha_client::cup_ecdsa::") and "::tests" not in cid_ and cb_.get("kind") in ("fn", "closure"):
                    path_bodies.append(W.bv(cid_)); seen_ids.add(cid_); grew = True
    for bv in path_bodies:
        for s_ in census.panic_sites(bv):
            R.violation("C01-R6", "panic-site:" + s_["key"], "panic-capable site %s on the verification path (%s)" % (s_["desc"], bv.name), s_["loc"])
    R.holds("C01-R6", "panic-census", "no panic-capable site in verify_response, the verifier, make_transaction_hash, parse_etag, Display for Nonce")


def _safe_shapes(W, pe):
    """parse_etag written without unsafe: the ordered alternatives it tries, as [(prefix, suffix), .., default] with each
    alternative = input.strip_prefix(prefix)?.strip_suffix(suffix)  (None when the function has another form)."""
    from .. import optnorm
    import re as _re
    t = terms._unref(pe.trace_local(0))
    if not (t[0] == "call" and lib.norm(t[1]).endswith("Option::<T>::unwrap_or") and len(t[2]) == 2):
        return None
    dflt = terms.render(pe, t[2][1], W, {1: "etag"})

    def tried(bv, x):
        x = terms._unref(x)
        if x[0] == "call" and lib.norm(x[1]).endswith("Option::<T>::or_else") and len(x[2]) == 2:
            clo = optnorm._closure_of(x[2][1])
            if clo is None or clo[2] not in W.by_id:
                return None
            cb = W.bv(clo[2])
            body = optnorm.simplify(lib.subst_params(optnorm._ann(cb), [clo]))
            a, b = tried(bv, x[2][0]), tried(cb, body)
            return None if a is None or b is None else a + b
        if x[0] == "call" and lib.norm(x[1]).endswith("Option::<T>::or") and len(x[2]) == 2:
            a, b = tried(bv, x[2][0]), tried(bv, x[2][1])
            return None if a is None or b is None else a + b
        lv = optnorm.leaves(W, bv, x)
        pays = [l for l in lv if l[0] in ("other", "some")]
        if len(pays) != 1 or any(l[0] not in ("none", "other", "some") for l in lv):
            return None
        r = optnorm.canon(terms.render(bv, optnorm.inline_all(W, bv, pays[0][1]), W, {1: "etag"}))
        m = _re.fullmatch(r"strip_suffix\(strip_prefix\(etag, (.+?)\)@OK, (.+?)\)(?:@OK)?", r)
        if not m:
            return None
        norm = lambda z: "34" if z in ("'\"'", "34") else z
        return [(norm(m.group(1)), norm(m.group(2)))]
    alts = tried(pe, t[2][0])
    return None if alts is None else alts + [dflt]
