"""C01 — CUP verification accepts exactly the authentic responses (structural clauses)."""
from ..core import BV, strip, walk, fmt_t
from .. import lib, guards, terms, flow, census

H = "cup_ecdsa::StandardCupv2Handler"
NOERR = set(terms.TRANSPARENT) | {"std::result::Result::<T, E>::map_err", "std::option::Option::<T>::ok_or", "std::option::Option::<T>::ok_or_else", "std::ops::Try::branch"}
# oracle: the digest formula of the property statement
EXPECTED_DIGEST = ("Sha256", ["Sha256::digest(request_body)", "Sha256::digest(response_body)", "fmt('{0}:{1}', display(key_id), display(nonce))"])


def success_edges(bv, pred):
    """Edges on which a `?` / match on a Result/Option continues with the value, for switches whose
    subject's producing call satisfies pred(head callee, SwitchInfo)."""
    out = []
    for bi in sorted(bv.reach0):
        si = guards.switch_info(bv, bi)
        if si is None or si.kind != "discr" or len(bv.succ[bi]) < 2:
            continue
        h = lib.head_call(si.term)
        if not h or not pred(h, si):
            continue
        for b in bv.succ[bi]:
            nm = si.edge_names(bv, b)
            if any(x in ("Continue", "Ok", "Some") for x in nm):
                out.append((bi, b))
    return out


def verifier_gate(R, rule, vs):
    """Ok(()) of verify_response_with_signature is dominated by the success edges of the key lookup and of the
    ECDSA verification under that key (shared by C01 and, as the premise of the state machine's typestate, C02)."""
    oks2 = [bi for bi in sorted(vs.reach0) for s_ in vs.blocks[bi]["s"] if s_["k"] == "assign" and not s_["p"].get("p") and s_["p"]["l"] == 0 and s_["r"]["k"] == "agg" and s_["r"].get("vn") == "Ok"]
    # other producers of the return value: anything but an explicit Err / `?` residual must be the verification itself
    OKNESS_PRESERVING = ("std::result::Result::<T, E>::map_err", "std::result::Result::<T, E>::map")
    direct = []
    for a in lib.alts(vs.trace_local(0)):
        if a[0] == "agg":
            continue
        x = a
        while x[0] == "call" and x[1] in OKNESS_PRESERVING and x[2]:
            x = x[2][0]
            while x[0] in ("ref", "deref"):
                x = x[1]
        if x[0] == "call" and lib.norm(x[1]).endswith("FromResidual::from_residual"):
            continue
        if x[0] == "call" and lib.norm(x[1]).endswith("Verifier::verify"):
            direct.append(x[3])
            continue
        R.violation(rule, "verifier:ok-producer", "the verifier's result is produced by `%s`, which can turn a failed verification into Ok" % (lib.norm(x[1]) if x[0] == "call" else fmt_t(x)[:80]))
    oks2 = oks2 + direct
    if R.floor(rule, "Ok returns in the verifier", len(oks2), 1):
        for name, pred in (("key-registered", lambda h, si: "HashMap::" in h and h.endswith("::get")), ("ecdsa-verify", lambda h, si: h.endswith("Verifier::verify"))):
            es = success_edges(vs, pred)
            R.check(rule, "verifier:" + name, es and all(vs.dominated_by_edge(o, es) for o in oks2), "Ok(()) is dominated by `%s`" % name, "the verifier can return Ok without `%s`" % name)
        # exactly one signature verification, under the key that was looked up with the request's key id
        vcalls = [(bi, t) for bi, t in vs.calls() if (lib.norm(t.get("callee") or "")).endswith("Verifier::verify")]
        inner = [b2 for b2 in vs.crate.bodies if b2.get("parent") == vs.id and any((lib.norm(t.get("callee") or "")).endswith("Verifier::verify") for _, t in BV.of(b2).calls())]
        R.check(rule, "verifier:single-verification", len(vcalls) == 1 and not inner, "one Verifier::verify call, none in closures", "the verifier performs %d signature verifications (+%d in closures): a signature may be accepted under a key other than the one named by the request" % (len(vcalls), len(inner)))


def run(F, R):
    c = F.client
    W = flow.World([c])
    R.trust("p256/ecdsa signature verification, sha2, hex::decode, http::HeaderValue::to_str")
    R.assume("cryptographic validity and the 'if' direction (every authentic response is accepted) are not decided; panics inside hex/p256/ecdsa are out of scope")
    vr = lib.one(R, "C01-R1", c, "verify_response impl for StandardCupv2Handler", item="verify_response", impl_self=H, impl_trait="cup_ecdsa::Cupv2RequestHandler")
    vs = lib.one(R, "C01-R1", c, "verify_response_with_signature impl", item="verify_response_with_signature", impl_self=H, impl_trait="cup_ecdsa::Cupv2Verifier")
    mth = lib.one(R, "C01-R3", c, "make_transaction_hash", item="make_transaction_hash", kind="fn", name_contains="cup_ecdsa::make_transaction_hash")
    pe = lib.one(R, "C01-R6", c, "parse_etag", item="parse_etag", kind="fn")
    if not (vr and vs and mth and pe):
        return
    R.count("bodies", 4)

    # ---------------------------------------------------------------- R1 accept path gated by every check
    R.rule("C01-R1", "every path to Ok(signature) passes, in order, the success edge of: ETag present, to_str, split at ':', hex(hash), hash == SHA-256(request body), hex(signature), DER decode, signature verification; the verifier's Ok passes key lookup and ECDSA verify")
    oks = [bi for bi in sorted(vr.reach0) for s_ in vr.blocks[bi]["s"] if s_["k"] == "assign" and not s_["p"].get("p") and s_["p"]["l"] == 0 and s_["r"]["k"] == "agg" and s_["r"].get("vn") == "Ok"]
    if R.floor("C01-R1", "Ok returns in verify_response", len(oks), 1):
        def is_hex(which):
            def p(h, si):
                if h != "hex::decode":
                    return False
                arg = [x for x in walk(si.term) if x[0] == "call" and x[1] == "hex::decode"][0][2][0]
                s_ = terms.render(vr, arg, W, {}, transparent=NOERR)
                return s_.endswith(".%d" % which) and "split_once" in s_
            return p
        checks = [
            ("etag-present", lambda h, si: h.endswith("HeaderMap::<T>::get") and "ETAG" in terms.render(vr, si.term, W, {}, transparent=NOERR).upper()),
            ("etag-is-text", lambda h, si: h.endswith("HeaderValue::to_str")),
            ("split-at-colon", lambda h, si: h.endswith("::split_once")),
            ("hash-is-hex", is_hex(1)),
            ("signature-is-hex", is_hex(0)),
            ("signature-is-der", lambda h, si: h.endswith("::from_bytes")),
            ("signature-verifies", lambda h, si: h.endswith("Cupv2Verifier::verify_response_with_signature")),
        ]
        edges = {}
        for name, pred in checks:
            es = success_edges(vr, pred)
            edges[name] = es
            if not es:
                R.violation("C01-R1", "check:" + name, "verify_response no longer performs the `%s` check" % name)
                continue
            gated = all(vr.dominated_by_edge(o, es) for o in oks)
            R.check("C01-R1", "check:" + name, gated, "Ok is dominated by the success edge of `%s`" % name, "a response can be accepted without passing the `%s` check" % name, lib.loc(vr, es[0][0]))
        # hash comparison
        cmp_e = vr.bool_edges(lambda t: t[0] == "call" and t[1] in ("std::cmp::PartialEq::ne", "std::cmp::PartialEq::eq"))
        eq_edges = [(a, b) for (a, b, tr) in cmp_e if (vr.trace_op(vr.blocks[a]["t"]["o"])[1].endswith("::ne")) != tr]
        edges["hash-matches"] = eq_edges
        R.check("C01-R1", "check:hash-matches", eq_edges and all(vr.dominated_by_edge(o, eq_edges) for o in oks), "Ok is dominated by the equal edge of the request-hash comparison", "a response can be accepted without the request hash matching")
        order = ["etag-present", "etag-is-text", "split-at-colon", "hash-is-hex", "hash-matches", "signature-is-hex", "signature-is-der", "signature-verifies"]
        for a, b in zip(order, order[1:]):
            if edges.get(a) and edges.get(b):
                R.check("C01-R1", "order:%s<%s" % (a, b), all(vr.dominated_by_edge(x, edges[a]) for (x, _) in edges[b]), "%s before %s" % (a, b), "`%s` is evaluated on a path that has not passed `%s`" % (b, a))
        # header looked up is ETAG
        gets = [t for _, t in vr.calls() if lib.callee_is(t, "http::HeaderMap::<T>::get")]
        keys = [terms.render(vr, vr.trace_op(t["args"][1]), W, {}) for t in gets]
        R.check("C01-R1", "header-name", keys == ["hyper::header::ETAG"] or keys == ["http::header::ETAG"], str(keys), "header looked up: %s" % keys)
    verifier_gate(R, "C01-R1", vs)

    # ---------------------------------------------------------------- R2 argument positions
    R.rule("C01-R2", "request body, response body, key id and nonce reach the verifier, the digest and the key lookup in their own positions; the key map holds latest and historical keys")
    names_vr = {1: "self", 2: "metadata", 3: "resp", 4: "key_id"}
    call = [t for _, t in vr.calls() if lib.callee_is(t, "cup_ecdsa::Cupv2Verifier::verify_response_with_signature")]
    if R.floor("C01-R2", "call of the verifier", len(call), 1):
        args = [terms.render(vr, vr.trace_op(a), W, names_vr, transparent=NOERR) for a in call[0]["args"]]
        exp = ["self", None, "metadata.request_body", "body(resp)", "key_id", "metadata.nonce"]
        ok = all(e is None or e == a for e, a in zip(exp, args)) and "from_bytes(" in args[1] and "decode(" in args[1] and args[1].rstrip(")").endswith(".0@Continue.0") is False or (all(e is None or e == a for e, a in zip(exp, args)) and "from_bytes(" in args[1])
        R.check("C01-R2", "verifier-arguments", ok, str(args[2:]), "verifier called with %s, expected (signature, metadata.request_body, resp.body(), key id, metadata.nonce)" % args[1:])
    names_vs = {1: "self", 2: "signature", 3: "request_body", 4: "response_body", 5: "key_id", 6: "nonce"}
    call = [t for _, t in vs.calls() if lib.callee_is(t, "cup_ecdsa::make_transaction_hash")]
    if R.floor("C01-R2", "call of make_transaction_hash", len(call), 1):
        args = [terms.render(vs, vs.trace_op(a), W, names_vs, transparent=NOERR) for a in call[0]["args"]]
        R.check("C01-R2", "digest-arguments", args == ["request_body", "response_body", "key_id", "nonce"], str(args), "make_transaction_hash called with %s" % args)
    vcall = [t for _, t in vs.calls() if lib.callee_is(t, "signature::Verifier::verify", "Verifier::verify")]
    if R.floor("C01-R2", "ECDSA verify call", len(vcall), 1):
        a = [terms.render(vs, vs.trace_op(x), W, names_vs, transparent=NOERR) for x in vcall[0]["args"]]
        okk = "get(self.parameters_by_id, key_id)" in a[0] and a[1] == "make_transaction_hash(request_body, response_body, key_id, nonce)" and "signature" in a[2]
        R.check("C01-R2", "verify-arguments", okk, str(a)[:200], "ECDSA verify is called with key=%s digest=%s sig=%s" % (a[0][:80], a[1][:80], a[2][:80]))
    nw = lib.one(R, "C01-R2", c, "StandardCupv2Handler::new", item="new", impl_self=H)
    if nw:
        t = nw.trace_local(0)
        agg = [x for x in walk(t) if x[0] == "agg" and x[2] and x[2].endswith("StandardCupv2Handler::StandardCupv2Handler")]
        if agg:
            nm = agg[0][4]
            mp = terms.render(nw, agg[0][3][nm.index("parameters_by_id")], W, {1: "keys"})
            lt = terms.render(nw, agg[0][3][nm.index("latest_public_key_id")], W, {1: "keys"})
            R.check("C01-R2", "key-map", mp.startswith("collect") and "chain(once(keys.latest), keys.historical)" in mp and "|$1| tuple{$1.id, $1.key}" in mp, mp[:160], "key map built as %s" % mp[:200])
            R.check("C01-R2", "latest-id", lt == "keys.latest.id", lt, "latest key id <- %s" % lt)

    # ---------------------------------------------------------------- R3 digest composition
    R.rule("C01-R3", "make_transaction_hash = SHA-256( SHA-256(request body) || SHA-256(response body) || \"<key id>:<nonce>\" ) and Display for Nonce = hex of all 32 bytes")
    fin = [bi for bi, t in mth.calls() if lib.callee_is(t, "sha2::Digest::finalize")]
    if R.floor("C01-R3", "finalize in make_transaction_hash", len(fin), 1):
        ret = strip(mth.trace_local(0))
        R.check("C01-R3", "returns-the-digest", ret[0] == "call" and ret[3] == fin[0], "returns finalize()", "make_transaction_hash does not return the finalized digest")
        got = terms.digest_chain(mth, W, fin[0], {1: "request_body", 2: "response_body", 3: "key_id", 4: "nonce"})
        R.check("C01-R3", "composition", got == EXPECTED_DIGEST, str(got), "digest is %s, expected %s" % (got, EXPECTED_DIGEST), lib.loc(mth, fin[0]))
    nd = lib.one(R, "C01-R3", c, "Display for Nonce", item="fmt", impl_self="cup_ecdsa::Nonce", impl_trait="std::fmt::Display")
    if nd:
        wf = [t for _, t in nd.calls() if lib.callee_is(t, "write_fmt")]
        ok = False
        det = ""
        if wf:
            ft = terms.format_term(nd, nd.trace_op(wf[0]["args"][1]))
            if ft:
                det = "%s %s" % (ft[0], [terms.render(nd, a, W, {1: "self"}) for _, a in ft[1]])
                ok = ft[0] == "{0}" and [terms.render(nd, a, W, {1: "self"}) for _, a in ft[1]] == ["encode(self.0)"] and [k for k, _ in ft[1]] == ["display"]
        R.check("C01-R3", "nonce-display", ok, det, "Nonce prints as %s, expected hex::encode(self.0)" % det)
        adt = c.adts.get("cup_ecdsa::Nonce")
        R.check("C01-R3", "nonce-width", adt and c.types[adt["variants"][0]["fields"][0]["t"]]["s"] == "[u8; 32]", "Nonce([u8; 32])", "Nonce is not 32 bytes")

    # ---------------------------------------------------------------- R4 full-width comparison
    R.rule("C01-R4", "the request-hash comparison is over the whole digest and the whole decoded value (no slicing, prefix or zip on either operand)")
    cmps = [(bi, t) for bi, t in vr.calls() if t.get("callee") in ("std::cmp::PartialEq::ne", "std::cmp::PartialEq::eq")]
    if R.floor("C01-R4", "hash comparison", len(cmps), 1):
        bi, t = cmps[0]
        a = vr.trace_op(t["args"][0])
        b = vr.trace_op(t["args"][1])
        ra = terms.render(vr, a, W, names_vr, transparent=NOERR)
        rb = terms.render(vr, b, W, names_vr, transparent=NOERR)
        sl = [x for x in list(walk(a)) + list(walk(b)) if x[0] in ("subslice", "index", "cindex") or (x[0] == "call" and lib.norm(x[1]).split("::")[-1] in ("index", "get", "split_at", "starts_with", "ends_with", "take", "zip", "first", "last", "truncate", "split_first", "chunks", "iter", "get_unchecked", "first_chunk", "last_chunk") and any(k in lib.norm(x[1]) for k in ("slice", "Vec", "<impl [T]>", "Index", "Iterator", "GenericArray", "[T]")))]
        sides = sorted([ra, rb])
        exp = sorted(["Sha256::digest(metadata.request_body)", None]) if False else None
        ok_a = "Sha256::digest(metadata.request_body)" in (ra, rb)
        other = rb if ra == "Sha256::digest(metadata.request_body)" else ra
        # the Ok payload of hex::decode(<hash half of the ETag>), whether taken with `?` or with a match
        ok_b = other.startswith("decode(") and (other.endswith("@Continue.0") or other.endswith("@Ok.0")) and ".1)" in other
        R.check("C01-R4", "operands", ok_a and ok_b and not sl, "%s  vs  %s" % (ra[:60], rb[:80]), "hash comparison is %s vs %s (slicing: %s)" % (ra[:100], rb[:100], [x[0] if x[0] != "call" else x[1] for x in sl]), lib.loc(vr, bi))
        tys = [c.types[x]["s"] for x in t.get("substs", []) if isinstance(x, int)]
        R.check("C01-R4", "operand-types", all(("[u8]" in x or "GenericArray" in x or "Vec<u8>" in x) for x in tys), str(tys)[:120], "comparison operand types: %s" % tys)

    # ---------------------------------------------------------------- R5 returned signature
    R.rule("C01-R5", "the returned signature is the DER signature decoded from the ETag, unchanged")
    if oks:
        with vr.restrict(vr.reach0):
            ret = [x for x in walk(vr.trace_local(0)) if x[0] == "agg" and x[2] and x[2].endswith("Result::Ok")]
        if ret:
            s_ = terms.render(vr, ret[0][3][0], W, names_vr, transparent=NOERR)
            R.check("C01-R5", "returned-signature", s_.startswith("from_bytes(decode(") and (s_.endswith("@Continue.0") or s_.endswith("@Ok.0")) and ".0)" in s_, s_[:120], "Ok carries %s" % s_[:160])
            same = False
            if call:
                pass
        vc = [t for _, t in vr.calls() if lib.callee_is(t, "cup_ecdsa::Cupv2Verifier::verify_response_with_signature")]
        if vc and ret:
            a1 = terms.render(vr, vr.trace_op(vc[0]["args"][1]), W, names_vr, transparent=NOERR)
            R.check("C01-R5", "verified-is-returned", a1 == terms.render(vr, ret[0][3][0], W, names_vr, transparent=NOERR), "the verified signature is the one returned", "verified %s but returned another value" % a1[:80])

    # ---------------------------------------------------------------- R6 / R7 parse_etag
    R.rule("C01-R6", "parse_etag's two from_utf8_unchecked calls are sound (every stripped byte was compared equal to an ASCII constant, length checked) and the verification path has no other panic-capable site")
    R.rule("C01-R7", "parse_etag accepts exactly W/\"..\", \"..\" and the identity")
    un = [(bi, t) for bi, t in pe.calls() if lib.callee_is(t, "std::str::from_utf8_unchecked")]
    shapes = []
    if R.floor("C01-R6", "from_utf8_unchecked calls", len(un), 2):
        for bi, t in un:
            a = terms._unref(pe.trace_op(t["args"][0]))
            if a[0] != "subslice":
                R.violation("C01-R6", "unchecked-arg", "from_utf8_unchecked argument is not a sub-slice of the input bytes: %s" % fmt_t(a)[:100], lib.loc(pe, bi))
                continue
            base = terms.render(pe, a[1], W, {1: "etag"})
            frm, to, from_end = a[2], a[3], a[4]
            consts = {}
            for sb in sorted(pe.reach0):
                tt = pe.blocks[sb]["t"]
                if tt["k"] != "switch":
                    continue
                o = tt["o"]
                pl = o.get("c") or o.get("m")
                if not pl or not pl.get("p"):
                    continue
                ci = [e for e in pl["p"] if e["k"] == "cindex"]
                if not ci:
                    continue
                for (v, tgt) in tt["arms"]:
                    if pe.dominated_by_edge(bi, [(sb, tgt)]):
                        pos = (-(ci[0]["off"]) if ci[0]["end"] else ci[0]["off"])
                        consts[pos] = v
            need = list(range(0, frm)) + ([-(i + 1) for i in range(to)] if from_end else [])
            missing = [p for p in need if p not in consts]
            nonascii = [p for p in need if p in consts and consts[p] >= 0x80]
            lens = [(a_, b_, tr) for (a_, b_, tr) in pe.bool_edges(lambda x: x[0] == "binop" and x[1] == "Ge")]
            len_ok = False
            for (a_, b_, tr) in lens:
                tt = pe.trace_op(pe.blocks[a_]["t"]["o"])
                k = lib.term_const(c, tt[3])
                if tr and isinstance(k, int) and k >= frm + to and pe.dominated_by_edge(bi, [(a_, b_)]):
                    len_ok = True
            R.check("C01-R6", "unchecked:%d..-%d" % (frm, to), base in ("as_bytes(etag)", "etag") and not missing and not nonascii and len_ok,
                    "bytes stripped %s all compared to ASCII constants %s; length >= %d checked" % (need, {p: consts[p] for p in need if p in consts}, frm + to),
                    "from_utf8_unchecked on as_bytes(etag)[%d..-%d]: positions not compared to an ASCII constant: %s; non-ASCII: %s; length check: %s" % (frm, to, missing, nonascii, len_ok), lib.loc(pe, bi))
            shapes.append(tuple(consts.get(p) for p in need))
        R.check("C01-R7", "accepted-shapes", sorted(shapes, key=str) == sorted([(0x57, 0x2f, 0x22, 0x22), (0x22, 0x22)], key=str), "W/\"..\" and \"..\"", "quote/weak-validator shapes stripped: %s" % shapes)
        rets = lib.alts(pe.trace_local(0))
        ident = [x for x in rets if x == ("param", 1)]
        R.check("C01-R7", "identity-otherwise", len(ident) == 1 and len(rets) == 3, "otherwise the ETag is used unchanged", "parse_etag returns %s" % [fmt_t(x)[:40] for x in rets])
    for bv in (vr, vs, mth, pe, nd):
        if bv is None:
            continue
        for s_ in census.panic_sites(bv):
            R.violation("C01-R6", "panic-site:" + s_["key"], "panic-capable site %s on the verification path (%s)" % (s_["desc"], bv.name), s_["loc"])
    R.holds("C01-R6", "panic-census", "no panic-capable site in verify_response, the verifier, make_transaction_hash, parse_etag, Display for Nonce")
