"""C12 — Scheduled checks wait for the policy's time and minimum wait."""
import re
from ..core import BV, strip, walk, fmt_t
from .. import lib, guards, sm as smod, terms
from ..sm import reach, path, reach_in, reach_pf
from .c11 import select_sites

DISJUNCTIVE = ("select", "select_all", "select_ok", "race", "try_select", "select_biased")
CONJUNCTIVE = ("join", "join3", "try_join", "join_all")
REBOOT_INTERVAL_SECS = 1800  # oracle: "its 30-minute timer"
RB_CONST = "CHECK_REBOOT_ALLOWED_INTERVAL"   # name of the constant as found at its use (set by run)


def no_blocks(s):
    return s


def run(F, R):
    sm = smod.get(F)
    c = sm.c
    S = sm.S_run
    W = sm.w
    smod.preconditions(sm, R, "C12-pre")
    R.trust("futures::future::join completes when both futures did; Fuse/select! semantics; the embedder's Timer")
    R.assume("real-time behaviour of the embedder's timers is not decided; the rules decide which timers are armed, with which values, and how they are combined")
    R.count("supergraph_nodes", len(S.live))

    # anchors discovered structurally
    cnu = sm.env(S, "Policy", "compute_next_update_time")
    R.floor("C12-R1", "compute_next_update_time calls", len(cnu), 1)
    qctx = sorted(set(S.nodes[x].ctx for x in cnu), key=lambda cx: cx.idx)
    qbodies = set(cx.bv.id for cx in qctx)
    R.check("C12-R1", "single-query-function", len(qbodies) == 1, "one function asks the policy for the next timing (%d call contexts)" % len(qctx), "several functions query compute_next_update_time: %s" % sorted(qbodies))
    qv = qctx[0].bv if qctx else None
    wu = sm.env(S, "Timer", "wait_until")
    wbodies = set(S.nodes[x].ctx.bv.id for x in wu)
    R.check("C12-R2", "single-arming-function", len(wbodies) == 1, "one function arms the schedule timers", "wait_until is armed in %s" % sorted(wbodies))
    mv = W.bv(sorted(wbodies)[0]) if wbodies else None

    # ---------------------------------------------------------------- R1 query -> announce -> return one value
    R.rule("C12-R1", "the timing returned by compute_next_update_time is stored as schedule.next_update_time, announced as ScheduleChange, and is the value every schedule timer is armed with")
    if qv is not None:
        R.count("bodies")
        ws = [(bi, r) for (bi, si, p, r) in qv.field_writes if bi in qv.reach0 and smod._chain(p)[-2:] == ["schedule", "next_update_time"]]
        timing = None
        for bi, t in qv.calls():
            if t.get("trait") == "policy::PolicyEngine" and t["name"] == "compute_next_update_time":
                qbi = bi
        ret = terms.render(qv, qv.trace_local(0), W, {})
        R.check("C12-R1", "returns-policy-timing", ret.startswith("poll(compute_next_update_time(") and ret.endswith("@Ready.0"), "returns the awaited policy answer", "the query function returns %s" % ret[:120])
        if R.floor("C12-R1", "writes of schedule.next_update_time", len(ws), 1):
            v = terms.render(qv, qv._trace_rv(ws[0][1], None, 0), W, {})
            R.check("C12-R1", "stores-policy-timing", v == "Some{%s}" % ret, "next_update_time = Some(timing)", "next_update_time <- %s" % v[:120], lib.loc(qv, ws[0][0]))
        ys = [(bi, t) for bi, t in qv.calls() if lib.callee_is(t, "yield_")]
        if R.floor("C12-R1", "ScheduleChange announcement in the query function", len(ys), 1):
            yv = terms.render(qv, qv.trace_op(ys[0][1]["args"][1]), W, {})
            R.check("C12-R1", "announces-schedule", yv == "ScheduleChange{param1.0.context.schedule}", yv, "announcement is %s" % yv[:100])
            if ws:
                wbi, ybi = ws[0][0], ys[0][0]
                order = ybi not in qv.reach_from([0], avoid=[wbi]) and not (set(qv.exits()) & qv.reach_from([0], avoid=[ybi])) and wbi not in qv.reach_from([0], avoid=[qbi])
                R.check("C12-R1", "order", order, "query -> store -> announce -> return on every path", "query/store/announce are not in this order on every path")
    if mv is not None:
        # every caller passes the result of the immediately preceding query
        for cx in S.ctxs:
            if cx.bv is not mv or cx.parent is None:
                continue
            # the wrapper call in the parent
            par = cx.parent
            args = None
            for bi, t in par.bv.calls():
                if t.get("callee_id") == mv.body.get("parent"):
                    a = terms.render(par.bv, par.bv.trace_op(t["args"][1]), W, {})
                    ok = a.startswith("poll(%s(" % (W.by_id[qv.body["parent"]]["item"],)) and a.endswith("@Ready.0")
                    # nothing else queries the policy between that query and the arming
                    R.check("C12-R1", "armed-with-fresh-timing:" + _k(par) + ":" + str(bi), ok, "armed with the result of the preceding query", "timers are armed with %s" % a[:120], lib.loc(par.bv, bi))
                    # .. as returned: no field of that value is written between the query and the arming ("exactly that time bound and minimum wait")
                    pl_ = t["args"][1].get("m") or t["args"][1].get("c")
                    roots_ = set()
                    if pl_ is not None:
                        roots_.add(pl_["l"])
                        for (dbi_, dsi_, kind_, x_) in par.bv.defs.get(pl_["l"], []):
                            if kind_ == "rv" and x_["k"] == "use":
                                q_ = x_["o"].get("m") or x_["o"].get("c")
                                if q_ is not None and not q_.get("p"):
                                    roots_.add(q_["l"])
                    # .. and it is the *latest* answer: between the point where the handed-on value is bound and this arming the policy
                    # is not asked again (a newer answer that was announced but then dropped leaves the timers armed for an older one)
                    if pl_ is not None and ok:
                        l_ = pl_["l"]
                        for _hop in range(8):
                            ds_ = [d_ for d_ in par.bv.defs.get(l_, []) if d_[0] in par.bv.reach0]
                            if len(ds_) == 1 and ds_[0][2] == "rv" and ds_[0][3]["k"] == "use":
                                q_ = ds_[0][3]["o"].get("m") or ds_[0][3]["o"].get("c")
                                if q_ is not None and not q_.get("p"):
                                    l_ = q_["l"]
                                    continue
                            break
                        dblocks_ = sorted(set(d_[0] for d_ in par.bv.defs.get(l_, []) if d_[0] in par.bv.reach0))
                        qblocks_ = [qb_ for qb_, qt_ in par.bv.calls() if qt_.get("callee_id") == qv.body.get("parent")]
                        newer_ = []
                        for d_ in dblocks_:
                            # any (re)binding of the handed-on value refreshes it: paths are cut at every binding block
                            after_d = par.bv.reach_from(list(par.bv.succ[d_]), avoid=dblocks_)
                            for qb_ in qblocks_:
                                if qb_ in after_d and bi in par.bv.reach_from(list(par.bv.succ[qb_]), avoid=dblocks_):
                                    newer_.append(qb_)
                        if dblocks_:
                            R.check("C12-R1", "armed-with-latest-timing:" + _k(par) + ":" + str(bi), not newer_, "no newer policy answer exists when the timers are armed",
                                    "the timers are armed with an answer bound before a later policy query (%s): the newer, announced timing is dropped" % (lib.loc(par.bv, newer_[0]) if newer_ else ""), lib.loc(par.bv, bi))
                    touched = [(wbi_, smod._chain(wp_)) for (wbi_, wsi_, wp_, wr_) in par.bv.field_writes if wp_["l"] in roots_ and wp_.get("p") and wbi_ in par.bv.reach0 and wr_.get("k") != "callret"]
                    R.check("C12-R1", "timing-handed-on-unmodified:" + _k(par) + ":" + str(bi), not touched, "the timing is handed to the timers as the policy returned it",
                            "the timing is modified between the policy's answer and the timers (%s): the timers are not armed for exactly the announced time bound and minimum wait" % sorted(set(".".join(map(str, c_)) for _, c_ in touched))[:3],
                            lib.loc(par.bv, touched[0][0]) if touched else None)

    # inside a wait loop, every re-arming is preceded in the same iteration by a fresh policy query
    if mv is not None and qv is not None:
        sels0 = select_sites(sm, S)
        for (cx, sn, info) in sels0:
            loop = smod.local_loop(S, sn, cx)
            if not loop:
                continue
            arm_calls = [n.idx for n in S.nodes if n.ctx is cx and n.idx in loop and n.term["k"] == "call" and n.term.get("callee_id") == mv.body.get("parent")]
            q_calls = [n.idx for n in S.nodes if n.ctx is cx and n.idx in S.live and n.term["k"] == "call" and n.term.get("callee_id") == qv.body.get("parent")]
            for x in arm_calls:
                stale = x in reach_in(S, S.succ[sn], cx, cut_nodes=q_calls)
                R.check("C12-R1", "requeried-before-rearm:" + _k(cx), not stale, "the policy is asked again before the schedule timer is re-armed", "the schedule timer is re-armed with a timing computed before the previous wait", S.nodes[x].loc())

    # the main loop: every return to the wait (timer fired, request throttled, check finished) goes through a fresh query
    if mv is not None and qv is not None:
        for (cx, sn, info) in select_sites(sm, S):
            if cx is not S.root:
                continue
            arm_fn = W.by_id[mv.body["parent"]]["item"] if mv.body.get("parent") in W.by_id else "make_wait"
            if not any(a_["kind"] == "timer" and arm_fn in a_.get("render", "") for a_ in info.values()):
                continue   # the select that runs beside a check: no schedule timer in it
            q_calls = [n.idx for n in S.nodes if n.ctx is cx and n.idx in S.live and n.term["k"] == "call" and n.term.get("callee_id") == qv.body.get("parent")]
            stale = sn in reach_in(S, S.succ[sn], cx, cut_nodes=q_calls)
            p_ = path(S, S.succ[sn], [sn], cut_nodes=q_calls) if stale else None
            R.check("C12-R1", "fresh-query-before-every-wait:" + _k(cx), bool(q_calls) and not stale, "the main wait is only entered after asking the policy again",
                    "the main wait can be re-entered without asking the policy for the next check time (stale timers, no ScheduleChange): %s" % (S.fmt_path(p_) if p_ else ""), S.nodes[sn].loc())

            # .. and armed again: between that query and the wait the timers are created for the timing just returned
            arm_calls = [n.idx for n in S.nodes if n.ctx is cx and n.idx in S.live and n.term["k"] == "call" and n.term.get("callee_id") == mv.body.get("parent")]
            stale_t = any(sn in reach_in(S, S.succ[q_], cx, cut_nodes=arm_calls) for q_ in q_calls) or sn in reach_in(S, [cx.entry], cx, cut_nodes=arm_calls)
            p2_ = None
            if stale_t:
                for q_ in q_calls:
                    p2_ = p2_ or path(S, S.succ[q_], [sn], cut_nodes=arm_calls)
            R.check("C12-R1", "fresh-timers-before-every-wait:" + _k(cx), bool(arm_calls) and not stale_t, "after every policy query the timers are created anew before the wait",
                    "the main wait can be entered with timers that were not created for the timing the policy just returned (kept from an earlier iteration): %s" % (S.fmt_path(p2_) if p2_ else ""), S.nodes[sn].loc())

    # ---------------------------------------------------------------- R2 both timers must fire
    R.rule("C12-R2", "with a minimum wait the two timers are combined conjunctively (join); without it exactly wait_until(time) is armed; arguments are the timing's fields")
    if mv is not None:
        sw = None
        for bi in sorted(mv.reach0):
            si = guards.switch_info(mv, bi)
            if si and si.kind == "discr" and si.ty.get("d") == "std::option::Option" and lib.apath(si.term).endswith(".minimum_wait"):
                sw = bi
        if sw is None:
            R.inconclusive("C12-R2", "minimum-wait-match", "no match on check_timing.minimum_wait")
        else:
            si, arms = terms.arm_terms(mv, sw)
            some = arms.get("Some")
            none = arms.get("None")
            rs = terms.render(mv, some, W, {}) if some else ""
            rn = terms.render(mv, none, W, {}) if none else ""
            comb = [lib.norm(x[1]).split("::")[-1] for x in walk(some or ("undef", 0)) if x[0] == "call" and ("futures" in x[1])]
            dis = [n for n in comb if n in DISJUNCTIVE]
            con = [n for n in comb if n in CONJUNCTIVE]
            has_sel_closure = any(x[0] == "agg" and x[1] == "closure" and W.is_select_closure(x[2]) for x in walk(some or ("undef", 0)))
            R.check("C12-R2", "conjunctive", con and not dis and not has_sel_closure, "combinators: %s" % comb, "the two timers are combined with %s: a check can start before both fired" % (dis or comb or "nothing"), lib.loc(mv, sw))
            exp_for = "wait_for(param1.0.timer, param1.1.minimum_wait@Some.0)"
            exp_until = "wait_until(param1.0.timer, param1.1.time)"
            # every way the Some(minimum_wait) arm can produce its future arms both timers (a merged value with one alternative
            # that arms only the time bound is a fast path around the minimum wait)
            alts_ = [terms.render(mv, a_, W, {}) for a_ in lib.alts(some)] if some else []
            lacking = [a_[:120] for a_ in alts_ if not (exp_for in a_ and exp_until in a_ and any(("%s(" % cj) in a_ for cj in CONJUNCTIVE))]
            R.check("C12-R2", "some-arm-arguments", bool(alts_) and not lacking, rs[:200], "with a minimum wait the function can arm %s (not both timers joined)" % lacking)
            R.check("C12-R2", "none-arm", exp_until in rn and "wait_for(" not in rn, rn[:120], "without a minimum wait the function arms %s" % rn[:120])
            joins = [x for x in walk(some or ("undef", 0)) if x[0] == "call" and lib.norm(x[1]).split("::")[-1] in CONJUNCTIVE]
            if joins:
                a = sorted(terms.render(mv, y, W, {}) for y in joins[0][2])
                R.check("C12-R2", "join-operands", a == sorted([exp_for, exp_until]), str(a), "join(%s)" % a)

    # ---------------------------------------------------------------- R3 scheduled start only from the timer arm
    R.rule("C12-R3", "a check with default options and no responder starts only from the select arm holding the schedule timer; the control arm carries the request's options and responder")
    sels = select_sites(sm, S)
    waiting = [(cx, sn, info) for (cx, sn, info) in sels if cx is S.root and not any(a["kind"] == "task" for a in info.values())]
    if R.floor("C12-R3", "waiting select", len(waiting), 1):
        cx, sn, info = waiting[0]
        bv = cx.bv
        kinds = sorted(a["kind"] for a in info.values())
        R.check("C12-R3", "arms", kinds == ["control", "timer"], "arms: %s" % kinds, "the waiting select has arms %s" % kinds)
        for k, a in info.items():
            if a["kind"] == "timer":
                R.check("C12-R3", "timer-arm-origin", mv is not None and W.by_id[mv.body["parent"]]["item"] + "(" in a["render"], a["render"][:100], "the timer arm polls %s" % a["render"][:120])
            for (_, b) in a["edges"]:
                tb = S.nodes[b].bi
                region = bv.arm_region(S.nodes[sn].bi, tb)
                # the (options, responder) tuple built in this arm
                tup = None
                for x in sorted(bv.reach_from([tb], avoid=[S.nodes[sn].bi])):
                    if x not in region:
                        continue
                    for s_ in bv.blocks[x]["s"]:
                        if s_["k"] == "assign" and s_["r"]["k"] == "agg" and s_["r"].get("ak") == "tuple" and len(s_["r"]["ops"]) == 2 and tup is None:
                            with bv.restrict(region):
                                tup = terms.render(bv, bv._trace_rv(s_["r"], None, 0), W, {})
                if a["kind"] == "timer":
                    R.check("C12-R3", "timer-arm-value", tup == "tuple{default(), None{}}", str(tup), "the timer arm starts a check with %s" % tup)
                elif a["kind"] == "control":
                    ok = tup is not None and tup.startswith("tuple{") and "@StartUpdateCheck.options, Some{" in tup and "@StartUpdateCheck.responder}" in tup
                    R.check("C12-R3", "control-arm-value", ok, (tup or "")[-100:], "the control arm starts a check with %s" % (tup or "")[-160:])

    # ---------------------------------------------------------------- R4 reboot wait
    R.rule("C12-R4", "while waiting to reboot: reboot_allowed is asked on entry, when the 30-minute timer fires, or for an on-demand request; pings only when the schedule timer fires; a fired timer is re-armed with a fresh future of the same origin")
    rw = [(cx, sn, info) for (cx, sn, info) in sels if cx is not S.root]
    # the re-check interval: the named constant the reboot wait hands to wait_for (whatever it is called, wherever it lives)
    global RB_CONST
    RB_CONST = "CHECK_REBOOT_ALLOWED_INTERVAL"
    kv = None
    for (cx_, sn_, info_) in rw:
        for a_ in info_.values():
            for m_ in re.finditer(r"wait_for\([^()]*?, ((?:[A-Za-z_][A-Za-z_0-9]*::)*[A-Z][A-Z0-9_]*)\)", a_["render"]):
                ks_ = [k_ for k_ in c.consts if k_ == m_.group(1) or k_.endswith("::" + m_.group(1)) or m_.group(1).endswith("::" + k_.split("::")[-1])]
                if ks_ and kv is None:
                    RB_CONST = m_.group(1).split("::")[-1]
                    kv = c.consts[ks_[0]]
    if kv is None:
        kv = c.consts.get("state_machine::CHECK_REBOOT_ALLOWED_INTERVAL")
    secs = None
    if kv:
        m = re.search(r"secs:\s*(\d+)", kv.get("s", ""))
        secs = int(m.group(1)) if m else None
    if kv is None:
        R.inconclusive("C12-R4", "interval-constant", "the reboot wait does not arm a timer with a named constant")
    else:
        R.check("C12-R4", "interval-constant", secs == REBOOT_INTERVAL_SECS, "%s = %s s" % (RB_CONST, secs), "the reboot re-check interval is %s s, not 1800 s" % secs)
    if R.floor("C12-R4", "reboot-wait select", len(rw), 1):
        cx, sn, info = rw[0]
        bv = cx.bv
        swb = S.nodes[sn].bi
        ra = [n.idx for n in S.nodes if n.ctx is cx and n.idx in S.live and S.ev[n.idx] == ("env", "Policy", "reboot_allowed")]
        pings = [n.idx for n in S.nodes if n.idx in S.live and n.ctx.parent is cx and _is_ping(n.ctx) and n.idx == n.ctx.entry]
        loop = smod.local_loop(S, sn, cx)
        arm_nodes = {}
        for k, a in info.items():
            ns = set()
            for (_, b) in a["edges"]:
                ns |= reach_in(S, [b], cx, cut_nodes=[sn])
            arm_nodes[k] = ns
        excl = {k: arm_nodes[k] - set().union(*[arm_nodes[j] for j in arm_nodes if j != k]) for k in arm_nodes}
        by_kind = {}
        for k, a in info.items():
            origin = "control" if a["kind"] == "control" else ("reboot-timer" if RB_CONST in a["render"] else ("schedule-timer" if "make_wait" in a["render"] or (mv is not None and W.by_id[mv.body["parent"]]["item"] in a["render"]) else "other:" + a["render"][:40]))
            by_kind[k] = origin
        R.check("C12-R4", "arm-origins", sorted(by_kind.values()) == ["control", "reboot-timer", "schedule-timer"], str(by_kind), "reboot-wait arms poll %s" % by_kind)
        for x in ra:
            where = [by_kind[k] for k in excl if x in excl[k]]
            if x not in loop:
                R.check("C12-R4", "reboot-question:entry", True, "asked once on entry")
                continue
            if where == ["control"]:
                g_ = lib.equal_edges(bv, lambda t: "@StartUpdateCheck.options.source" in lib.apath(t) and "OnDemand" in lib.apath(t))
                R.check("C12-R4", "reboot-question:control-only-on-demand", bool(g_) and bv.dominated_by_edge(S.nodes[x].bi, g_), "in the control arm the question is asked only under `request.source == OnDemand`",
                        "a control request that is not on-demand re-asks reboot_allowed (the reboot no longer waits for its 30-minute timer)", S.nodes[x].loc())
            R.check("C12-R4", "reboot-question:" + (where[0] if where else "shared"), where in (["reboot-timer"], ["control"]), "asked in the %s arm" % where, "reboot_allowed is re-asked in %s" % (where or "code shared by several arms"), S.nodes[x].loc())
        entry_q = [x for x in ra if x not in loop]
        R.check("C12-R4", "asked-on-entry-once", len(entry_q) == 1, "one question before the wait loop", "%d questions before the wait loop" % len(entry_q))
        for x in pings:
            where = [by_kind[k] for k in excl if x in excl[k]]
            R.check("C12-R4", "ping-only-on-schedule", where == ["schedule-timer"], "ping in the schedule-timer arm", "a ping is sent from %s" % (where or "code shared by several arms"), S.nodes[x].loc())
        R.floor("C12-R4", "ping calls in the reboot wait", len(pings), 1)
        # re-arm with the same origin
        for k, a in info.items():
            if a["kind"] != "timer":
                continue
            sets = []
            for n in S.nodes:
                if n.ctx is cx and n.idx in S.live and n.term["k"] == "call" and lib.callee_is(n.term, "std::pin::Pin::<Ptr>::set") and n.idx in excl[k]:
                    sets.append(n)
            orig = re.sub(r"\s+", "", terms.render(bv, a["term"], W, {}))
            orig = orig.replace("new_unchecked(", "")
            for n in sets:
                new = terms.render(bv, bv.trace_op(n.term["args"][1]), W, {})
                core_o = _origin_core(a["render"])
                core_n = _origin_core(new)
                R.check("C12-R4", "rearm-same-origin:" + by_kind[k], core_o == core_n and core_o is not None, "re-armed with %s" % core_n, "arm %s is re-armed with %s (was %s)" % (by_kind[k], new[:80], a["render"][:80]), n.loc())
            R.check("C12-R4", "rearm-present:" + by_kind[k], len(sets) >= 1, "re-armed in its own arm", "the %s future is never re-armed" % by_kind[k])


def _origin_core(r):
    """Normalised origin of a timer future: which Timer call with which argument family."""
    if RB_CONST in r and "wait_for(" in r:
        return "fuse(wait_for(%s))" % RB_CONST if "fuse(" in r else "wait_for(%s)" % RB_CONST
    m = re.search(r"(\w*make_wait\w*)\((?:[^,]+), poll\((\w+)\(", r)
    if m:
        return "%s(%s())" % (m.group(1), m.group(2))
    return None


def _is_ping(ctx):
    return lib.is_ping_body(ctx.bv)


def _k(ctx):
    return ctx.bv.body.get("item") or ctx.bv.id.split("::")[-2]
