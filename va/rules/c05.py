"""C05 — Policy consent gates every network, install and reboot action."""
from ..core import BV, strip, walk, fmt_t
from .. import lib, guards, sm as smod
from ..sm import reach, path, reach_in, reach_pf

CD = "policy::CheckDecision"
UD = "policy::UpdateDecision"
RAU = "state_machine::RebootAfterUpdate"
POS = ("Ok", "OkUpdateDeferred")
NEG = ("TooSoon", "ThrottledByPolicy", "DeniedByPolicy")


def evname(S, x):
    return "%s@%s" % (S.ev[x], S.nodes[x].loc())


def run(F, R):
    sm = smod.get(F)
    c = sm.c
    S = sm.S_run
    Sc = sm.S_check
    smod.preconditions(sm, R, "C05-pre")
    R.trust("the embedder's PolicyEngine/Installer/HttpRequest are reached only through their trait items; rustc await/select! lowering")
    R.assume("StateMachineBuilder::oneshot_check is the documented caller-forced single check: it consults neither update_check_allowed nor all_valid (named exception); it is still subject to R3 (fixed default parameters), R4 and R5")
    R.count("supergraph_nodes", len(S.live))
    entry = S.root.entry
    http = set(sm.env(S, "Http", "request"))
    inst = set(sm.env(S, "Installer"))
    R.floor("C05-R2", "HttpRequest::request events in the long-running loop", len(http), 3)
    R.floor("C05-R4", "Installer events", len(inst), 3)

    # ---------------------------------------------------------------- R1 validity gate
    R.rule("C05-R1", "nothing but reading the app set happens before the `all_valid() == true` edge; the false edge only returns")
    lib.check_as_configured(R, "C05-R1", sm.w, sm, {"policy_engine": "policy_engine", "installer": "installer"})
    lib.builder_setters_preserve(R, "C05-R1", sm.w, sm.c, ["policy_engine", "installer"])
    av = sm.bool_edges(S, lambda n, t: "AppSetExt::all_valid" in fmt_t(t))
    true_e = [(a, b) for (a, b, tr) in av if tr]
    false_e = [(a, b) for (a, b, tr) in av if not tr]
    if not true_e:
        # the same test spelled over the apps themselves (`get_apps().iter().all(|a| a.valid())`) inside the running task
        av = sm.bool_edges(S, lambda n, t: "App::valid" in fmt_t(t) or ("AppSet::get_apps" in fmt_t(t) and "Iterator::all" in fmt_t(t)))
        true_e = [(a, b) for (a, b, tr) in av if tr]
        false_e = [(a, b) for (a, b, tr) in av if not tr]
    elsewhere = []
    if not true_e:
        # the running task does not test all_valid(): is the test made somewhere else and its answer carried in?
        in_task = set(cx.bv.id for cx in S.ctxs)
        elsewhere = sorted(b["id"] for b in c.bodies if b["id"] not in in_task and "::tests" not in b["id"] and "::test_" not in b["id"]
                           and any(t.get("name") == "all_valid" and (t.get("trait") or "").endswith("AppSetExt") for _, t in BV.of(b).calls()))
        if not elsewhere:
            # no test of the live app set at all in the task: what does the task branch on before its first effect?
            r0 = reach(S, [entry], cut_edges=[])
            eff = [x for x in r0 if S.ev[x] and S.ev[x][0] == "env" and S.ev[x][1] in ("Http", "Installer", "Policy")]
            if eff:
                elsewhere = ["<no test of the live app set's validity before the first policy question>"]
        if elsewhere:
            R.violation("C05-R1", "gate", "the validity of the app set is decided outside the running task (%s) and not when the task starts: an app set that is invalid by the time the "
                        "machine runs is not caught by the gate" % elsewhere[0].split("::")[-3:], None)
    if (true_e or not elsewhere) and R.floor("C05-R1", "tests of AppSetExt::all_valid", len(true_e), 1):
        r_ = reach(S, [entry], cut_edges=true_e)
        evs = [x for x in r_ if S.ev[x] and not (S.ev[x][0] == "env" and S.ev[x][1] == "AppSet" and S.ev[x][2] == "get_apps")]
        R.check("C05-R1", "gate", not evs, "no effect before the validity gate (%d nodes before it)" % len(r_),
                "effects reachable without all_valid() == true: %s" % [evname(S, x) for x in evs[:6]])
        for (a, b) in false_e:
            r2 = reach(S, [b])
            evs = [x for x in r2 if S.ev[x] and not (S.ev[x][0] == "env" and S.ev[x][1] == "AppSet")]
            R.check("C05-R1", "invalid-returns", not evs and (r2 & set(S.root.returns)), "invalid app set: the machine returns without any effect",
                    "after all_valid() == false: %s" % [evname(S, x) for x in evs[:6]], S.nodes[a].loc())

    # ---------------------------------------------------------------- R2 check gate
    R.rule("C05-R2", "every request, installer call and non-schedule event of an iteration is dominated by the Ok/OkUpdateDeferred edge of that iteration's update_check_allowed; negative decisions only reply Throttled")
    pos = [(a, b) for v in POS for (a, b, nm) in sm.outcome_edges(S, CD, v)]
    neg = [(a, b, nm) for v in NEG for (a, b, nm) in sm.outcome_edges(S, CD, v)]
    adt = c.adts.get(CD)
    R.floor("C05-R2", "variants of CheckDecision", len(adt["variants"]) if adt else 0, 5)
    uca = sm.env(S, "Policy", "update_check_allowed")
    if R.floor("C05-R2", "positive decision edges", len(pos), 1) and R.floor("C05-R2", "update_check_allowed calls", len(uca), 1):
        r_ = reach(S, [entry], cut_edges=pos)
        gated = [x for x in r_ if S.ev[x] and (
            (S.ev[x][0] == "env" and S.ev[x][1] in ("Http", "Installer", "Cup")) or
            (S.ev[x][0] == "yield" and S.ev[x][1] != "ScheduleChange") or
            (S.ev[x][0] == "reply" and S.ev[x][1] != "Throttled") or
            (S.ev[x][0] == "env" and S.ev[x][1] == "Policy" and S.ev[x][2] not in ("compute_next_update_time", "update_check_allowed")))]
        p = path(S, [entry], gated, cut_edges=pos) if gated else None
        R.check("C05-R2", "positive-gate", not gated, "requests, installs, reboots and non-schedule events all lie behind a positive check decision",
                "reachable without a positive update_check_allowed decision: %s via %s" % ([evname(S, x) for x in gated[:5]], S.fmt_path(p) if p else ""))
        # the decision tested is the result of the policy call of the same iteration
        for (a, b) in pos[:1]:
            bv = S.nodes[a].ctx.bv
            si = guards.switch_info(bv, S.nodes[a].bi)
            R.check("C05-R2", "decision-origin", (lib.head_call(si.term) or "").endswith("update_check_allowed"), "decision <- update_check_allowed(..).await on every path",
                    "the tested decision is not the result of update_check_allowed: " + fmt_t(si.term)[:120], S.nodes[a].loc())
        seen_neg = set()
        for (a, b, nm) in neg:
            for v in nm:
                seen_neg.add(v)
            r2 = reach(S, [b], cut_nodes=uca)
            bad = [x for x in r2 if S.ev[x] and (
                (S.ev[x][0] == "env" and S.ev[x][1] in ("Http", "Installer", "Cup")) or
                (S.ev[x][0] == "yield" and S.ev[x][1] != "ScheduleChange") or
                (S.ev[x][0] == "reply" and S.ev[x][1] != "Throttled"))]
            R.check("C05-R2", "negative-arm:" + "|".join(nm), not bad, "negative decision: only the Throttled reply and the next schedule computation follow",
                    "after a negative decision: %s" % [evname(S, x) for x in bad[:5]], S.nodes[a].loc())
        R.check("C05-R2", "negative-variants-covered", seen_neg >= set(NEG), "all three negative variants handled", "negative variants seen: %s" % sorted(seen_neg))

    # ---------------------------------------------------------------- R3 parameters reach every request
    R.rule("C05-R3", "every RequestBuilder of a check is created from the RequestParams payload of the positive decision (ping: fixed background parameters); builder fields flow into installsource / interactivity / updatedisabled / sameversionupdate")
    news = sm.calls(S, "request_builder::RequestBuilder::<'a>::new")
    if R.floor("C05-R3", "RequestBuilder::new sites in the loop", len(news), 4):
        for x in news:
            nd = S.nodes[x]
            term = S.trace(nd, nd.term["args"][1])
            kinds = set()
            for a_ in lib.alts(term):
                s_ = fmt_t(a_)
                if a_[0] == "field" and a_[1][0] == "downcast" and a_[1][2] in POS and "update_check_allowed" in s_:
                    kinds.add("decision")
                elif a_[0] == "agg" and a_[2] and a_[2].endswith("RequestParams::RequestParams"):
                    # constant parameters: only allowed in the ping function
                    consts = [lib.term_const(c, o) if o[0] == "const" else (o[2].split("::")[-1] if o[0] == "agg" else None) for o in a_[3]]
                    kinds.add("fixed:%s" % consts)
                else:
                    kinds.add("other:" + s_[:80])
            key = _ctxkey(nd.ctx)
            is_ping = "ping" in key.split("<")[0] or _is_ping_ctx(nd.ctx)
            if is_ping:
                ok = kinds == {"fixed:['ScheduledTask', 1, 0, 0]"}
                R.check("C05-R3", "params:" + key, ok, "ping uses fixed background parameters", "ping parameters: %s" % sorted(kinds), nd.loc())
            else:
                R.check("C05-R3", "params:" + key, kinds == {"decision"}, "params <- payload of the positive check decision",
                        "request parameters of this builder do not come from the policy decision: %s" % sorted(kinds), nd.loc())
    _builder_field_flow(R, c, sm.w)

    # ---------------------------------------------------------------- R4 install gate
    R.rule("C05-R4", "perform_install is dominated by the Ok edge of update_can_start on the same plan; deferral/denial reach no installer action")
    for (SS, tag) in ((Sc, "check"),):
        okE = [(a, b) for (a, b, nm) in sm.outcome_edges(SS, UD, "Ok")]
        ucs = sm.env(SS, "Policy", "update_can_start")
        pi = sm.env(SS, "Installer", "perform_install")
        if R.floor("C05-R4", "update_can_start Ok edges", len(okE), 1) and R.floor("C05-R4", "perform_install sites", len(pi), 1):
            r_ = reach(SS, [SS.root.entry], cut_edges=okE)
            bad = [x for x in pi + sm.env(SS, "Installer", "perform_reboot") if x in r_]
            p = path(SS, [SS.root.entry], bad, cut_edges=okE) if bad else None
            R.check("C05-R4", "install-gate", not bad, "perform_install only after UpdateDecision::Ok", "perform_install reachable without UpdateDecision::Ok: %s" % (SS.fmt_path(p) if p else ""))
            for v in ("DeferredByPolicy", "DeniedByPolicy"):
                for (a, b, nm) in sm.outcome_edges(SS, UD, v):
                    r2 = reach_pf(SS, [b])
                    bad = [x for x in r2 if SS.ev[x] and SS.ev[x][0] == "env" and SS.ev[x][1] == "Installer" and SS.ev[x][2] in ("perform_install", "perform_reboot")]
                    bad += [x for x in sm.env(SS, "Policy", "reboot_needed") if x in r2]
                    R.check("C05-R4", "no-install-after:" + v, not bad, "%s leads to no install/reboot" % v, "after %s: %s" % (v, [evname(SS, x) for x in bad]), SS.nodes[a].loc())
            # same plan
            for x in pi:
                nd = SS.nodes[x]
                plan_i = strip(SS.trace(nd, nd.term["args"][1]))
                ok = False
                det = fmt_t(plan_i)[:120]
                for y in ucs:
                    ny = SS.nodes[y]
                    plan_p = strip(SS.trace(ny, ny.term["args"][1]))
                    if plan_p == plan_i and "try_create_install_plan" in fmt_t(plan_p) and plan_p[0] == "field" and plan_p[1][0] == "downcast" and plan_p[1][2] == "Ok":
                        ok = True
                R.check("C05-R4", "same-plan", ok, "installed plan == approved plan == Ok payload of try_create_install_plan", "perform_install is not called on the plan that update_can_start approved: " + det, nd.loc())
            # decision origin
            for (a, b) in okE[:1]:
                si = guards.switch_info(SS.nodes[a].ctx.bv, SS.nodes[a].bi)
                R.check("C05-R4", "decision-origin", (lib.head_call(si.term) or "").endswith("update_can_start"), "decision <- update_can_start(plan).await on every path",
                        "the tested install decision is not on every path the result of update_can_start: " + fmt_t(si.term)[:160], SS.nodes[a].loc())

    # ---------------------------------------------------------------- R5 reboot gate
    R.rule("C05-R5", "perform_reboot only under RebootAfterUpdate::Needed, which is built only on the true edge of reboot_needed and never after an installation error; the most recent reboot_allowed answer before perform_reboot was true")
    pr = sm.env(S, "Installer", "perform_reboot")
    needed = [(a, b) for (a, b, nm) in sm.outcome_edges(S, RAU, "Needed")]
    if R.floor("C05-R5", "perform_reboot sites", len(pr), 1) and R.floor("C05-R5", "tests of RebootAfterUpdate::Needed", len(needed), 1):
        r_ = reach(S, [entry], cut_edges=needed)
        R.check("C05-R5", "needed-gate", not (set(pr) & r_), "perform_reboot only under Needed(_)", "perform_reboot reachable without RebootAfterUpdate::Needed")
        # construction sites of Needed
        sites = []
        for n in Sc.nodes:
            if n.idx in Sc.live:
                for s_ in n.block["s"]:
                    if s_["k"] == "assign" and s_["r"]["k"] == "agg" and s_["r"].get("d") == RAU and s_["r"].get("vn") == "Needed":
                        sites.append(n.idx)
        rn_true = [(a, b) for (a, b, tr) in sm.bool_edges(Sc, lambda n, t: "reboot_needed" in fmt_t(t)) if tr]
        if R.floor("C05-R5", "constructions of Needed", len(sites), 1) and R.floor("C05-R5", "tests of reboot_needed", len(rn_true), 1):
            r2 = reach(Sc, [Sc.root.entry], cut_edges=rn_true)
            R.check("C05-R5", "needed-only-if-policy-says", not (set(sites) & r2), "Needed(_) built only on reboot_needed() == true", "Needed(_) is built on a path without reboot_needed() == true")
            errs = sm.yields(Sc, "InstallerError") + sm.yields(Sc, "StateChange", "InstallationError")
            after = reach_pf(Sc, errs)
            bad = (set(sites) | set(sm.env(Sc, "Policy", "reboot_needed"))) & after
            R.check("C05-R5", "no-reboot-after-install-error", not bad, "after an installation error neither reboot_needed is asked nor Needed built",
                    "after an installation error the flow still reaches %s" % [Sc.nodes[x].loc() for x in bad])
        _errors_gate(R, sm, Sc, sites)
        # the collected errors are the failures only if every offered app consumes exactly its own installer result
        # (shared with C04-R3: the result-building table and its alignment with the offered-update filter)
        try:
            from . import c04 as _c04
            hdr_ = [cx_ for cx_ in Sc.ctxs if cx_.bv.body.get("item") == "perform_update_check" or "perform_update_check" in cx_.bv.id]
            if hdr_:
                _c04._alignment(_Alias(R, "C04-R3", "C05-R5", "alignment:"), sm, hdr_[0])
        except ImportError:
            pass
        ra = sm.env(S, "Policy", "reboot_allowed")
        ra_e = sm.bool_edges(S, lambda n, t: "reboot_allowed" in fmt_t(t))
        ra_false = [(a, b) for (a, b, tr) in ra_e if not tr]
        ra_true = [(a, b) for (a, b, tr) in ra_e if tr]
        if R.floor("C05-R5", "reboot_allowed calls", len(ra), 3) and R.floor("C05-R5", "reboot_allowed tests", len(ra_false), 3):
            for (a, b) in ra_false:
                r3 = reach(S, [b], cut_nodes=ra)
                p = path(S, [b], pr, cut_nodes=ra) if set(pr) & r3 else None
                R.check("C05-R5", "latest-answer-yes", not (set(pr) & r3), "after a negative reboot_allowed answer, perform_reboot needs a new positive answer",
                        "perform_reboot reachable after reboot_allowed() == false without asking again: %s" % (S.fmt_path(p) if p else ""), S.nodes[a].loc())
            # inside the reboot wait: no reboot without some positive answer
            wctx = S.nodes[pr[0]].ctx
            r4 = reach_in(S, [wctx.entry], wctx, cut_edges=ra_true)
            R.check("C05-R5", "some-answer-yes", not (set(pr) & r4), "perform_reboot requires reboot_allowed() == true", "perform_reboot reachable with no positive reboot_allowed answer")


class _Alias:
    """Forward rule instances of a shared sub-check under this property's rule id."""

    def __init__(self, R, src, dst, prefix):
        self.R, self.src, self.dst, self.prefix = R, src, dst, prefix

    def _r(self, rule):
        return self.dst if rule == self.src else rule

    def check(self, rule, key, *a, **k):
        return self.R.check(self._r(rule), self.prefix + key, *a, **k)

    def violation(self, rule, key, *a, **k):
        return self.R.violation(self._r(rule), self.prefix + key, *a, **k)

    def holds(self, rule, key, *a, **k):
        return self.R.holds(self._r(rule), self.prefix + key, *a, **k)

    def inconclusive(self, rule, key, *a, **k):
        return self.R.inconclusive(self._r(rule), self.prefix + key, *a, **k)

    def floor(self, rule, *a, **k):
        return self.R.floor(self._r(rule), *a, **k)

    def __getattr__(self, n):
        return getattr(self.R, n)


def _unref(t):
    while t[0] in ("ref", "deref"):
        t = t[1]
    return t


def _errors_gate(R, sm, Sc, needed_sites):
    """An installation error is *any* per-app result `Failed`: the Failed arm of the result-building closure always pushes
    its payload into one vector, and reboot_needed / Needed(_) lie behind the `is_empty() == true` edge of that same vector."""
    c = sm.c
    AIR = "installer::AppInstallResult"
    found = []
    for bid in sorted(set(cx.bv.id for cx in Sc.ctxs)):
        bv = sm.w.bv(bid)
        for bi, t in bv.calls():
            if not (lib.callee_is(t, "std::iter::Iterator::collect") and "update_check::AppResponse" in c.types[t["destt"]]["s"]):
                continue
            x = bv.trace_op(t["args"][0])
            while x[0] == "call":
                if x[1].endswith("Iterator::map") and len(x[2]) > 1:
                    for y in walk(x[2][1]):
                        if y[0] == "agg" and y[1] == "closure":
                            cb = sm.w.bv(y[2])
                            for b2, t2 in cb.calls():
                                if lib.norm(t2["callee"]).endswith("::push") and "Vec" in t2["callee"]:
                                    found.append((bv, y, cb, b2, t2))
                x = _unref(x[2][0]) if x[2] else ("undef",)
    if not found and _errors_gate_loop(R, sm, Sc, needed_sites):
        return
    if not R.floor("C05-R5", "error-collecting pushes in result-building closures", len(found), 1):
        return
    for (bv, clo, cb, pb, pt) in found:
        dst = lib.apath(cb.trace_op(pt["args"][0]))
        val = _unref(cb.trace_op(pt["args"][1]))
        is_failed_payload = val[0] == "field" and val[1][0] == "downcast" and val[1][2] == "Failed"
        R.check("C05-R5", "errors-collects-failed-payload", is_failed_payload and dst.startswith("param1."), "errors.push(<payload of AppInstallResult::Failed>)",
                "the value pushed in the result-building closure is not the Failed payload: %s <- %s" % (dst, fmt_t(val)[:120]), lib.loc(cb, pb))
        if not (is_failed_payload and dst.startswith("param1.")):
            continue
        # every Failed arm passes through the push
        n_sw = 0
        for b in sorted(cb.reach0):
            si = guards.switch_info(cb, b)
            if not (si and si.kind == "discr" and si.ty.get("d") == AIR):
                continue
            for tgt in cb.succ[b]:
                if "Failed" not in si.edge_names(cb, tgt):
                    continue
                n_sw += 1
                rets = [r for r in cb.reach_from([tgt], avoid=[pb]) if cb.blocks[r]["t"]["k"] == "return"]
                R.check("C05-R5", "failed-arm-always-collected", not rets and len(si.edge_names(cb, tgt)) == 1, "every AppInstallResult::Failed result is pushed into the error vector",
                        "a Failed install result can leave the closure without being recorded as an installation error", lib.loc(cb, b))
        R.floor("C05-R5", "matches on AppInstallResult in the result-building closure", n_sw, 1)
        try:
            k = int(dst.split(".")[1])
            vec = _unref(clo[3][k])
        except (ValueError, IndexError):
            R.inconclusive("C05-R5", "errors-gate", "cannot identify the captured error vector (%s)" % dst)
            continue

        def is_gate(n, t):
            t = _unref(t)
            return t[0] == "call" and lib.norm(t[1]).endswith("::is_empty") and t[2] and _unref(t[2][0]) == vec

        es = sm.bool_edges(Sc, is_gate)
        empty_true = [(a, b) for (a, b, tr) in es if tr]
        if not empty_true:
            # some other test of the vector (len() == 0, first(), ..) is a spelling this rule does not know: no verdict
            other = sm.bool_edges(Sc, lambda n, t: any(_unref(y) == vec for y in walk(t)))
            if other:
                R.inconclusive("C05-R5", "errors-gate", "the error vector is tested, but not through is_empty(): %s" % Sc.nodes[other[0][0]].loc())
                continue
        r_ = reach(Sc, [Sc.root.entry], cut_edges=empty_true)
        bad = (set(needed_sites) | set(sm.env(Sc, "Policy", "reboot_needed"))) & r_
        R.check("C05-R5", "errors-gate", not bad, "reboot_needed and Needed(_) lie behind `errors.is_empty() == true` on the vector that collects every Failed payload",
                "reboot_needed / Needed(_) reachable without the collected installer errors being empty: %s" % [Sc.nodes[x].loc() for x in sorted(bad)])


def _errors_gate_loop(R, sm, Sc, needed_sites):
    """The same rule when the errors are collected by a loop over the installer results in the flow itself (not by the
    closure of a `map`): the loop's `Failed` arm pushes the payload, no iteration gets round that match, and the reboot
    question lies behind `is_empty() == true` of that vector.  Returns False when no such loop exists."""
    c = sm.c
    AIR = "installer::AppInstallResult"
    done = False
    for bid in sorted(set(cx.bv.id for cx in Sc.ctxs)):
        bv = sm.w.bv(bid)
        for pb, pt in bv.calls():
            if not (lib.norm(pt.get("callee") or "").endswith("::push") and "Vec" in (pt.get("callee") or "") and len(pt["args"]) == 2):
                continue
            val = _unref(bv.trace_op(pt["args"][1]))
            if not (val[0] == "field" and val[1][0] == "downcast" and val[1][2] == "Failed"):
                continue
            vec = _unref(bv.trace_op(pt["args"][0]))
            # the match whose Failed arm holds the push
            sws = []
            for b in sorted(bv.reach0):
                si = guards.switch_info(bv, b)
                if si and si.kind == "discr" and si.ty.get("d") == AIR:
                    for tgt in bv.succ[b]:
                        # the match that *decides* the push: reached from its Failed arm and from no other arm
                        if "Failed" in si.edge_names(bv, tgt) and pb in bv.reach_from([tgt], avoid=[b]) and pb not in bv.reach_from([x for x in bv.succ[b] if x != tgt], avoid=[b]):
                            sws.append((b, tgt, si))
            if len(sws) != 1:
                continue
            b, tgt, si = sws[0]
            fwd = bv.reach_from([b])
            loop = set(x for x in fwd if b in bv.reach_from([x])) if b in bv.reach_from(bv.succ[b]) else set()
            nexts = [x for x in loop if bv.blocks[x]["t"]["k"] == "call" and lib.callee_is(bv.blocks[x]["t"], "std::iter::Iterator::next")
                     and "AppInstallResult" in c.types[bv.blocks[x]["t"]["destt"]]["s"]]
            if not loop or len(nexts) != 1:
                continue
            done = True
            nb = nexts[0]
            rets = [r for r in bv.reach_from([tgt], avoid=[pb]) if r == nb or bv.blocks[r]["t"]["k"] == "return"]
            R.check("C05-R5", "failed-arm-always-collected", not rets and len(si.edge_names(bv, tgt)) == 1, "every AppInstallResult::Failed result met by the loop is pushed into the error vector",
                    "a Failed install result can leave the iteration without being recorded as an installation error", lib.loc(bv, b))
            bypass = nb in bv.reach_from(bv.succ[nb], avoid=[b])
            R.check("C05-R5", "every-result-inspected", not bypass, "no iteration over the installer results gets round the match that records failures",
                    "an installer result can be consumed by the loop without being tested for failure (a failed install of that app is not an installation error, and the reboot question is asked)", lib.loc(bv, nb))

            def is_gate(n, t, vec=vec):
                t = _unref(t)
                return t[0] == "call" and lib.norm(t[1]).endswith("::is_empty") and t[2] and _unref(t[2][0]) == vec

            es = sm.bool_edges(Sc, is_gate)
            empty_true = [(a, b_) for (a, b_, tr) in es if tr]
            if not empty_true:
                R.inconclusive("C05-R5", "errors-gate", "the error vector filled by the loop is not tested through is_empty()")
                continue
            r_ = reach(Sc, [Sc.root.entry], cut_edges=empty_true)
            bad = (set(needed_sites) | set(sm.env(Sc, "Policy", "reboot_needed"))) & r_
            R.check("C05-R5", "errors-gate", not bad, "reboot_needed and Needed(_) lie behind `errors.is_empty() == true` on the vector that collects every Failed payload",
                    "reboot_needed / Needed(_) reachable without the collected installer errors being empty: %s" % [Sc.nodes[x].loc() for x in sorted(bad)])
    return done


def _builder_field_flow(R, c, W=None):
    RB = "request_builder::RequestBuilder"
    new = lib.one(R, "C05-R3", c, "RequestBuilder::new", item="new", impl_self=RB)
    if new:
        ret = new.trace_local(0)
        ok = False
        if ret[0] == "agg" and len(ret) > 4 and "params" in ret[4]:
            p = strip(ret[3][ret[4].index("params")])
            ok = p == ("param", 2)
        R.check("C05-R3", "new-keeps-params", ok, "RequestBuilder.params <- clone of the params argument", "RequestBuilder::new does not store its params argument: " + fmt_t(ret)[:160])
    # the parameters are fixed at construction: no other builder method writes self.params
    pw = []
    for b_ in c.bodies:
        if (b_.get("impl_self") or "").startswith(RB) and b_.get("item") != "new":
            v_ = BV.of(b_)
            for (bi_, si_, p_, r_) in v_.field_writes:
                if bi_ in v_.reach0 and "params" in smod._chain(p_)[:1]:
                    pw.append((b_["name"], lib.loc(v_, bi_)))
            rt_ = strip(v_.trace_local(0))
            if rt_[0] == "agg" and len(rt_) > 4 and "params" in rt_[4] and (rt_[2] or "").endswith("RequestBuilder::RequestBuilder"):
                pv_ = lib.apath(rt_[3][rt_[4].index("params")])
                if pv_ != "param1.params":
                    pw.append((b_["name"], "returns a builder with params <- %s" % pv_))
    R.check("C05-R3", "params-fixed-at-construction", not pw, "RequestBuilder.params is only set by new()", "a builder method replaces the request parameters after construction: %s" % pw)
    bi = lib.one(R, "C05-R3", c, "RequestBuilder::build_intermediate", item="build_intermediate", impl_self=RB)
    if bi:
        from .. import flow as _flow
        W_ = _flow.World([c])
        found = {}
        bodies_ = lib.with_private_callees(W_, bi)   # build_intermediate and the private helpers it was split into
        for hv_ in bodies_:
            for b in sorted(hv_.reach0):
                for s_ in hv_.blocks[b]["s"]:
                    if s_["k"] == "assign" and s_["r"]["k"] == "agg" and s_["r"].get("d") == "protocol::request::Request":
                        t = hv_._trace_rv(s_["r"], None, 0)
                        names = t[4]
                        found["install_source"] = lib.apath(t[3][names.index("install_source")])
        R.check("C05-R3", "installsource", found.get("install_source") == "param1.params.source", "Request.install_source <- self.params.source: %s" % found, "installsource does not come from the builder's params: %s" % found)
        # interactivity header: match on self.params.source with fg under OnDemand
        ok = False
        det = ""
        all_bodies = lib.with_private_callees(W_, bodies_[0], same_self=False)
        for hv_ in all_bodies:
          for b in sorted(hv_.reach0):
            si = guards.switch_info(hv_, b)
            if not (si and si.kind == "discr" and si.ty.get("d") == "protocol::request::InstallSource"):
                continue
            subj = lib.apath(si.term)
            from_params = "params.source" in subj
            if not from_params and subj.startswith("param"):
                # a helper taking the source as an argument: what is passed at its call sites
                pi_ = int(subj[5:].split(".")[0]) if subj[5:].split(".")[0].isdigit() else None
                sites_ = [(v2, t2) for v2 in all_bodies for _, t2 in v2.calls() if (t2.get("resolved_id") or t2.get("callee_id")) == hv_.id]
                from_params = bool(sites_) and pi_ is not None and all(pi_ - 1 < len(t2["args"]) and "params.source" in lib.apath(v2.trace_op(t2["args"][pi_ - 1])) for v2, t2 in sites_)
            if not from_params:
                continue
            vals = {}
            for tgt in hv_.succ[b]:
                strs = []
                # the header value constant is in the arm's exclusive region
                excl = hv_.reach_from([tgt]) - hv_.reach_from([x for x in hv_.succ[b] if x != tgt], avoid=[b])
                for e in sorted(excl):
                    t = hv_.blocks[e]["t"]
                    if t["k"] == "call" and lib.callee_is(t, "std::string::ToString::to_string"):
                        v = lib.term_const(c, strip(hv_.trace_op(t["args"][0])))
                        strs.append(v)
                    for s_ in hv_.blocks[e]["s"]:
                        if s_["k"] == "assign" and s_["r"]["k"] == "use" and "k" in s_["r"].get("o", {}):
                            v = lib.const_val(s_["r"]["o"]["k"])
                            if isinstance(v, str) and v not in strs:
                                strs.append(v)
                for nme in si.edge_names(hv_, tgt):
                    vals[nme] = strs
            det = str(vals)
            ok = vals.get("OnDemand") == ["fg"] and vals.get("ScheduledTask") == ["bg"]
        R.check("C05-R3", "interactivity", ok, "interactivity header fg iff params.source == OnDemand: " + det, "interactivity header is not {OnDemand: fg, ScheduledTask: bg} of params.source: " + det)
    auc = lib.one(R, "C05-R3", c, "RequestBuilder::add_update_check", item="add_update_check", impl_self=RB)
    if auc:
        found = None
        for b in sorted(auc.reach0):
            for s_ in auc.blocks[b]["s"]:
                if s_["k"] == "assign" and s_["r"]["k"] == "agg" and s_["r"].get("d") == "protocol::request::UpdateCheck":
                    t = auc._trace_rv(s_["r"], None, 0)
                    found = dict(zip(t[4], [lib.apath(x) for x in t[3]]))
        exp = {"disabled": "param1.params.disable_updates", "offer_update_if_same_version": "param1.params.offer_update_if_same_version"}
        # .. and they go on the wire under the protocol's attribute names, each left out only when false
        from .. import schema as _schema
        us = _schema.ser_schema(W, c, "protocol::request::UpdateCheck")
        got_u = [[it.get("key"), it.get("skip_if"), it.get("field")] for it in (us or {}).get("items", [])]
        R.check("C05-R3", "updatecheck-wire-names", got_u == [["updatedisabled", "false", "disabled"], ["sameversionupdate", "false", "offer_update_if_same_version"]], str(got_u),
                "the updatecheck object serialises as %s: the policy's disable-updates / same-version parameters do not reach the server under the attributes it reads" % got_u)
        if found is None:
            _updatecheck_via_callee(R, c, W, auc)
        else:
            R.check("C05-R3", "updatecheck-flags", found == exp, "updatedisabled/sameversionupdate <- params: %s" % found, "update-check flags do not come from params: %s" % found)


def _updatecheck_via_callee(R, c, W, auc):
    """add_update_check hands the parameters to a function that builds the UpdateCheck (a `From` impl, a constructor):
    every alternative that function can return carries, in each flag, either the matching parameter or a constant chosen
    under a test of that same parameter."""
    from .. import optnorm
    prod = [(bi, t) for bi, t in auc.calls() if "protocol::request::UpdateCheck" == c.types[t["destt"]].get("d") and (t.get("resolved_id") or t.get("callee_id")) in W.by_id]
    if len(prod) != 1:
        R.inconclusive("C05-R3", "updatecheck-flags", "the update check of add_update_check is neither built in place nor returned by one local function")
        return
    bi, t = prod[0]
    arg = [lib.apath(strip(auc.trace_op(a))) for a in t["args"]]
    cb = W.bv(t.get("resolved_id") or t.get("callee_id"))
    if arg != ["param1.params"]:
        R.inconclusive("C05-R3", "updatecheck-flags", "the function that builds the update check is handed %s, not the builder's parameters" % arg)
        return
    def _alts(bv_, t_, depth=0):
        t_ = strip(t_)
        if t_[0] == "phi":
            return [y for a_ in t_[1] for y in _alts(bv_, a_, depth)]
        if t_[0] == "call" and depth < 4 and not t_[2]:
            # a parameterless local constructor (`UpdateCheck::disabled()`, `Default::default()`): what it returns
            blk = bv_.blocks[t_[3]]["t"] if isinstance(t_[3], int) else {}
            cid_ = blk.get("resolved_id") or blk.get("callee_id")
            if cid_ in W.by_id:
                cv_ = W.bv(cid_)
                return _alts(cv_, cv_.trace_local(0), depth + 1)
        return [t_]

    alts = _alts(cb, cb.trace_local(0))
    tested = set()
    for b in sorted(cb.reach0):
        si = guards.switch_info(cb, b)
        if si and len(cb.succ[b]) > 1:
            tested.add(lib.apath(strip(si.term)))
    bad = []
    for a in alts:
        a = strip(a)
        if not (a[0] == "agg" and (a[2] or "").endswith("UpdateCheck::UpdateCheck") and len(a) > 4):
            R.inconclusive("C05-R3", "updatecheck-flags", "an alternative returned by %s is not an UpdateCheck built in place: %s" % (cb.name, fmt_t(a)[:80]))
            return
        for fld, par in (("disabled", "disable_updates"), ("offer_update_if_same_version", "offer_update_if_same_version")):
            v = strip(a[3][a[4].index(fld)])
            src = lib.apath(v)
            if src == "param1." + par:
                continue
            is_const = v[0] == "const" or (v[0] == "field" and strip(v[1])[0] == "call" and lib.norm(strip(v[1])[1]).endswith("Default::default"))
            if is_const and ("param1." + par) in tested:
                continue
            bad.append("%s = %s" % (fld, fmt_t(v)[:40]))
    R.check("C05-R3", "updatecheck-flags", not bad, "every UpdateCheck returned by %s takes both flags from the parameters" % cb.name,
            "%s can return an update check whose flag does not follow the parameters (%s): a policy-set flag is dropped in some combination" % (cb.name, sorted(set(bad))), lib.loc(auc, bi))


def _ctxkey(ctx):
    parts = []
    while ctx is not None:
        parts.append(ctx.bv.body.get("item") or ctx.bv.id.split("::")[-2])
        ctx = ctx.parent
    return "<".join(parts[:3])


def _is_ping_ctx(ctx):
    return lib.is_ping_body(ctx.bv)
