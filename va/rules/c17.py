"""C17 — Mock Omaha server conforms to the client it doubles for (structural clauses)."""
import json, os, re
from ..core import BV, strip, walk, fmt_t, is_logging_span
from .. import lib, guards, terms, flow, schema, facts, census

T = set(terms.TRANSPARENT) | {"std::ops::Try::branch", "std::result::Result::<T, E>::map_err"}


def run(F, R):
    c = F.client
    s = F.server
    W = flow.World([s, c])
    Wc = flow.World([c])
    R.trust("p256 signing, url::Url::query_pairs, serde_json::json!, hyper")
    R.assume("end-to-end outcomes of driving the real state machine against the mock are not decided (dynamic); only the default (tokio) configuration of the mock server is built here, cfg(fasync)/Fuchsia code is not analysed")
    table = json.load(open(os.path.join(facts.VERIF, "tables", "omaha_v3_response.json")))
    me = lib.one(R, "C17-R1", s, "make_etag", item="make_etag", kind="fn")
    mth = lib.one(R, "C17-R1", c, "client make_transaction_hash", item="make_transaction_hash", kind="fn", name_contains="cup_ecdsa::make_transaction_hash")
    if not (me and mth):
        return
    N = {1: "request_body", 2: "uri", 3: "keys", 4: "response_data"}

    # ---------------------------------------------------------------- R1 signer / verifier agreement
    R.rule("C17-R1", "the server signs the same digest the client verifies (SHA-256(SHA-256(req) || SHA-256(resp) || cup2key value)) and lays the ETag out as hex(DER signature):hex(SHA-256(req)), the order the client splits it in")
    from .. import optnorm
    # "and for no other": the cup2key value both sides sign is "<key id>:<nonce>", and two exchanges differ in it only if
    # the client's nonce prints injectively (64 zero-padded hex digits) — rule shared with C01-R3 / C03-R1
    from . import c01 as _c01
    _c01.nonce_display(R, "C17-R1", c, Wc)
    # the signing code may have been split into private helpers of make_etag: look for the digest there too, and read the
    # helper's parameters as the arguments make_etag passes
    dg_bv, dg_names = me, N
    fin_s = [bi for bi, t in me.calls() if lib.callee_is(t, "sha2::Digest::finalize")]
    if not fin_s:
        for hv_ in lib.with_private_callees(W, me, same_self=False)[1:]:
            f2 = [bi for bi, t in hv_.calls() if lib.callee_is(t, "sha2::Digest::finalize")]
            if f2:
                call_ = [t for _, t in me.calls() if (t.get("resolved_id") or t.get("callee_id")) == hv_.id]
                if call_:
                    dg_bv, fin_s = hv_, f2
                    dg_names = {i_ + 1: terms.render(me, optnorm.inline_all(W, me, me.trace_op(a_)), W, N, transparent=T) for i_, a_ in enumerate(call_[0]["args"])}
                    break
    fin_c = [bi for bi, t in mth.calls() if lib.callee_is(t, "sha2::Digest::finalize")]
    if R.floor("C17-R1", "digest finalisations", min(len(fin_s), len(fin_c)), 1):
        ds = terms.digest_chain(dg_bv, W, fin_s[0], dg_names)
        from .. import optnorm
        dc = terms.digest_chain(mth, Wc, fin_c[0], {1: "request_body", 2: "response_data", 3: "key_id", 4: "nonce"}, xform=lambda t_: optnorm.inline_all(Wc, mth, t_))
        ok = ds is not None and dc is not None and ds[0] == dc[0] and len(ds[1]) == len(dc[1]) == 3 and ds[1][0] == dc[1][0] and ds[1][1] == dc[1][1]
        R.check("C17-R1", "digest-prefix", ok, "server %s / client %s" % (ds and ds[1][:2], dc and dc[1][:2]), "server digest %s differs from client digest %s" % (ds, dc))
        third = ds[1][2] if ds and len(ds[1]) == 3 else None
        # the third component is the value of the query pair named cup2key of the request URI
        third_c = census._strip_adapters(third) if third is not None else None   # an owned copy of the value is the value
        okt = third_c is not None and "query_pairs(" in third_c and "'cup2key'" in third_c and third_c.endswith(".1") and "find(" in third_c and "display(uri)" in third_c
        R.check("C17-R1", "digest-cup2key", okt, str(third)[:160], "third digest component is %s, expected the value of the request's cup2key query parameter" % third)
        R.check("C17-R1", "client-third-component", dc is not None and dc[1][2] == "fmt('{0}:{1}', display(key_id), display(nonce))", str(dc and dc[1][2]), "client third component: %s" % (dc and dc[1][2]))
    ret = [x for x in walk(optnorm.inline_all(W, me, me.trace_local(0))) if x[0] == "agg" and x[2] and x[2].endswith("Option::Some")]
    ret = [x for x in ret if terms.format_term(me, x[3][0]) is not None]
    if R.floor("C17-R1", "Some(etag) construction", len(ret), 1):
        ft = terms.format_term(me, ret[0][3][0])
        ok = False
        det = ""
        if ft:
            parts = [terms.render(me, a, W, N, transparent=T) for _, a in ft[1]]
            det = "%s %s" % (ft[0], [p[:80] for p in parts])
            ok = ft[0] == "{0}:{1}" and len(parts) == 2 and parts[0].startswith("encode(to_der(sign(") and "Sha256::finalize(" in parts[0] and parts[1] == "encode(Sha256::digest(request_body))"
        R.check("C17-R1", "etag-layout", ok, det[:200], "ETag is formatted as %s" % det[:240])
        if ft and len(ft[1]) == 2:
            sg = [x for x in walk(ft[1][0][1]) if x[0] == "call" and lib.norm(x[1]).endswith("Signer::sign")]
            if sg:
                key = terms.render(me, sg[0][2][0], W, N, transparent=T)
                R.check("C17-R1", "signing-key", "find(keys, unwrap(parse::<u64>(unwrap(split_once(" in key and "'cup2key'" in key and ", 58)).0)))@Some.0" in key, key[:160], "signing key is %s" % key[:200])
    vr = lib.bodies(c, item="verify_response", impl_self="cup_ecdsa::StandardCupv2Handler", impl_trait="cup_ecdsa::Cupv2RequestHandler")
    if R.floor("C17-R1", "client verify_response", len(vr), 1):
        v = BV.of(vr[0])
        # (the split may sit in a private helper of verify_response)
        cand = [v] + [Wc.bv(i) for i in census.local_callees(Wc, v) if Wc.by_id[i].get("kind") == "fn"]
        so = [(v2, t) for v2 in cand for _, t in v2.calls() if lib.callee_is(t, "split_once")]
        sep = lib.term_const(c, strip(so[0][0].trace_op(so[0][1]["args"][1]))) if so else None
        R.check("C17-R1", "client-split", sep == 58, "client splits the ETag at ':'", "client splits at %r" % sep)

    # ---------------------------------------------------------------- R2 key lookup
    _forced_etag_rule(R, s, W)
    R.rule("C17-R2", "PrivateKeys::find consults the latest key and every historical key, by id equality")
    fd = lib.one(R, "C17-R2", s, "PrivateKeys::find", item="find", impl_self="PrivateKeys")
    if fd:
        alts = sorted(terms.render(fd, a, W, {1: "self", 2: "id"}) for a in lib.alts(fd.trace_local(0)))
        chain_forms = ("map(find(chain(once(self.latest), iter(self.historical)), |$1| Eq($1.id, id)), |$1| $1.key)",
                       "map(find(chain(once(self.latest), iter(self.historical)), |$1| eq($1.id, id)), |$1| $1.key)",
                       "map(find(chain(once(self.latest), self.historical), |$1| Eq($1.id, id)), |$1| $1.key)")
        if len(alts) == 1 and alts[0] in chain_forms:
            # the same scan as one iterator chain: latest first, then every historical key, first id match wins
            R.holds("C17-R2", "results", "find = " + alts[0])
            R.holds("C17-R2", "comparisons", "id equality in the find predicate")
            R.holds("C17-R2", "loop-exhaustive", "Iterator::find scans until a match or exhaustion")
            fd = None
    if fd:
        exp = sorted(["None{}", "Some{self.latest.key}", "Some{next(into_iter(self.historical))@Some.0.key}"])
        R.check("C17-R2", "results", alts == exp, str(alts), "find returns %s, expected %s" % (alts, exp))
        eqs = sorted(terms.render(fd, fd.trace_op(fd.blocks[a]["t"]["o"]), W, {1: "self", 2: "id"}) for (a, b, tr) in fd.bool_edges(lambda t: (t[0] == "call" and t[1] == "std::cmp::PartialEq::eq") or (t[0] == "binop" and t[1] == "Eq")) if tr)
        R.check("C17-R2", "comparisons", eqs in (sorted(["eq(self.latest.id, id)", "eq(next(into_iter(self.historical))@Some.0.id, id)"]), sorted(["Eq(self.latest.id, id)", "Eq(next(into_iter(self.historical))@Some.0.id, id)"])), str(eqs), "id comparisons: %s" % eqs)
        loops = fd.sccs()
        ok = len(loops) == 1
        if ok:
            L = loops[0]
            exits = [(a, b) for a in L for b in fd.succ[a] if b not in L]
            for (a, b) in exits:
                si = guards.switch_info(fd, a)
                is_exhaust = si is not None and si.kind == "discr" and (lib.head_call(si.term) or "").endswith("Iterator::next") and si.edge_names(fd, b) == ["None"]
                is_found = si is not None and si.kind == "bool"
                if not (is_exhaust or is_found):
                    ok = False
        R.check("C17-R2", "loop-exhaustive", ok, "the historical keys are scanned until a match or exhaustion", "the scan over historical keys can stop early")
    hs = lib.bodies(c, item="new", impl_self="cup_ecdsa::StandardCupv2Handler")
    if hs:
        from . import c01 as _c01
        okm, detm = _c01.key_map_registers_all(BV.of(hs[0]), Wc)
        if okm is None:
            R.inconclusive("C17-R2", "client-side-map", "the client's key map is built in a way this rule does not know: " + detm)
        else:
            R.check("C17-R2", "client-side-map", okm, "client registers latest + historical", "client key map: %s" % detm)

    # ---------------------------------------------------------------- R3 response literal ⊇ client-required keys
    R.rule("C17-R3", "for every configured response kind except InvalidResponse the emitted JSON contains every key the client's parser requires at that position; InvalidResponse lacks one")
    co = [b for b in s.bodies if b["id"] == "mock_omaha_server::handle_omaha_request::{closure#0}"]
    if R.floor("C17-R3", "handle_omaha_request", len(co), 1):
        cv = BV.of(co[0])
        tv = [t for _, t in cv.calls() if lib.callee_is(t, "serde_json::to_vec")]
        if R.floor("C17-R3", "response serialisation", len(tv), 1):
            top = schema.json_shape(cv, W, cv.trace_op(tv[0]["args"][0]))
            miss = _missing(top, "protocol::response::parse_json_response::ResponseWrapper", table, skip=("app",))
            R.check("C17-R3", "envelope", not miss, "response envelope has all required keys", "response envelope lacks %s" % miss)
            app_t = (((top.get("object") or {}).get("response") or {}).get("object") or {}).get("app", {})
            R.check("C17-R3", "apps-are-a-list", app_t.get("type") == "&std::vec::Vec<serde_json::Value>", str(app_t.get("type")), "`app` is built from %s" % app_t.get("type"))
            # R4: request order
            R.rule("C17-R4", "the response lists exactly the requested apps in request order (iter -> map -> collect over the request's app array)")
            term = app_t.get("term") or ""
            app_term = None
            for bi_, t_ in cv.calls():
                if lib.norm(t_.get("callee")).endswith("Iterator::collect") and "Vec<serde_json::Value>" in lib.norm(cv.crate.types[t_["destt"]]["s"]):
                    app_term = terms.render(cv, ("call", t_["callee"], [cv.trace_op(a) for a in t_["args"]], bi_), W, {})
            term = app_term or ""
            R.check("C17-R4", "request-order", term.startswith("collect::<std::vec::Vec<serde_json::Value>>(map(iter(unwrap(as_array(unwrap(get(unwrap(get(") and "'request'" in term and "'app'" in term and ", |$1| " in term and not any(k in term.split("|$1|")[0] for k in ("filter", "skip", "take", "rev(", "step_by")),
                    term[:120], "app list is built as %s" % term[:200])
        # a request without any updatecheck (event reports, pings) must get past the configured-app-count assertion: the
        # assertion's failing branch is reachable only when the count is not zero
        fails_ = [bi for bi, t in cv.calls(reachable_only=True) if t.get("t") is None and ("assert_failed" in (t.get("callee") or "") or "panic" in (t.get("callee") or "")) and not is_logging_span(t["sp"])]
        cnt_sw = []
        for bi in sorted(cv.reach0):
            tt_ = cv.blocks[bi]["t"]
            if tt_["k"] == "switch" and cv.switch_subject(bi) is None and cv.crate.types[tt_["ot"]]["s"] in ("usize", "u32", "u64") and any(a_[0] == 0 for a_ in tt_.get("arms", [])):
                if "count(" in terms.render(cv, cv.trace_op(tt_["o"]), W, {}) and "updatecheck" in terms.render(cv, cv.trace_op(tt_["o"]), W, {}):
                    cnt_sw.append((bi, [a_[1] for a_ in tt_["arms"] if a_[0] == 0][0]))
        # the assertion in question: the failing side of `count == configured apps`
        cnt_asserts = []
        for bi in sorted(cv.reach0):
            tt_ = cv.blocks[bi]["t"]
            if tt_["k"] == "switch" and cv.switch_subject(bi) is None and cv.crate.types[tt_["ot"]]["s"] == "bool":
                r_ = terms.render(cv, cv.trace_op(tt_["o"]), W, {})
                if r_.startswith(("Eq(count(", "eq(count(")) or ("count(" in r_[:12] and "updatecheck" in r_):
                    cnt_asserts += [f_ for f_ in fails_ if "assert_failed" in (cv.blocks[f_]["t"].get("callee") or "") and f_ in cv.succ[bi]]
        # edges on which the count is known to be non-zero: the non-zero arms of `match count { 0 => .., n => .. }`, or the
        # true side of `count != 0` / `count > 0`, the false side of `count == 0`
        nonzero = []
        for sb_, z_ in cnt_sw:
            nonzero += [(sb_, b_) for b_ in cv.succ[sb_] if b_ != z_]

        def _cnt_cmp(t, ops):
            t = strip(t)
            return t[0] == "binop" and t[1] in ops and "count(" in fmt_t(t[2]) and lib.term_const(cv.crate, strip(t[3])) == 0
        nonzero += [(a, b) for (a, b, tr) in cv.bool_edges(lambda t: _cnt_cmp(t, ("Ne", "Gt"))) if tr]
        nonzero += [(a, b) for (a, b, tr) in cv.bool_edges(lambda t: _cnt_cmp(t, ("Eq",))) if not tr]
        if cnt_asserts:
            R.check("C17-R3", "no-updatecheck-requests-pass-the-count-check", bool(nonzero) and all(cv.dominated_by_edge(bi, nonzero) for bi in cnt_asserts),
                    "the app-count assertion is skipped for requests without updatecheck", "a request without updatecheck (event report, ping) reaches the app-count assertion and panics")
        cl = [b for b in s.bodies if b["kind"] == "closure" and b.get("parent") == co[0]["id"] and any(lib.callee_is(t, "serde_json::to_value") for _, t in BV.of(b).calls())]
        cl = [b for b in cl if len(BV.of(b).blocks) > 100]
        if R.floor("C17-R3", "per-app response closure", len(cl), 1):
            av = BV.of(cl[0])
            shape = schema.json_shape(av, W, av.trace_local(0))
            alts = shape.get("oneof") or [shape]
            with_uc = [a for a in alts if "updatecheck" in (a.get("object") or {})]
            without = [a for a in alts if "updatecheck" not in (a.get("object") or {})]
            for tag, group in (("updatecheck-app", with_uc), ("event-app", without)):
                for a in group:
                    miss = _missing(a, "protocol::response::App", table, skip=("updatecheck",))
                    R.check("C17-R3", "app-object:" + tag, not miss, "app object has appid/status (+cohort keys)", "app object lacks %s" % miss)
            # .. "listing exactly the requested apps": each app object echoes the request entry's own appid value, untransformed
            for tag, group in (("updatecheck-app", with_uc), ("event-app", without)):
                for a in group:
                    idt = str(((a.get("object") or {}).get("appid") or {}).get("term"))
                    R.check("C17-R3", "appid-echoed:" + tag, "'appid'" in idt and "param2" in idt and not re.search(r"lower|upper|trim|replace|format|fmt\(|strip_|split|chars\(|bytes\(|\[\.\.|get\(\.\.", idt), idt[:80],
                            "the app object's appid is %s, not the request entry's appid as sent: the response does not list exactly the requested apps" % idt[:100])
            R.check("C17-R3", "app-variants", len(with_uc) == 1 and len(without) == 1, "one app shape with, one without updatecheck", "app shapes: %d with, %d without updatecheck" % (len(with_uc), len(without)))
            # per response kind
            sw = None
            for bi in sorted(av.reach0):
                si = guards.switch_info(av, bi)
                if si and si.kind == "discr" and si.ty.get("d") == "OmahaResponse" and len(av.succ[bi]) > 1:
                    sw = bi
            ucl = None
            for bi, t in av.calls():
                if lib.callee_is(t, "serde_json::to_value"):
                    tys = [lib.norm(s.types[x]["s"]) for x in t.get("substs", []) if isinstance(x, int)]
                    if tys == ["&serde_json::Value"]:
                        a0 = t["args"][0]
                        pl = a0.get("m") or a0.get("c")
                        # &updatecheck
                        tr = av.trace_op(a0)
                        for (dbi, si_, kind, x) in av.defs.get(pl["l"], []):
                            if kind == "rv" and x["k"] == "ref" and not x["p"].get("p"):
                                ucl = x["p"]["l"]
            if sw is None or ucl is None:
                R.inconclusive("C17-R3", "per-kind", "could not locate the match on OmahaResponse / the updatecheck value")
            else:
                si, arms = terms.arm_terms(av, sw, ucl)
                patched = [bi_ for bi_, t_ in av.calls() if (t_.get("callee") or "").endswith("IndexMut::index_mut") and t_.get("argt")
                           and [s.types[x]["s"] for x in t_["argt"] if isinstance(x, int)][:1] == ["&mut serde_json::Value"]]
                adt = s.adts.get("OmahaResponse")
                R.floor("C17-R3", "OmahaResponse variants", len(adt["variants"]) if adt else 0, 5)
                for vn, t_ in sorted(arms.items()):
                    sh = schema.json_shape(av, W, t_)
                    miss = _missing(sh, "protocol::response::UpdateCheck", table)
                    if vn == "InvalidResponse":
                        R.check("C17-R3", "kind:" + vn, bool(miss), "lacks %s (configured unparseable outcome)" % miss, "InvalidResponse is accepted by the client's parser")
                    else:
                        R.check("C17-R3", "kind:" + vn, not miss, "updatecheck has every key the client requires", "%s response lacks %s: the client's parser rejects it" % (vn, miss))
                    st = ((sh.get("object") or {}).get("status") or {}).get("term")
                    urg = ((sh.get("object") or {}).get("_urgent_update") or {}).get("term")
                    if patched and vn in ("UrgentUpdate", "Update", "NoUpdate", "InvalidURL"):
                        pv_ = _patched_urgent(av, patched)
                        if pv_ is not None and pv_[0] == "shared":
                            R.violation("C17-R3", "urgent-flag:" + vn, "the `_urgent_update` attribute is written from state shared by all apps of the response (%s), not from this app's configured decision" % pv_[1][:80], lib.loc(av, patched[0]))
                        elif pv_ is not None and pv_[0] == "const-under" and pv_[1] == ["UrgentUpdate"]:
                            R.holds("C17-R3", "urgent-flag:" + vn, "`_urgent_update: true` is inserted exactly when the configured decision is UrgentUpdate")
                        else:
                            R.inconclusive("C17-R3", "urgent-flag:" + vn, "the updatecheck object is modified after it is built (`value[key] = ..`); the per-kind `_urgent_update` flag is not read from that spelling")
                    elif vn == "UrgentUpdate":
                        R.check("C17-R3", "urgent-flag:" + vn, str(urg) in ("true", "const true", "True"), "_urgent_update: true", "the UrgentUpdate answer carries _urgent_update = %s: the configured decision is not the one the client reads" % urg)
                    elif vn in ("Update", "NoUpdate", "InvalidURL"):
                        R.check("C17-R3", "urgent-flag:" + vn, urg is None or str(urg) in ("false", "const false", "False"), "no urgent flag", "%s answers with _urgent_update = %s" % (vn, urg))
                    if vn in ("Update", "UrgentUpdate", "InvalidURL"):
                        R.check("C17-R3", "status:" + vn, st == "'ok'", str(st), "%s answers status %s" % (vn, st))
                    if vn == "NoUpdate":
                        R.check("C17-R3", "status:" + vn, st == "'noupdate'", str(st), "NoUpdate answers status %s" % st)

    # ---------------------------------------------------------------- R5 reconfiguration
    R.rule("C17-R5", "set_responses replaces the whole response map under the lock; every omaha request takes its snapshot of the server under the lock first")
    # what a reconfiguration document means: an assertion key that is left out asserts nothing (None), it does not fall back
    # to a sample value of some Default impl (the next request would be checked against a version nobody configured)
    ds_ = schema.de_schema(W, s, "ResponseAndMetadata")
    if ds_ is None or not ds_.get("fields"):
        R.inconclusive("C17-R5", "config-omitted-assertion-means-none", "the deserialisation of ResponseAndMetadata could not be read")
    else:
        for f_ in ds_["fields"]:
            if f_["key"] in ("version", "cohort_assertion"):
                R.check("C17-R5", "config-omitted-assertion-means-none:" + f_["key"], not f_.get("default") and not f_.get("required"), "absent `%s` deserialises to None" % f_["key"],
                        "an omitted `%s` is filled from a Default value instead of meaning 'no assertion': a reconfiguration that leaves it out does not take effect as written" % f_["key"])
    hs_ = [b for b in s.bodies if b["id"] == "mock_omaha_server::handle_set_responses::{closure#0}"]
    if R.floor("C17-R5", "handle_set_responses", len(hs_), 1):
        hv = BV.of(hs_[0])
        ws = [(bi, p, r) for (bi, si_, p, r) in hv.field_writes if bi in hv.reach0 and [e.get("n") for e in p.get("p", []) if e["k"] == "field"][-1:] == ["responses_by_appid"]]
        wv_, wcall_ = hv, None
        if not ws:
            # the locked swap may have been moved into a private async helper that is handed the parsed map
            for (cbi_, ct_, cv_) in lib.async_callees(W, hv):
                w2 = [(bi, p, r) for (bi, si_, p, r) in cv_.field_writes if bi in cv_.reach0 and [e.get("n") for e in p.get("p", []) if e["k"] == "field"][-1:] == ["responses_by_appid"]]
                if w2:
                    ws, wv_, wcall_ = w2, cv_, (cbi_, ct_)
                    break
        ok = len(ws) == 1
        det = ""
        if ok:
            base = terms.render(wv_, wv_.trace_place({"l": ws[0][1]["l"]}), W, {}, transparent=T)
            vt0_ = wv_._trace_rv(ws[0][2], None, 0)
            if wcall_ is not None:
                up_ = lib.async_param_to_arg(W, hv, wcall_[1], wv_, vt0_)
                val = terms.render(hv, up_, W, {}, transparent=T) if up_ is not None else "?" + terms.render(wv_, vt0_, W, {}, transparent=T)
            else:
                val = terms.render(hv, vt0_, W, {}, transparent=T)
            det = "%s.responses_by_appid = %s" % (base[:80], val[:80])
            ok = re.search(r"(?<![A-Za-z_])lock\(", base) is not None and "try_lock" not in base and val.startswith("expect(from_slice(")
        R.check("C17-R5", "whole-map-under-lock", ok, det, "set_responses: %s" % det)
        if ws:
            parsed = [bi for bi, t in hv.calls() if lib.callee_is(t, "serde_json::from_slice")]
            skip = set(hv.exits()) & hv.reach_from(parsed, avoid=[w[0] for w in ws] if wcall_ is None else [wcall_[0]])
            if wcall_ is not None:
                # .. and inside the helper every path to its end passes the assignment
                skip |= set(wv_.exits()) & wv_.reach_from([0], avoid=[w[0] for w in ws])
            R.check("C17-R5", "reconfiguration-always-applied", bool(parsed) and not skip, "once the new map is parsed, every path of handle_set_responses to its answer passes the assignment of the new map",
                    "handle_set_responses can answer without having replaced the response map (e.g. when the lock is busy): the reconfiguration is silently dropped")
    if co:
        cv = BV.of(co[0])
        first = None
        helpers_ = {bi_: cv2_ for (bi_, t2_, cv2_) in lib.async_callees(W, cv)}

        def _exec_order(v_):
            # blocks in the order control reaches them from the entry (block numbers say nothing once a helper was inlined)
            seen_, order_, q_ = {0}, [], [0]
            while q_:
                b_ = q_.pop(0)
                order_.append(b_)
                for n_ in v_.succ[b_]:
                    if n_ not in seen_:
                        seen_.add(n_)
                        q_.append(n_)
            return order_

        def _first_relevant(v_):
            for bi in _exec_order(v_):
                t = v_.blocks[bi]["t"]
                if t["k"] == "call" and not is_logging_span(t["sp"]) and lib.norm(t.get("callee") or "").split("::")[-1] in ("lock", "method", "is_empty", "to_bytes", "get", "uri"):
                    return lib.norm(t.get("callee"))
                if v_ is cv and bi in helpers_:
                    f2 = _first_relevant(helpers_[bi])     # a private async helper: what it does first
                    if f2 is not None:
                        return f2
            return None
        first = _first_relevant(cv)
        R.check("C17-R5", "snapshot-first", first is not None and first.endswith("Mutex::<T>::lock"), str(first), "the first action of a request is %s, not taking the lock" % first)
        cl_ = [t for v_ in [cv] + list(helpers_.values()) for _, t in v_.calls() if lib.callee_is(t, "std::clone::Clone::clone") and "OmahaServer" in (t.get("resolved") or "")]
        R.check("C17-R5", "snapshot-clone", len(cl_) == 1, "the server state is cloned once per request", "server state cloned %d times" % len(cl_))

    # ---------------------------------------------------------------- R6 handler panic census
    R.rule("C17-R6", "every panic-capable site of the request handlers is either a by-design assertion on the configured expectations (individually allowlisted) or reported")
    allow = json.load(open(os.path.join(facts.VERIF, "tables", "panic_allowlist.json")))["entries"]
    idx = {(e["site"], e["what"]): e for e in allow if e.get("crate") == "mock_omaha_server"}
    # second chance for the test server's by-design assertions: the same operation on the same literal keys, operand spelt differently
    shape_idx = {(e["site"], census.site_shape(e["what"])): e for e in allow if e.get("crate") == "mock_omaha_server"}
    roots = [b["id"] for b in s.bodies if b["id"].startswith("mock_omaha_server::handle_") or b["id"].startswith("mock_omaha_server::make_etag") or b["name"].endswith("PrivateKeys::find")]
    reach = census.reachable_bodies(W, roots)
    reach = [r for r in reach if r.startswith("mock_omaha_server::")]
    n = 0
    for bid in sorted(reach):
        bv = W.bv(bid)
        for st in census.panic_sites(bv):
            n += 1
            wh = census.site_what(W, bv, st)
            e = idx.get((st["desc"], wh)) or shape_idx.get((st["desc"], census.site_shape(wh)))
            pr = _infallible_json(bv, st) or _json_object_index(bv, st)
            if pr:
                R.holds("C17-R6", st["key"], "proved: " + pr)
            elif e:
                R.holds("C17-R6", st["key"], "allowlisted: " + e["reason"])
                if "updatedisabled'" in wh and "assertion failed" in wh:
                    # by design this assertion is about the updatecheck of an entry: entries without one (event reports,
                    # pings) must not meet it, or the server panics instead of answering them
                    g_ = _under_updatecheck(bv, st["bi"])
                    if g_ is None:
                        R.inconclusive("C17-R6", "updatedisabled-assertion-only-for-updatechecks", "no test of `get(\"updatecheck\")` found in %s" % bv.name)
                    else:
                        R.check("C17-R6", "updatedisabled-assertion-only-for-updatechecks:" + ("enabled" if "!updatedisabled" in wh else "disabled"), g_, "evaluated only behind `app.get(\"updatecheck\")` being present",
                                "the updatedisabled assertion is evaluated for request entries without an updatecheck (an event report or ping for such an app panics the server instead of being answered)", st["loc"])
            else:
                R.violation("C17-R6", st["key"], "panic-capable site %s in %s is reachable on requests and not allowlisted" % (st["desc"], bv.name), st["loc"])
    R.floor("C17-R6", "panic-capable sites in the handlers", n, 10)
    used = set()
    for bid in reach:
        bv = W.bv(bid)
        for st in census.panic_sites(bv):
            if not (_infallible_json(bv, st) or _json_object_index(bv, st)):
                wh = census.site_what(W, bv, st)
                used.add((st["desc"], wh))
                used.add(("shape", st["desc"], census.site_shape(wh)))
    stale = [k for k in idx if k not in used and ("shape", k[0], census.site_shape(k[1])) not in used]
    # an entry whose site is gone excuses nothing; it is reported, not alarmed on (removing an assertion cannot break the property)
    R.holds("C17-R6", "allowlist-not-stale", "every server allowlist entry names an existing site" if not stale else "NOTE: %d allowlist entries no longer match a site (harmless; prune tables/panic_allowlist.json): %s" % (len(stale), [k[1][:50] for k in stale]))


def _is_some(t, env, W=None, depth=0):
    """Three-valued `is_some()` of an Option-valued term under an assignment of the two sources of an ETag
    (env = {"override": bool, "induced": bool}); None = not decided from this spelling."""
    if depth > 20:
        return None
    t = strip(t)
    if t[0] == "agg" and t[1] == "adt":
        vn = (t[2] or "").rsplit("::", 1)[-1]
        return True if vn == "Some" else (False if vn == "None" else None)
    if t[0] == "phi":
        vs = set(_is_some(a, env, W, depth + 1) for a in t[1])
        return vs.pop() if len(vs) == 1 else None
    if t[0] == "field" and lib.apath(t).endswith("etag_override"):
        return env["override"]
    if t[0] == "call":
        nm = lib.norm(t[1])
        last = nm.rsplit("::", 1)[-1]
        if last == "make_etag":
            return env["induced"]
        if nm.startswith(("std::option::Option", "core::option::Option")):
            a = t[2]
            if last in ("as_ref", "as_mut", "as_deref", "as_deref_mut", "cloned", "copied", "map", "inspect", "take", "clone") and a:
                return _is_some(a[0], env, W, depth + 1)
            if last in ("or", "xor") and len(a) == 2:
                x, y = _is_some(a[0], env, W, depth + 1), _is_some(a[1], env, W, depth + 1)
                if last == "or":
                    return True if (x is True or y is True) else (False if (x is False and y is False) else None)
                return None if x is None or y is None else (x != y)
            if last == "and" and len(a) == 2:
                x, y = _is_some(a[0], env, W, depth + 1), _is_some(a[1], env, W, depth + 1)
                return False if (x is False or y is False) else (True if (x is True and y is True) else None)
            if last == "or_else" and len(a) == 2:
                x = _is_some(a[0], env, W, depth + 1)
                if x is True:
                    return True
                clo = [y for y in walk(a[1]) if y[0] == "agg" and y[1] == "closure"]
                if clo and W is not None and clo[0][2] in W.by_id:
                    cb = W.bv(clo[0][2])
                    y = _is_some(lib.subst_params(cb.trace_local(0), [clo[0]]), env, W, depth + 1)
                    return y if x is False else (True if y is True else None)
                return None
        if last in ("clone", "to_owned", "into", "from") and t[2]:
            return _is_some(t[2][0], env, W, depth + 1)
    return None


def _forced_etag_rule(R, s, W):
    """The configured `etag_override` is sent on every answered request, also when no ETag can be induced (no cup2key, unknown key)."""
    hs = [b for b in s.bodies if b["id"].endswith("handle_omaha_request::{closure#0}")]
    if not R.floor("C17-R1", "handle_omaha_request body", len(hs), 1):
        return
    bv = BV.of(hs[0])
    sites = [bi for bi, t in bv.calls(reachable_only=True) if (t.get("callee") or "").endswith("Builder::header") and len(t["args"]) > 2 and "header::ETAG" in fmt_t(bv.trace_op(t["args"][1]))]
    if not R.floor("C17-R1", "ETag header sites", len(sites), 1):
        return
    verdicts = []
    for hb in sites:
        gate = None
        for x in sorted(bv.reach0):
            si = guards.switch_info(bv, x)
            if si and si.kind == "discr" and len(bv.succ[x]) > 1 and si.ty.get("d") == "std::option::Option" and ("etag_override" in fmt_t(si.term) or "make_etag" in fmt_t(si.term)):
                for tg in bv.succ[x]:
                    if si.edge_names(bv, tg) == ["Some"] and bv.dominated_by_edge(hb, [(x, tg)]):
                        gate = si
        if gate is None:
            verdicts.append(None)
            continue
        forced_only = _is_some(gate.term, {"override": True, "induced": False}, W)
        induced_only = _is_some(gate.term, {"override": False, "induced": True}, W)
        verdicts.append((forced_only, induced_only))
    if any(v is None or None in v for v in verdicts):
        R.inconclusive("C17-R1", "forced-etag-sent-whenever-configured", "the ETag header is set under a test this rule cannot evaluate over {etag_override, make_etag(..)}")
        return
    R.check("C17-R1", "forced-etag-sent-whenever-configured", any(v[0] for v in verdicts), "with etag_override set and no induced ETag the header is still sent",
            "a configured etag_override is dropped when no ETag can be induced from the request (no cup2key / unknown key): the forced-ETag outcome is not produced", lib.loc(bv, sites[0]))
    R.check("C17-R1", "induced-etag-sent-without-override", any(v[1] for v in verdicts), "without an override the induced ETag is sent", "the induced ETag is not sent when no override is configured", lib.loc(bv, sites[0]))


def _patched_urgent(av, patched):
    """`updatecheck["_urgent_update"] = X` after the object is built: ("shared", X) when X is read from a variable captured
    by the per-app closure, ("const-under", [variants]) when X is the constant true and the insertion is dominated by a test
    that the configured response is one of `variants`, else None."""
    for pb in patched:
        t = av.blocks[pb]["t"]
        if len(t.get("args", [])) != 2 or lib.term_const(av.crate, strip(av.trace_op(t["args"][1]))) != "_urgent_update":
            continue
        dl = t["dest"]["l"]
        val = None
        front = list(av.succ[pb])
        for _ in range(4):
            nxt = []
            for nb in front:
                for s_ in av.blocks[nb]["s"]:
                    if s_["k"] == "assign" and s_["p"]["l"] == dl and [e["k"] for e in s_["p"].get("p", [])] == ["deref"]:
                        val = av._trace_rv(s_["r"], None, 0)
                nxt += av.succ[nb]
            if val is not None:
                break
            front = nxt
        if val is None:
            return None
        # a test of captured (shared) state that decides whether the attribute is written at all
        for sb in sorted(av.reach0):
            si = guards.switch_info(av, sb)
            if si is not None and si.kind == "bool" and len(av.succ[sb]) > 1 and "param1" in fmt_t(si.term) and "OmahaResponse" not in fmt_t(si.term) \
                    and any(av.dominated_by_edge(pb, [(sb, tg)]) for tg in av.succ[sb]):
                return ("shared", fmt_t(si.term))
        ft = fmt_t(val)
        if "param1" in ft:
            return ("shared", ft)
        consts = [lib.term_const(av.crate, x) for x in walk(val) if x[0] == "const"]
        is_true = (1 in consts or True in consts) and "param" not in ft
        if not is_true:
            return None
        under = None
        for sb in sorted(av.reach0):
            si = guards.switch_info(av, sb)
            if si is None or len(av.succ[sb]) < 2:
                continue
            if si.kind == "discr" and si.ty.get("d") == "OmahaResponse":
                for tg in av.succ[sb]:
                    if av.dominated_by_edge(pb, [(sb, tg)]):
                        under = sorted(si.edge_names(av, tg))
            elif si.kind == "bool" and "OmahaResponse::UrgentUpdate" in fmt_t(si.term) and ("eq(" in fmt_t(si.term) or "Eq" in fmt_t(si.term)):
                for tg in av.succ[sb]:
                    if si.edge_names(av, tg) == ["true"] and av.dominated_by_edge(pb, [(sb, tg)]):
                        under = ["UrgentUpdate"]
        return ("const-under", under) if under else None
    return None


def _json_object_index(bv, st):
    """`value["key"] = ..` (IndexMut<&str> on serde_json::Value) panics unless the value is an object or null: proved when
    every definition that reaches the receiver is an object built in place (`json!({..})`)."""
    t = st["t"]
    if st["desc"] != "api:IndexMut::index_mut" or len(t.get("args", [])) != 2 or not t.get("argt"):
        return None
    tys = [bv.crate.types[x]["s"] for x in t["argt"] if isinstance(x, int)]
    if tys != ["&mut serde_json::Value", "&str"]:
        return None
    r = strip(bv.trace_op(t["args"][0]))
    alts = r[1] if r[0] == "phi" else [r]
    if alts and all(a[0] == "agg" and a[1] == "adt" and a[2] == "serde_json::Value::Object" for a in alts):
        return "insertion into a JSON value that is an object on every path (%d constructions)" % len(alts)
    return None


def _under_updatecheck(bv, sb):
    """True iff block sb is dominated by a 'present' edge of a test of `get(.., "updatecheck")`; None if the body has no such test."""
    found = False
    for b in sorted(bv.reach0):
        si = guards.switch_info(bv, b)
        if not si or len(bv.succ[b]) < 2:
            continue
        ft = fmt_t(si.term)
        if "'updatecheck'" not in ft or "'updatedisabled'" in ft or "get(" not in ft:
            continue
        for tgt in bv.succ[b]:
            nm = si.edge_names(bv, tgt)
            present = (si.kind == "discr" and nm == ["Some"]) or (si.kind == "bool" and "is_some(" in ft and nm == ["true"])
            if present:
                found = True
                if bv.dominated_by_edge(sb, [(b, tgt)]):
                    return True
    return False if found else None


INFALLIBLE_TO_VALUE = ("&&str", "&str", "&std::string::String", "&&std::string::String", "&bool", "&i32", "&u32", "&i64", "&u64", "&serde_json::Value", "&&serde_json::Value",
                       "&std::vec::Vec<serde_json::Value>")


def _infallible_json(bv, st):
    """unwrap() of serde_json::to_value::<T>(x) for plain string/bool/integer/Value types, and of
    to_vec(&Value): these serialisations have no failure path (no I/O, string keys only)."""
    if st["desc"] != "api:Result::unwrap":
        return None
    a = bv.trace_op(st["t"]["args"][0])
    while a[0] in ("ref", "deref"):
        a = a[1]
    if a[0] != "call":
        return None
    tt = bv.blocks[a[3]]["t"]
    tys = [lib.norm(bv.crate.types[x]["s"]) for x in tt.get("substs", []) if isinstance(x, int)]
    if lib.norm(a[1]) == "serde_json::to_value" and len(tys) == 1 and tys[0] in INFALLIBLE_TO_VALUE:
        return "serde_json::to_value::<%s> cannot fail" % tys[0]
    if lib.norm(a[1]) == "serde_json::to_vec" and tys and tys[0] in ("serde_json::Value",):
        return "serde_json::to_vec(&Value) cannot fail"
    return None


def _missing(shape, ty, table, skip=(), path=""):
    """Required keys of the client schema for `ty` that the JSON shape lacks (recursively)."""
    out = []
    spec = table["structs"].get(ty)
    if spec is None:
        return out
    if "oneof" in shape:
        for a in shape["oneof"]:
            out += _missing(a, ty, table, skip, path)
        return out
    obj = shape.get("object")
    if obj is None:
        if shape.get("value") == "expr":
            return out  # interpolated value: not a literal, cannot be inspected
        return [path + "<not an object>"]
    flat_keys = {}
    for fl in spec.get("flatten", []):
        fs = table["structs"].get(fl)
        if fs:
            flat_keys.update(fs["fields"])
    for key, (req, typ) in list(spec["fields"].items()) + list(flat_keys.items()):
        if key in skip:
            continue
        if key not in obj:
            if req == "!":
                out.append(path + key)
            continue
        inner = typ
        if inner.startswith("std::option::Option<"):
            inner = inner[len("std::option::Option<"):-1]
        sub = obj[key]
        if inner.startswith("std::vec::Vec<"):
            el = inner[len("std::vec::Vec<"):-1]
            if "array" in sub:
                for i, e in enumerate(sub["array"]):
                    out += _missing(e, el, table, (), "%s%s[%d]." % (path, key, i))
            elif sub.get("value") != "expr":
                out.append(path + key + "<not an array>")
        elif inner in table["structs"]:
            out += _missing(sub, inner, table, (), path + key + ".")
    return out
