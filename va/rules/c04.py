"""C04 — Update-check flow: announced states and result match what happened."""
import re
from ..core import BV, strip, walk, fmt_t
from .. import lib, guards, sm as smod
from ..sm import reach, path, reach_in, reach_pf

ORE = "state_machine::OmahaRequestError"
UD = "policy::UpdateDecision"
RAU = "state_machine::RebootAfterUpdate"
PURE = {("TimeSource", "now"), ("TimeSource", "now_in_monotonic"), ("TimeSource", "now_in_walltime"), ("AppSet", "get_apps"),
        ("Storage", "get_string"), ("Storage", "get_int"), ("Storage", "get_bool")}


def is_effect(e):
    if e is None:
        return False
    if e[0] == "env" and (e[1], e[2]) in PURE:
        return False
    return True


def result_edges(S, sm, needle, variant, ctx=None):
    """Edges of switches on a Result (or ControlFlow after `?`) whose tested value's term mentions `needle`."""
    out = []
    for adt, v in (("std::result::Result", variant), ("std::ops::ControlFlow", {"Ok": "Continue", "Err": "Break"}[variant])):
        for (a, b, nm) in sm.outcome_edges(S, adt, v):
            nd = S.nodes[a]
            if ctx is not None and nd.ctx is not ctx:
                continue
            si = guards.switch_info(nd.ctx.bv, nd.bi)
            h = lib.head_call(si.term) or ""
            if needle in h:
                out.append((a, b))
    return out


def cond_desc(bv, conds):
    out = []
    for (cb, labs) in conds:
        si = guards.switch_info(bv, cb)
        names = []
        for l in labs:
            if l == "otherwise":
                covered = set(a for a, _ in si.arms)
                names.append("!" + "|".join(si.names.get(v, str(v)) for v in sorted(covered)) if covered else "otherwise")
            elif si.kind == "bool":
                names.append("true" if l else "false")
            else:
                names.append(si.names.get(l, str(l)))
        subj = lib.apath(bv.trace_place(si.place)) if si.kind == "discr" else lib.apath(si.term)
        out.append("%s=%s" % (subj, "|".join(names)))
    return out


def run(F, R):
    sm = smod.get(F)
    c = sm.c
    S = sm.S_check
    Sr = sm.S_run
    smod.preconditions(sm, R, "C04-pre")
    R.trust("rustc await/? lowering; Installer contract: one result per offered app in response order")
    R.count("supergraph_nodes", len(S.live) + len(Sr.live))
    entry = S.root.entry
    rets = set(S.root.returns)
    Y = lambda v=None, s=None: sm.yields(S, v, s)

    # ---------------------------------------------------------------- R1 first and last
    R.rule("C04-R1", "the first effect of a check is StateChange(CheckingForUpdates(params.source)); every path ends with exactly ScheduleChange, ProtocolStateChange, UpdateCheckResult in that order and no further event")
    cfu = Y("StateChange", "CheckingForUpdates")
    if R.floor("C04-R1", "CheckingForUpdates announcements", len(cfu), 1):
        r_ = reach(S, [entry], cut_nodes=cfu)
        eff = [x for x in r_ if is_effect(S.ev[x])]
        R.check("C04-R1", "first", not eff, "no effect precedes CheckingForUpdates", "effects before CheckingForUpdates: %s" % [str(S.ev[x]) + "@" + S.nodes[x].loc() for x in eff[:5]])
        nd = S.nodes[cfu[0]]
        term = S.trace(nd, nd.term["args"][1])
        src = [lib.apath(x[3][0]) for x in walk(term) if x[0] == "agg" and x[2] and x[2].endswith("State::CheckingForUpdates")]
        R.check("C04-R1", "first-source", bool(src) and all(s_.endswith(".source") and "param" in s_ for s_ in src), "CheckingForUpdates carries the request params' source: %s" % src, "CheckingForUpdates does not carry params.source: %s" % src)
    root_y = [x for x in Y() if S.nodes[x].ctx is S.root]
    kinds = [S.ev[x][1] for x in sorted(root_y)]
    if R.check("C04-R1", "final-three-present", sorted(kinds) == ["ProtocolStateChange", "ScheduleChange", "UpdateCheckResult"], "driver-level events: %s" % kinds, "driver-level events are %s" % kinds):
        s0 = [x for x in root_y if S.ev[x][1] == "ScheduleChange"][0]
        p0 = [x for x in root_y if S.ev[x][1] == "ProtocolStateChange"][0]
        u0 = [x for x in root_y if S.ev[x][1] == "UpdateCheckResult"][0]
        R.check("C04-R1", "result-on-every-path", not (reach(S, [entry], cut_nodes=[u0]) & rets), "every path to the end of the check delivers UpdateCheckResult", "a path ends the check without UpdateCheckResult")
        R.check("C04-R1", "order", u0 not in reach(S, [entry], cut_nodes=[p0]) and p0 not in reach(S, [entry], cut_nodes=[s0]), "ScheduleChange -> ProtocolStateChange -> UpdateCheckResult", "final events are not emitted in schedule, protocol-state, result order")
        between = [x for x in reach(S, [s0], cut_nodes=[u0]) if S.ev[x] and S.ev[x][0] == "yield" and x not in (s0, p0)]
        after = [x for x in reach(S, S.succ[u0]) if S.ev[x] and S.ev[x][0] == "yield"]
        R.check("C04-R1", "nothing-between-or-after", not between and not after, "no other event between or after the final three", "extra events: between %s after %s" % ([S.nodes[x].loc() for x in between], [S.nodes[x].loc() for x in after]))
        R.check("C04-R1", "exactly-one-result", not any(u0 in L for L in smod.sccs(S, S.live)), "UpdateCheckResult is not on a cycle", "UpdateCheckResult can be emitted repeatedly")
        # all other events come before the final three
        early = [x for x in Y() if x not in (s0, p0, u0) and x in reach(S, [s0])]
        R.check("C04-R1", "final-three-last", not early, "all path-state events precede the final three", "events after ScheduleChange: %s" % [S.nodes[x].loc() for x in early])

    # ---------------------------------------------------------------- R2 state <=> outcome
    R.rule("C04-R2", "each announced State is reachable only under, and is announced on every path under, the outcome it names (both directions)")
    comps = smod.sccs(S, S.live)
    reqs = sm.env(S, "Http", "request")
    L = [L_ for L_ in comps if any(r in L_ for r in reqs)]
    if not R.floor("C04-R2", "attempt loop", len(L), 1):
        return
    L = L[0]
    req = [r for r in reqs if r in L][0]
    hdr = min((S.nodes[v].ctx for v in L), key=lambda cx: cx.depth)
    flow_rets = set(hdr.returns)
    ore_edges = [(a, b, nm) for (a, b, nm) in sm.outcome_edges(S, ORE) if S.nodes[a].ctx is hdr and a in L]
    err_exch = [(a, b) for (a, b, nm) in ore_edges]
    parse_err = result_edges(S, sm, "parse_", "Err", hdr)
    parse_ok = result_edges(S, sm, "parse_", "Ok", hdr)
    plan_err = result_edges(S, sm, "try_create_install_plan", "Err", hdr)
    plan_ok = result_edges(S, sm, "try_create_install_plan", "Ok", hdr)
    ud = {v: [(a, b) for (a, b, nm) in sm.outcome_edges(S, UD, v)] for v in ("Ok", "DeferredByPolicy", "DeniedByPolicy")}
    noupd = [(a, b) for (a, b, tr) in sm.bool_edges(S, lambda n, t: n.ctx is hdr and "is_empty" in fmt_t(t) and "filter" in fmt_t(t)) if tr]
    def _is_error_list(n, t):
        if n.ctx is not hdr or t[0] != "call" or not t[1].endswith("::is_empty"):
            return False
        tt = hdr.bv.blocks[t[3]]["t"]
        ss = [hdr.bv.crate.types[x]["s"] for x in tt.get("substs", []) if isinstance(x, int)]
        return bool(ss) and "Installer>::Error" in ss[0]
    haserr = [(a, b) for (a, b, tr) in sm.bool_edges(S, _is_error_list) if not tr]
    for nm_, es in (("exchange-error", err_exch), ("parse-error", parse_err), ("parse-ok", parse_ok), ("plan-error", plan_err), ("plan-ok", plan_ok), ("no-update", noupd), ("install-errors", haserr)):
        R.floor("C04-R2", nm_ + " edges", len(es), 1)
    for v in ud:
        R.floor("C04-R2", "UpdateDecision::%s edges" % v, len(ud[v]), 1)

    def only_under(tag, sites, edges):
        if not sites:
            R.violation("C04-R2", "announced:" + tag, "State %s is never announced" % tag)
            return
        r_ = reach(S, [entry], cut_edges=edges)
        bad = [x for x in sites if x in r_]
        p = path(S, [entry], bad, cut_edges=edges) if bad else None
        R.check("C04-R2", "only-under:" + tag, not bad, "%d announcement site(s), each only under its outcome" % len(sites),
                "%s is announced on a path that did not take its outcome: %s" % (tag, S.fmt_path(p) if p else ""))

    def always_under(tag, sites, edges, stop=(), okname=None):
        for (a, b) in edges:
            r_ = reach_pf(S, [b], cut_nodes=list(sites) + list(stop))
            miss = r_ & flow_rets
            R.check("C04-R2", "always-under:%s:%s" % (tag, okname or lib.loc(S.nodes[a].ctx.bv, S.nodes[a].bi).split(":")[-1] if False else "always-under:%s:%s" % (tag, _edgekey(S, a, b))), not miss,
                    "every path from this outcome announces %s" % tag, "a path from this outcome returns without announcing %s" % tag, S.nodes[a].loc())

    ecu = Y("StateChange", "ErrorCheckingForUpdate")
    only_under("ErrorCheckingForUpdate", ecu, err_exch + parse_err)
    always_under("ErrorCheckingForUpdate", ecu, err_exch + parse_err, stop=[req])
    # .. and it is the last word of the check: "no usable response was obtained" cannot be followed by another attempt or
    # by another state of the same check (an announcement made before the decision to retry would be followed by both);
    # the parse-error event report that follows it is a request, but not an attempt
    later_all = []
    for y_ in ecu:
        r_ = reach_pf(S, list(S.succ[y_]))
        later = [x for x in reqs if x in r_ and x in L] + [x for x in Y("StateChange") if x in r_ and S.ev[x][2] != "ErrorCheckingForUpdate"]
        if later:
            later_all.append((y_, later))
    p_ = path(S, list(S.succ[later_all[0][0]]), later_all[0][1]) if later_all else None
    if ecu:
        R.check("C04-R2", "terminal:ErrorCheckingForUpdate", not later_all, "after ErrorCheckingForUpdate the check ends: no further attempt, no other state (%d sites)" % len(ecu),
                "after announcing ErrorCheckingForUpdate the check can go on to %s: %s" % (sorted(set(str(S.ev[x][1:]) for _, l_ in later_all for x in l_)), S.fmt_path(p_) if p_ else ""),
                S.nodes[later_all[0][0]].loc() if later_all else None)
    nua = Y("StateChange", "NoUpdateAvailable")
    only_under("NoUpdateAvailable", nua, noupd)
    always_under("NoUpdateAvailable", nua, noupd)
    # the no-update test is over exactly the apps whose updatecheck status is Ok
    _filter_rule(R, sm, hdr)
    dfr = Y("StateChange", "InstallationDeferredByPolicy")
    only_under("InstallationDeferredByPolicy", dfr, ud["DeferredByPolicy"])
    always_under("InstallationDeferredByPolicy", dfr, ud["DeferredByPolicy"])
    ins = Y("StateChange", "InstallingUpdate")
    only_under("InstallingUpdate", ins, ud["Ok"] + plan_err)
    always_under("InstallingUpdate", ins, ud["Ok"] + plan_err)
    ier = Y("StateChange", "InstallationError")
    only_under("InstallationError", ier, plan_err + haserr)
    always_under("InstallationError", ier, plan_err + haserr)
    osr = Y("OmahaServerResponse")
    only_under("OmahaServerResponse", osr, parse_ok)
    always_under("OmahaServerResponse", osr, parse_ok)
    # .. and authenticated: with a CUP handler configured, the announcement lies behind the success edge of verify_response
    # (the only other ways past the verification are the no-handler / no-metadata edges, which C02-R2 shows unreachable with a handler)
    clear = []
    for n_ in S.nodes:
        if n_.idx not in S.live or n_.term["k"] != "switch":
            continue
        si_ = guards.switch_info(n_.ctx.bv, n_.bi)
        if si_ is None or si_.kind != "discr":
            continue
        h_ = lib.head_call(si_.term) or ""
        tys_ = si_.ty.get("s", "")
        for b_ in S.succ[n_.idx]:
            nm_ = [si_.names.get(l_[2], str(l_[2])) for l_ in S.elabel.get((n_.idx, b_), []) if l_[0] == "switch" and l_[1] == n_.bi]
            if h_.endswith("Cupv2RequestHandler::verify_response") and any(x in ("Continue", "Ok") for x in nm_):
                clear.append((n_.idx, b_))
            elif si_.ty.get("d") == "std::option::Option" and ("Cupv2RequestHandler" in tys_ or "RequestMetadata" in tys_ or "cup_handler" in lib.apath(si_.term)) and nm_ and "Some" not in nm_:
                clear.append((n_.idx, b_))
    if R.floor("C04-R2", "verification / no-handler edges in the exchange", len(clear), 2):
        r_ = reach_pf(S, [entry], cut_edges=clear)
        bad = [x for x in osr if x in r_]
        p_ = path(S, [entry], bad, cut_edges=clear) if bad else None
        R.check("C04-R2", "only-authenticated:OmahaServerResponse", osr and not bad, "the server response is announced only behind a successful verify_response (or without a handler)",
                "the server response can be announced for a response whose verification was skipped: %s" % (S.fmt_path(p_) if p_ else ""))
    # parse happens only on a verified, successful exchange
    ok_exch = [(a, b) for (a, b, nm) in sm.outcome_edges(S, "std::result::Result", "Ok") if S.nodes[a].ctx is hdr and a in L]
    pj = sm.calls(S, "protocol::response::parse_json_response")
    pj_h = [x for x in pj if smod.descends(S.nodes[x].ctx, hdr)]
    r_ = reach_pf(S, [entry], cut_edges=ok_exch)
    R.check("C04-R2", "parse-only-after-ok-exchange", pj_h and not any(x in r_ for x in pj_h), "the body is parsed only after a successful exchange", "parse reachable without a successful exchange")
    # installer errors precede InstallationError on the install-error path
    ierr = Y("InstallerError")
    if R.floor("C04-R2", "InstallerError events", len(ierr), 1):
        r_ = reach(S, [entry], cut_edges=haserr)
        R.check("C04-R2", "installer-error-only-with-errors", not any(x in r_ for x in ierr), "InstallerError only when the error list is non-empty", "InstallerError reachable with an empty error list")
        # the collected errors reach that loop as collected: nothing removes or merges entries in between
        hb_ = hdr.bv
        shrink = []
        for bi_, t_ in hb_.calls():
            if not t_.get("argt") or t_.get("name") in ("push", "iter", "into_iter", "is_empty", "len", "new", "with_capacity", "deref", "as_slice", "first", "last", "get"):
                continue
            ty0 = hb_.crate.types[t_["argt"][0]]
            if ty0.get("k") == "ref" and ty0.get("m") and "Vec<" in ty0["s"] and "Installer>::Error" in ty0["s"] and "AppInstallResult" not in ty0["s"]:
                shrink.append((t_.get("name"), lib.loc(hb_, bi_)))
        R.check("C04-R2", "installer-errors-not-filtered", not shrink, "the error list is only appended to before it is announced", "the collected installer errors are modified before being announced (%s): fewer InstallerError events than failed apps" % shrink)
        loops = [L_ for L_ in comps if any(x in L_ for x in ierr)]
        R.check("C04-R2", "one-installer-error-per-error", len(loops) == 1, "InstallerError is emitted in a loop over the collected errors", "InstallerError is not emitted once per collected error")
    # an install without failed apps always gets to the reboot question (otherwise WaitingForReboot cannot follow a pending reboot)
    noerr = [(a, b) for (a, b, tr) in sm.bool_edges(S, _is_error_list) if tr]
    rn_ = sm.env(S, "Policy", "reboot_needed")
    if R.floor("C04-R2", "no-install-error edges / reboot_needed calls", min(len(noerr), len(rn_)), 1):
        for (a, b) in noerr:
            miss = reach_pf(S, [b], cut_nodes=rn_) & flow_rets
            R.check("C04-R2", "clean-install-asks-reboot", not miss, "every path from a clean install to the end of the check asks reboot_needed",
                    "a clean install can end the check without asking reboot_needed (a pending reboot is never announced or performed)", S.nodes[a].loc())
    # denial announces nothing further but still returns
    for (a, b) in ud["DeniedByPolicy"]:
        r_ = reach_pf(S, [b])
        ys = set((S.ev[x][1], S.ev[x][2]) for x in r_ if S.ev[x] and S.ev[x][0] == "yield" and smod.descends(S.nodes[x].ctx, hdr) and S.ev[x][1] == "StateChange")
        R.check("C04-R2", "denied-announces-no-state", not ys, "DeniedByPolicy announces no install state", "after DeniedByPolicy: %s" % sorted(ys, key=str), S.nodes[a].loc())

    # ---------------------------------------------------------------- R3 per-app action alignment
    # "InstallationError iff any app's install failed": every installer result is inspected and every failure recorded
    # (the rule is C05-R5's errors gate; a failure that is dropped before it is recorded is neither announced nor counted)
    from . import c05 as _c05
    from .. import report as _report
    _c05.run(F, _report.SubsetAlias(R, {"C05-R5": "C04-R2"}, prefix="failures-recorded:", keys={"every-result-inspected", "failed-arm-always-collected", "errors-collects-failed-payload"}))
    R.rule("C04-R3", "result vectors are response.apps mapped 1:1 in order (no dropping adaptor); on the install path an app's action is the image of the next installer result iff its updatecheck status is Ok, else NoUpdate")
    _alignment(R, sm, hdr)

    # ---------------------------------------------------------------- R4 continuous operation
    R.rule("C04-R4", "in continuous operation every check is followed by exactly one Idle before the next decision; WaitingForReboot only under RebootAfterUpdate::Needed and before Idle")
    idle = sm.yields(Sr, "StateChange", "Idle")
    wfr = sm.yields(Sr, "StateChange", "WaitingForReboot")
    ucr = sm.yields(Sr, "UpdateCheckResult")
    uca = sm.env(Sr, "Policy", "update_check_allowed")
    if R.floor("C04-R4", "Idle announcements", len(idle), 1) and R.floor("C04-R4", "check results in the loop", len(ucr), 1):
        r_ = reach(Sr, ucr, cut_nodes=idle)
        R.check("C04-R4", "idle-after-check", not (set(uca) & r_), "every check is followed by Idle before the next decision", "a check can be followed by the next decision without Idle")
        R.check("C04-R4", "single-idle-site", len(idle) == 1 and not [x for x in reach(Sr, Sr.succ[idle[0]], cut_nodes=uca) if x in idle], "one Idle per iteration", "Idle announced %d times" % len(idle))
        needed = [(a, b) for (a, b, nm) in sm.outcome_edges(Sr, RAU, "Needed")]
        r2 = reach(Sr, [Sr.root.entry], cut_edges=needed)
        R.check("C04-R4", "waiting-only-if-needed", wfr and not any(x in r2 for x in wfr), "WaitingForReboot only under Needed(_)", "WaitingForReboot reachable without a pending reboot")
        for (a, b) in needed:
            r3 = reach(Sr, [b], cut_nodes=wfr)
            pr = sm.env(Sr, "Installer", "perform_reboot")
            R.check("C04-R4", "waiting-always-if-needed", not (set(pr) & r3) and not (set(idle) & r3), "Needed(_) always announces WaitingForReboot first", "a pending reboot proceeds without announcing WaitingForReboot", Sr.nodes[a].loc())
        # idle is not announced before the check finished
        r4 = reach(Sr, [Sr.root.entry], cut_nodes=ucr)
        R.check("C04-R4", "idle-only-after-check", not any(x in r4 for x in idle), "Idle only after a check", "Idle reachable before any check result")

    # ---------------------------------------------------------------- lock discipline (shared engine va/locks.py)
    R.rule("C04-R5", "a check always reaches its result: no path of the check takes a mutex while already holding a guard of the same kind (the async mutex is not re-entrant), and the lock order is uniform")
    from .. import locks as _locks
    _locks.check(R, "C04-R5", sm.w, [sm.c], floor_regions=12)


def _edgekey(S, a, b):
    nd = S.nodes[a]
    si = guards.switch_info(nd.ctx.bv, nd.bi)
    labs = [l[2] for l in S.elabel.get((a, b), []) if l[0] == "switch"]
    names = []
    for l in labs:
        if si.kind == "bool":
            names.append("true" if l else "false")
        else:
            names.append(si.names.get(l, str(l)))
    subj = fmt_t(si.term)
    tag = "?"
    h = lib.head_call(si.term)
    if h:
        tag = h.split("::")[-1]
    return "%s=%s" % (tag, "|".join(names))


def _filter_rule(R, sm, hdr):
    """apps_with_update = response.apps.iter().filter(status == Ok).collect()"""
    bv = hdr.bv
    c = bv.crate
    found = False
    for bi, t in bv.calls():
        if lib.callee_is(t, "std::iter::Iterator::filter"):
            src = bv.trace_op(t["args"][0])
            clo = bv.trace_op(t["args"][1])
            if "apps" not in lib.apath(src):
                continue
            found = True
            cb, ei = lib.callable_body(sm.w, clo)   # a closure literal or a named predicate function
            ok = False
            det = ""
            if cb is not None:
                rows = []
                for conds, d in cb.decision_paths(0, 0):
                    val = None
                    if d and d[1] is not None:
                        val = lib.term_const(c, cb._trace_rv(cb.blocks[d[0]]["s"][d[1]]["r"], None, 0))
                    cs_ = tuple(x_.replace("param%d" % ei, "elem") for x_ in cond_desc(cb, conds))
                    if val is None and d:
                        # the answer is a comparison `x.status == OmahaStatus::Ok` (what `is_some_and(|u| u.status == Ok)` leaves)
                        if d[1] is None:
                            tt_ = cb.blocks[d[0]]["t"]
                            tm_ = ("call", tt_.get("callee") or "", [cb.trace_op(a_) for a_ in tt_.get("args", [])]) if tt_.get("k") == "call" else ("undef",)
                        else:
                            tm_ = strip(cb._trace_rv(cb.blocks[d[0]]["s"][d[1]]["r"], None, 0))
                        if tm_[0] == "call" and lib.norm(tm_[1]) in ("std::cmp::PartialEq::eq",) and len(tm_[2]) == 2:
                            lhs_ = lib.apath(strip(tm_[2][0])).replace("param%d" % ei, "elem")
                            rhs_ = fmt_t(strip(tm_[2][1]))
                            if lhs_.endswith(".status") and rhs_.rstrip("{}").endswith("OmahaStatus::Ok"):
                                rows.append((cs_ + (lhs_.replace("as_ref(", "").replace(")", "") + "=Ok",), 1))
                                rows.append((cs_ + (lhs_.replace("as_ref(", "").replace(")", "") + "=!Ok",), 0))
                                continue
                    rows.append((cs_, val))
                true_rows = [r for r in rows if r[1] == 1]
                det = str(true_rows)
                ok = len(true_rows) == 1 and true_rows[0][0] == ("elem.update_check=Some", "elem.update_check@Some.0.status=Ok") and all(r[1] in (0, 1) for r in rows)
            R.check("C04-R2", "offered-update-predicate", ok, "an app is offered an update iff updatecheck is present with status Ok", "the offered-update filter is not `updatecheck.status == Ok`: " + det, lib.loc(bv, bi))
    if not found:
        R.inconclusive("C04-R2", "offered-update-predicate", "no filter over response.apps found in the check flow")


def _alignment(R, sm, hdr):
    c = sm.c
    UA = "state_machine::update_check::AppResponse"
    # every construction of a Vec<AppResponse> in the check flow
    n = 0
    bodies = set()
    for cx in sm.S_check.ctxs:
        bodies.add(cx.bv.id)
    for bid in sorted(bodies):
        bv = sm.w.bv(bid)
        for bi, t in bv.calls():
            if not lib.callee_is(t, "std::iter::Iterator::collect"):
                continue
            dt = c.types[t["destt"]]["s"]
            if UA not in dt:
                continue
            n += 1
            term = bv.trace_op(t["args"][0])
            chain = []
            x = term
            clo = None
            while x[0] == "call":
                chain.append(lib.norm(x[1]).split("::")[-1])
                if x[1].endswith("Iterator::map") and len(x[2]) > 1:
                    clo = [y[2] for y in walk(x[2][1]) if y[0] == "agg" and y[1] == "closure"]
                x = x[2][0] if x[2] else ("undef",)
                while x[0] in ("ref", "deref"):
                    x = x[1]
            src = lib.apath(x)
            key = bv.body.get("item") or bv.id.split("::")[-2]
            R.check("C04-R3", "chain:" + key, chain == ["map", "into_iter"] and src.endswith(".apps"), "collect(map(into_iter(%s)))" % src,
                    "result vector is built through %s over %s: apps may be dropped or reordered" % (chain[::-1], src), lib.loc(bv, bi))
            if not clo:
                continue
            cb = sm.w.bv(clo[0])
            ret = cb.trace_local(0)
            if not (ret[0] == "agg" and ret[2] and ret[2].endswith("AppResponse::AppResponse")):
                R.inconclusive("C04-R3", "closure:" + key, "map closure does not build an AppResponse directly")
                continue
            names = ret[4]
            idp = lib.apath(ret[3][names.index("app_id")])
            cop = lib.apath(ret[3][names.index("cohort")])
            R.check("C04-R3", "identity:" + key, idp == "param2.id" and cop == "param2.cohort", "app_id/cohort <- the response app", "AppResponse id/cohort do not come from the response app: %s %s" % (idp, cop))
            # result field: decision table
            res_local = None
            for bi2 in sorted(cb.reach0):
                for s_ in cb.blocks[bi2]["s"]:
                    if s_["k"] == "assign" and s_["r"]["k"] == "agg" and s_["r"].get("d") == UA:
                        o = s_["r"]["ops"][names.index("result")]
                        pl = o.get("m") or o.get("c")
                        if pl and not pl.get("p"):
                            res_local = pl["l"]
            if res_local is None:
                R.inconclusive("C04-R3", "closure:" + key, "result operand not a local")
                continue
            rows = set()
            for conds, d in cb.decision_paths(0, res_local):
                val = "?"
                if d is not None:
                    if d[1] is None:
                        tt = cb.blocks[d[0]]["t"]
                        val = lib.apath(("call", tt["callee"], [cb.trace_op(a) for a in tt["args"]], d[0]))
                    else:
                        v = cb._trace_rv(cb.blocks[d[0]]["s"][d[1]]["r"], None, 0)
                        val = v[2].split("::")[-1] if v[0] == "agg" and v[2] else lib.apath(v)
                rows.add((tuple(cond_desc(cb, conds)), val))
            pretty = sorted("%s -> %s" % (" & ".join(k), v) for k, v in rows)
            if any("remove" in " ".join(k) for k, v in rows):
                exp = {
                    "param2.update_check=!Some -> NoUpdate",
                    "param2.update_check=Some & param2.update_check@Some.0.status=!Ok -> NoUpdate",
                    "param2.update_check=Some & param2.update_check@Some.0.status=Ok & remove(param1.1, 0)=Installed -> Updated",
                    "param2.update_check=Some & param2.update_check@Some.0.status=Ok & remove(param1.1, 0)=Deferred -> DeferredByPolicy",
                    "param2.update_check=Some & param2.update_check@Some.0.status=Ok & remove(param1.1, 0)=Failed -> InstallPlanExecutionError",
                }
                R.check("C04-R3", "install-path-table", set(pretty) == exp, "; ".join(pretty), "per-app action table on the install path is %s" % pretty)
                # error list receives a push exactly in the Failed arm
                pushes = [(bi2, t2) for bi2, t2 in cb.calls() if lib.callee_is(t2, "push")]
                okp = len(pushes) == 1
                if okp:
                    pb = pushes[0][0]
                    dom_ok = False
                    for bi2 in sorted(cb.reach0):
                        si = guards.switch_info(cb, bi2)
                        if si and si.kind == "discr" and "remove" in fmt_t(si.term):
                            for tgt in cb.succ[bi2]:
                                if "Failed" in si.edge_names(cb, tgt):
                                    others = [x for x in cb.succ[bi2] if x != tgt]
                                    dom_ok = pb in cb.reach_from([tgt]) and pb not in cb.reach_from(others)
                    okp = dom_ok
                R.check("C04-R3", "error-collected-iff-failed", okp, "errors.push exactly in the Failed arm", "the error list is not extended exactly in the Failed arm")
            else:
                # plan-level outcomes: one uniform action for every listed app
                vals = set(v for k, v in rows)
                if any(not re.fullmatch(r"[A-Za-z_]+|(?:clone\()?param\d+(?:\.\d+)*\)?", v_) for v_ in vals):   # a variant, or one captured value for all apps
                    # the action is looked up or computed (a map filled elsewhere, a helper): not a table this rule can read
                    R.inconclusive("C04-R3", "table:" + key, "the per-app action is computed (%s), not chosen by a match on the response app and the installer result" % sorted(vals)[0][:80])
                    continue
                R.check("C04-R3", "uniform-table:" + key, len(rows) == 1 and all(not k for k, v in rows), "uniform action %s" % sorted(vals), "plan-level result is not uniform: %s" % pretty)
    R.floor("C04-R3", "constructions of the per-app result vector", n, 2)
