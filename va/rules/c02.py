"""C02 — Unauthenticated responses never influence the updater."""
import re
from ..core import BV, strip, walk, fmt_t, is_logging_span
from .. import lib, guards, sm as smod, census
from ..sm import reach, path, reach_in, reach_pf

ORE = "state_machine::OmahaRequestError"
UCE = "state_machine::UpdateCheckError"
RESP = "http::Response"


def response_locals(bv):
    out = []
    for i, l in enumerate(bv.locals):
        t = bv.crate.types[l["t"]]
        if t.get("k") == "adt" and t.get("d") == RESP:
            out.append(i)
    return out


def mentions_local(x, locs):
    """Does an operand / place / rvalue dict mention any of the locals (as base local)?"""
    if isinstance(x, dict):
        if "l" in x and isinstance(x["l"], int) and ("p" in x or len(x) <= 3) and x["l"] in locs and "k" not in x:
            return True
        return any(mentions_local(v, locs) for v in x.values())
    if isinstance(x, list):
        return any(mentions_local(v, locs) for v in x)
    return False


def taint_rule(R, sm, bv):
    """C02-R1 on one body: every use of an HTTP response value is dominated by a clearance edge
    (verify Ok, or no handler / no metadata), except the borrow handed to verify_response."""
    c = bv.crate
    rl = set(response_locals(bv))
    if not rl:
        return 0
    # clearance edges
    clear = set()
    merged_sw = []
    verify_calls = [(bi, t) for bi, t in bv.calls() if t.get("trait") == "cup_ecdsa::Cupv2RequestHandler" and t.get("name") == "verify_response"]
    verify_ok = False
    for bi in sorted(bv.reach0):
        si = guards.switch_info(bv, bi)
        if si is None or si.kind != "discr":
            continue
        desc = fmt_t(si.term)
        # the tested value must be the verifier's answer on every path that merges into it
        # (`if shortcut { Ok(..) } else { verify_response(..) }` is not a verification)
        if "verify_response" not in desc and (lib.head_call(si.term) or "").endswith("verify_response"):
            desc = "verify_response<-" + desc      # produced by verify_response inside a closure handed to Option::map
        if "verify_response" in desc and not (lib.head_call(si.term) or "").endswith("verify_response"):
            merged_sw.append((bi, si, desc))
            continue
        if "verify_response" in desc and "std::ops::Try::branch" in desc and si.ty.get("d") == "std::ops::ControlFlow":
            for b in bv.succ[bi]:
                if "Continue" in si.edge_names(bv, b):
                    clear.add((bi, b))
                    verify_ok = True
        elif "verify_response" in desc and si.ty.get("d") == "std::result::Result":
            for b in bv.succ[bi]:
                if "Ok" in si.edge_names(bv, b):
                    clear.add((bi, b))
                    verify_ok = True
        elif si.ty.get("d") == "std::option::Option" and ("cup_handler" in desc or "RequestMetadata" in si.ty.get("s", "")):
            # (b) handler not configured; (b') metadata None — unreachable with a handler by C02-R2
            for b in bv.succ[bi]:
                names = si.edge_names(bv, b)
                if "Some" not in names:
                    clear.add((bi, b))
    # a tested value that *merges* results built in place (what is left of `fn verify(..) -> Result<Option<Sig>, E>` after
    # inlining: `Ok(None)` without a handler, `Ok(Some(sig))` after verification, `Err(e)`): it clears what follows iff every
    # place that builds an `Ok` lies behind a clearance edge established above
    for (bi, si, desc) in merged_sw:
        ok_sites, unread = [], []
        seen_l = set()

        def _sites(l):
            if l in seen_l:
                return
            seen_l.add(l)
            for (dbi, dsi, kind, x) in bv.defs.get(l, []):
                if dbi not in bv.reach0:
                    continue
                if kind == "call":
                    if lib.norm(x.get("callee") or "") == "std::ops::Try::branch" and x["args"] and (x["args"][0].get("m") or x["args"][0].get("c")) and not (x["args"][0].get("m") or x["args"][0].get("c")).get("p"):
                        _sites((x["args"][0].get("m") or x["args"][0].get("c"))["l"])
                    else:
                        unread.append(dbi)
                elif x["k"] == "agg" and x.get("ak") == "adt" and x.get("vn") in ("Ok", "Continue"):
                    ok_sites.append(dbi)
                elif x["k"] == "agg" and x.get("ak") == "adt" and x.get("vn") in ("Err", "Break"):
                    pass
                elif x["k"] == "use" and (x["o"].get("m") or x["o"].get("c")) is not None and not (x["o"].get("m") or x["o"].get("c")).get("p"):
                    _sites((x["o"].get("m") or x["o"].get("c"))["l"])
                else:
                    unread.append(dbi)
        sub = bv.switch_subject(bi)
        if sub is not None and not sub[0].get("p"):
            _sites(sub[0]["l"])
        cleared = bool(ok_sites) and not unread and all(bv.dominated_by_edge(b_, sorted(clear)) for b_ in ok_sites)
        if cleared:
            for b in bv.succ[bi]:
                if any(nm_ in ("Continue", "Ok") for nm_ in si.edge_names(bv, b)):
                    clear.add((bi, b))
                    verify_ok = True
        else:
            R.violation("C02-R1", "verify-result-merged:" + bv.name.split("::")[-2], "the value tested as the verification result is not the answer of verify_response on every path: " + desc[:160], lib.loc(bv, bi))
    # the borrow chain into verify_response(resp) is the only use allowed while tainted
    allowed_blocks = set()
    borrow_locals = set()
    for bi, t in verify_calls:
        if len(t["args"]) >= 3:
            a = t["args"][2]
            pl = a.get("m") or a.get("c")
            # walk the reborrow chain back to &resp
            seen = set()
            cur = pl["l"] if pl and not pl.get("p") else None
            while cur is not None and cur not in seen:
                seen.add(cur)
                borrow_locals.add(cur)
                nxt = None
                for (dbi, si_, kind, x) in bv.defs.get(cur, []):
                    if kind == "rv" and x["k"] == "ref":
                        base = x["p"]
                        if base["l"] in rl and not base.get("p"):
                            allowed_blocks.add((dbi, si_))
                        elif [e["k"] for e in base.get("p", [])] == ["deref"]:
                            nxt = base["l"]
                    elif kind == "rv" and x["k"] == "use" and (x["o"].get("m") or x["o"].get("c")) is not None and not (x["o"].get("m") or x["o"].get("c")).get("p"):
                        nxt = (x["o"].get("m") or x["o"].get("c"))["l"]      # the reference handed on by value (argument of an inlined helper)
                cur = nxt
    # .. or captured by the closure that performs the verification (`.map(|(h, m)| h.verify_response(m, &response, ..))`)
    for bi in sorted(bv.reach0):
        for si_, s_ in enumerate(bv.blocks[bi]["s"]):
            if s_["k"] == "assign" and s_["r"]["k"] == "agg" and s_["r"].get("ak") == "closure" and s_["r"].get("id") in sm.w.by_id and lib.calls_verify_response(BV.of(sm.w.by_id[s_["r"]["id"]]), False):
                for op_ in s_["r"].get("ops", []):
                    pl_ = op_.get("m") or op_.get("c")
                    if pl_ and not pl_.get("p"):
                        for (dbi, dsi, kind, x) in bv.defs.get(pl_["l"], []):
                            if kind == "rv" and x["k"] == "ref" and x["p"]["l"] in rl and not x["p"].get("p"):
                                allowed_blocks.add((dbi, dsi))
    # use sites
    n_uses = 0
    defs_blocks = [d[0] for l in rl for d in bv.defs.get(l, [])]
    for bi in sorted(bv.reach0):
        bl = bv.blocks[bi]
        uses = []
        for si_, s in enumerate(bl["s"]):
            if s["k"] != "assign":
                continue
            if mentions_local(s["r"], rl):
                # moves between response locals are aliasing, not a use
                r = s["r"]
                if r["k"] == "use" and not s["p"].get("p") and s["p"]["l"] in rl:
                    continue
                if (bi, si_) in allowed_blocks:
                    continue
                uses.append("stmt %d: %s" % (si_, r["k"]))
        t = bl["t"]
        if t["k"] == "call" and mentions_local(t["args"], rl):
            uses.append("call %s" % lib.norm(t.get("callee") or "?"))
        if t["k"] in ("switch",) and mentions_local(t.get("o"), rl):
            uses.append("switch")
        for u in uses:
            n_uses += 1
            # reachable from the response's definition without crossing a clearance edge?
            tainted = False
            wit = None
            for db in set(defs_blocks):
                r_ = _reach_blocks(bv, [db], clear)
                if bi in r_ and (bi != db):
                    tainted = True
                    wit = db
            key = "%s#%s" % (bv.name.split("::")[-2] if "::" in bv.name else bv.name, u.replace(" ", "_"))
            R.check("C02-R1", "use:" + key, not tainted,
                    "use of the HTTP response (%s) only after verification succeeded or with no handler" % u,
                    "the unauthenticated HTTP response is used (%s) on a path that has not passed verify_response = Ok" % u, lib.loc(bv, bi))
    if verify_calls:
        R.check("C02-R1", "verify-present:" + bv.name.split("::")[-2], verify_ok, "verify_response result is tested", "verify_response result is not tested")
    return n_uses


def _reach_blocks(bv, starts, cut_edges):
    seen = set()
    st = list(starts)
    while st:
        a = st.pop()
        if a in seen:
            continue
        seen.add(a)
        for b in bv.succ[a]:
            if (a, b) in cut_edges or b in seen:
                continue
            st.append(b)
    return seen


def run(F, R):
    sm = smod.get(F)
    c = sm.c
    S = sm.S_check
    Sr = sm.S_run
    smod.preconditions(sm, R, "C02-pre")
    R.trust("Cupv2RequestHandler::verify_response is the authentication decision (C01); rustc await/? lowering")
    R.assume("replay resistance is reduced to nonce freshness (C03-R4) plus C01; not decided here")
    R.count("supergraph_nodes", len(S.live) + len(Sr.live))

    # ---------------------------------------------------------------- R1 taint typestate
    R.rule("C02-R0", "premise shared with C01: verify_response returns Ok only behind the request-hash comparison and the signature verification of this exchange's ETag (no cache, fast path or fallback around them); the verifier returns Ok only behind the key lookup by the request's key id and one ECDSA verification under that key")
    from . import c01 as _c01
    vs_ = lib.one(R, "C02-R0", c, "verify_response_with_signature impl", item="verify_response_with_signature", impl_self=_c01.H, impl_trait="cup_ecdsa::Cupv2Verifier")
    if vs_:
        _c01.verifier_gate(R, "C02-R0", vs_)
    vr_ = lib.one(R, "C02-R0", c, "verify_response impl for StandardCupv2Handler", item="verify_response", impl_self=_c01.H, impl_trait="cup_ecdsa::Cupv2RequestHandler")
    if vr_:
        from .. import flow as _flow0
        _c01.accept_gates(R, "C02-R0", _flow0.World([c]), vr_)
    R.rule("C02-R1", "typestate: an HTTP response obtained from HttpRequest::request is only borrowed into verify_response until the Ok edge of verification (or the no-handler edge) has been crossed")
    bodies = set(cx.bv.id for cx in S.ctxs) | set(cx.bv.id for cx in Sr.ctxs)
    total = 0
    holders = 0
    for bid in sorted(bodies):
        bv = sm.w.bv(bid)
        if response_locals(bv):
            holders += 1
            total += taint_rule(R, sm, bv)
    R.floor("C02-R1", "bodies holding an http::Response value", holders, 1)
    R.floor("C02-R1", "uses of the response value", total, 1)
    # the only producer of responses is HttpRequest::request, reached through one caller chain
    reqsites = set((S.nodes[n].ctx.bv.id, S.nodes[n].bi) for n in sm.env(S, "Http", "request")) | set((Sr.nodes[n].ctx.bv.id, Sr.nodes[n].bi) for n in sm.env(Sr, "Http", "request"))
    R.check("C02-R1", "single-send-site", len(reqsites) == 1, "HttpRequest::request has one static call site: %s" % sorted(reqsites), "several static HttpRequest::request call sites: %s" % sorted(reqsites))

    # ---------------------------------------------------------------- R2 handler => metadata
    R.rule("C02-R2", "RequestBuilder::build returns Some(metadata) exactly when a handler is passed (so 'handler configured, metadata missing' cannot occur)")
    lib.check_as_configured(R, "C02-R2", sm.w, sm, {"cup_handler": "cup_handler"})
    lib.builder_setters_preserve(R, "C02-R2", sm.w, sm.c, ["cup_handler"])
    bi_ = lib.one(R, "C02-R2", c, "RequestBuilder::build_intermediate", item="build_intermediate", impl_self="request_builder::RequestBuilder")
    if bi_:
        from .. import optnorm, flow as _flow, terms as _terms
        W2 = _flow.World([c])
        meta = None
        ret0_ = bi_.trace_local(0)
        for alt_ in (ret0_[1] if ret0_[0] == "phi" else [ret0_]):
            # the (intermediate, metadata) pair under Ok(..) of the return value itself (not some pair inside it)
            if alt_[0] == "agg" and alt_[1] == "adt" and (alt_[2] or "").endswith("Result::Ok") and alt_[3]:
                x = strip(alt_[3][0])
                if x[0] == "agg" and x[1] == "tuple" and len(x[3]) == 2:
                    meta = x[3][1]
        if meta is None:
            for x in walk(ret0_):
                if x[0] == "agg" and x[1] == "tuple" and len(x[3]) == 2 and "RequestMetadata" in fmt_t(x[3][1])[:4000]:
                    meta = x[3][1]
        ok = False
        det = "no (intermediate, metadata) tuple returned"
        if meta is not None:
            bodies2 = []
            lv = optnorm.leaves(W2, bi_, meta, bodies2)
            somes = [optnorm.canon(_terms.render(bi_, l[1], W2, {1: "self", 2: "handler"})) for l in lv if l[0] == "some"]
            others = [l for l in lv if l[0] == "other"]
            det = "Some -> %s ; None alternatives: %d ; other: %d" % ([s_[:90] for s_ in somes], len([l for l in lv if l[0] == "none"]), len(others))
            # Some(..) carries decorate_request called on the payload of the handler option (so it exists only with a handler) ..
            ok = bool(somes) and not others and all(re.match(r"decorate_request\((as_ref\()?handler\)?@OK, ", s_) and s_.endswith("@OK") for s_ in somes) and any(l[0] == "none" for l in lv)
            # .. and a None built by hand is built only on the no-handler edge
            for v_ in bodies2:
                nn = [b_ for b_ in sorted(v_.reach0) for s_ in v_.blocks[b_]["s"] if s_["k"] == "assign" and s_["r"]["k"] == "agg" and s_["r"].get("vn") == "None" and "RequestMetadata" in v_.place_ty(s_["p"])["s"]]
                if not nn:
                    continue
                noh = []
                for sb in sorted(v_.reach0):
                    si = guards.switch_info(v_, sb)
                    if si and si.kind == "discr" and si.ty.get("d") == "std::option::Option" and "Cupv2RequestHandler" in si.ty.get("s", ""):
                        for tg in v_.succ[sb]:
                            if "Some" not in si.edge_names(v_, tg):
                                noh.append((sb, tg))
                if not (noh and all(v_.dominated_by_edge(b_, noh) for b_ in nn)):
                    ok = False
                    det += " ; a None metadata is built on a path where a handler is present"
        R.check("C02-R2", "metadata-iff-handler", ok, det, "build_intermediate does not return Some(decorate_request(..)?) under Some(handler) and None otherwise: " + det)
    b_ = lib.one(R, "C02-R2", c, "RequestBuilder::build", item="build", impl_self="request_builder::RequestBuilder")
    if b_:
        ret = b_.trace_local(0)
        ok = False
        for x in walk(ret):
            if x[0] == "agg" and x[1] == "tuple" and len(x[3]) == 2:
                m = strip(x[3][1])
                ok = m[0] == "field" and m[3] == 1 and "build_intermediate" in fmt_t(m)
        R.check("C02-R2", "build-passes-metadata", ok, "build() returns the metadata of build_intermediate unchanged", "build() does not pass build_intermediate's metadata through: " + fmt_t(ret)[:200])

    # ---------------------------------------------------------------- R3 verification failure is terminal
    R.rule("C02-R3", "a verification failure converts to OmahaRequestError::CupValidation, leaves the exchange without touching headers/state, and from the CupValidation arm of the check there is no path to another request, wait, parse, installer/policy call or server-response event")
    fr = [b for b in lib.bodies(c, item="from", impl_self=ORE, impl_trait="std::convert::From") if any("CupVerificationError" in c.types[a]["s"] for a in b.get("impl_trait_args", []) if isinstance(a, int))]
    if R.floor("C02-R3", "From<CupVerificationError> for OmahaRequestError", len(fr), 1):
        ret = BV.of(fr[0]).trace_local(0)
        R.check("C02-R3", "conversion", ret[0] == "agg" and ret[2] == ORE + "::CupValidation", "From<CupVerificationError> builds CupValidation", "verification errors convert to %s" % fmt_t(ret)[:80])
    for (SS, tag) in ((S, "check"), (Sr, "run")):
        for n in sm.env(SS, "Cup", "verify_response"):
            nd = SS.nodes[n]
            # the verification may sit in a closure handed to Option::map (`handler.zip(meta).map(|..| verify(..)).transpose()?`):
            # its result is tested in the function that creates the closure
            xcx = nd.ctx
            while xcx.parent is not None and xcx.bv.body.get("kind") == "closure":
                xcx = xcx.parent
            bv = xcx.bv
            # Break edge of the `?` on the verify result in this context
            brk = []
            for m in SS.nodes:
                if m.ctx is xcx and m.idx in SS.live and m.term["k"] == "switch":
                    si = guards.switch_info(bv, m.bi)
                    if si and si.kind == "discr" and ("verify_response" in fmt_t(si.term) or (lib.head_call(si.term) or "").endswith("verify_response")) and si.ty.get("d") in ("std::ops::ControlFlow", "std::result::Result"):
                        for b in SS.succ[m.idx]:
                            labs = [l[2] for l in SS.elabel.get((m.idx, b), []) if l[0] == "switch"]
                            names = [si.names.get(v, str(v)) for v in labs]
                            if "Break" in names or "Err" in names:
                                brk.append(b)
            if not brk:
                R.violation("C02-R3", "verify-error-edge:%s:%d" % (tag, xcx.idx), "the result of verify_response is not propagated with `?`/match in %s" % bv.name, nd.loc())
                continue
            r_ = reach_in(SS, brk, xcx)
            bad = [x for x in r_ if SS.ev[x] is not None and SS.ev[x][0] in ("env", "yield", "reply", "metric")]
            wr = [x for x in sm.writes(SS, "server_dictated_poll_interval") if x in r_]
            hdr = [x for x in r_ if SS.nodes[x].term["k"] == "call" and lib.callee_is(SS.nodes[x].term, "http::HeaderMap::<T>::get", "http::Response::<T>::into_parts", "http::Response::<T>::headers", "http::Response::<T>::body", "http::Response::<T>::status")]
            R.check("C02-R3", "exchange-exit:%s:%d" % (tag, len([1 for _ in brk])) + ":" + _ctxkey(xcx), not bad and not wr and not hdr,
                    "verification failure returns from the exchange with no effect",
                    "after a verification failure the exchange still performs: %s" % ([str(SS.ev[x]) + "@" + SS.nodes[x].loc() for x in bad] + [SS.nodes[x].loc() for x in wr + hdr]), nd.loc())
    forbidden = set(sm.env(S, "Http", "request")) | set(sm.env(S, "Timer")) | set(sm.calls(S, "protocol::response::parse_json_response")) | set(sm.env(S, "Installer")) | set(sm.env(S, "Policy")) | set(sm.yields(S, "OmahaServerResponse")) | set(sm.calls(S, "app_set::AppSetExt::update_from_omaha"))
    allowed_yields = {("StateChange", "ErrorCheckingForUpdate"), ("ScheduleChange", None), ("ProtocolStateChange", None), ("UpdateCheckResult", None)}
    es = sm.outcome_edges(S, ORE, "CupValidation")
    if R.floor("C02-R3", "CupValidation arms", len(es), 1):
        comps_ = smod.sccs(S, S.live)
        loopnodes = set()
        for L_ in comps_:
            if any(r in L_ for r in sm.env(S, "Http", "request")):
                loopnodes |= L_
        for (a, b, names) in es:
            if len(names) != 1:
                # shared arm of an or-pattern (classification match): handled by R4
                continue
            if a not in loopnodes:
                # a CupValidation test outside the attempt loop (e.g. in an event-report helper): within
                # that function nothing but the lost-event metric may depend on it
                cx = S.nodes[a].ctx
                r_ = reach_in(S, [b], cx) - reach_in(S, [x for x in S.succ[a] if x != b], cx)
                evs = [S.ev[x] for x in r_ if S.ev[x] and not (S.ev[x][0] == "metric" and S.ev[x][1] == "OmahaEventLost")]
                wr = [x for x in sm.writes(S, "context") if x in r_] + [x for x in r_ if any(s_["k"] == "assign" and "context" in smod._chain(s_["p"]) for s_ in S.nodes[x].block["s"])]
                R.check("C02-R3", "side-arm:" + _ctxkey(cx), not evs and not wr, "nothing depends on CupValidation here",
                        "a CupValidation-specific arm outside the attempt loop performs %s / writes context at %s" % (evs, [S.nodes[x].loc() for x in wr]), S.nodes[a].loc())
                continue
            r_ = reach_pf(S, [b])
            hit = r_ & forbidden
            p = path(S, [b], list(hit)) if hit else None
            R.check("C02-R3", "terminal:" + S.nodes[a].loc().split(":")[-1] if False else "terminal:" + _ctxkey(S.nodes[a].ctx), not hit,
                    "no request, wait, parse, installer, policy or server-response event after CupValidation",
                    "after CupValidation the flow reaches %s: %s" % (sorted(set(str(S.ev[x]) if S.ev[x] else lib.norm(S.nodes[x].term.get("callee")) for x in hit)), S.fmt_path(p) if p else ""), S.nodes[a].loc())
            ys = set((S.ev[x][1], S.ev[x][2]) for x in r_ if S.ev[x] and S.ev[x][0] == "yield")
            R.check("C02-R3", "yields-after:" + _ctxkey(S.nodes[a].ctx), ys <= allowed_yields and ("StateChange", "ErrorCheckingForUpdate") in ys,
                    "events after CupValidation: %s" % sorted(ys, key=str), "unexpected events after CupValidation: %s" % sorted(ys - allowed_yields, key=str), S.nodes[a].loc())
            # the arm produces Err(UpdateCheckError::OmahaRequest(..))
            bv = S.nodes[a].ctx.bv
            tgt_bi = S.nodes[b].bi
            excl = bv.reach_from([tgt_bi]) - bv.reach_from([x for x in bv.succ[S.nodes[a].bi] if x != tgt_bi], avoid=[S.nodes[a].bi])
            aggs = [s_["r"]["vn"] for x in excl for s_ in bv.blocks[x]["s"] if s_["k"] == "assign" and s_["r"]["k"] == "agg" and s_["r"].get("d") == UCE]
            R.check("C02-R3", "error-class:" + _ctxkey(S.nodes[a].ctx), aggs == ["OmahaRequest"], "arm builds UpdateCheckError::OmahaRequest", "CupValidation arm builds %s" % aggs, S.nodes[a].loc())

    # ---------------------------------------------------------------- R4 classification in the caller
    R.rule("C02-R4", "on Err(UpdateCheckError::OmahaRequest(_)) the check driver neither updates the app set nor the last-contact time, counts exactly one failed check and reports a failure-reason metric")
    es = sm.outcome_edges(S, UCE, "OmahaRequest")
    if R.floor("C02-R4", "OmahaRequest arms in the check driver", len(es), 1):
        upd = set(sm.calls(S, "app_set::AppSetExt::update_from_omaha"))
        lut = set(sm.writes(S, "schedule", "last_update_time"))
        fc = set(sm.writes(S, "state", "consecutive_failed_update_checks"))
        # where may the last-contact time be written at all?  only under check Ok or under an error that
        # proves the server answered (ResponseParser / InstallPlan)
        allowed_edges = set((a, b) for (a, b, nm) in sm.outcome_edges(S, UCE, "ResponseParser")) | set((a, b) for (a, b, nm) in sm.outcome_edges(S, UCE, "InstallPlan"))
        for (a, b, nm) in sm.outcome_edges(S, "std::result::Result", "Ok"):
            sub = S.nodes[a].ctx.bv.switch_subject(S.nodes[a].bi)
            if sub and UCE in S.nodes[a].ctx.bv.crate.types[sub[1]]["s"] and S.nodes[a].ctx is S.root:
                allowed_edges.add((a, b))
        for w in sorted(lut):
            mg_ = smod.merged_value_guard(S, w)
            if mg_:
                R.condition("merged-classification", mg_, ("C02-R4",))
            still = w in reach(S, [S.root.entry], cut_edges=allowed_edges)
            p = path(S, [S.root.entry], [w], cut_edges=allowed_edges) if still else None
            R.check("C02-R4", "last-contact-writer:" + _ctxkey(S.nodes[w].ctx), not still, "written only under check Ok / ResponseParser / InstallPlan",
                    "schedule.last_update_time is written on a path that has not established a server answer: %s" % (S.fmt_path(p) if p else ""), S.nodes[w].loc())
        for (a, b, names) in es:
            r_ = reach(S, [b])
            R.check("C02-R4", "no-appset-update", not (r_ & upd), "no update_from_omaha after a request failure", "update_from_omaha reachable after Err(OmahaRequest)", S.nodes[a].loc())
            R.check("C02-R4", "no-last-contact", not (r_ & lut), "last_update_time not written after a request failure", "schedule.last_update_time is written after Err(OmahaRequest): %s" % [S.nodes[x].loc() for x in r_ & lut], S.nodes[a].loc())
            miss = reach(S, [b], cut_nodes=fc) & set(S.root.returns)
            R.check("C02-R4", "one-failed-check", not miss and len(r_ & fc) == 1, "every path counts the failure once (site %s)" % [S.nodes[x].loc() for x in r_ & fc],
                    "failure counter write sites reachable: %s; paths without it: %s" % ([S.nodes[x].loc() for x in r_ & fc], bool(miss)), S.nodes[a].loc())
            fr_ = set(sm.metrics(S, "UpdateCheckFailureReason"))
            miss = reach(S, [b], cut_nodes=fr_) & set(S.root.returns)
            R.check("C02-R4", "failure-reason-metric", not miss, "failure reason metric on every path", "a request failure path reports no UpdateCheckFailureReason", S.nodes[a].loc())

    # ---------------------------------------------------------------- R5 event reports and pings
    R.rule("C02-R5", "a failed event-report exchange only records OmahaEventLost (no retry, outcome unaffected); a failed ping only counts one failure and persists")
    comps = smod.sccs(S, S.live)
    reqs = sm.env(S, "Http", "request")
    inloop = set(r for r in reqs for L in comps if r in L)
    n_reports = 0
    for r in reqs:
        if r in inloop:
            continue
        n_reports += 1
        # the exchange function's context and its caller
        ex = S.nodes[r].ctx
        while ex is not None and not _is_exchange(ex):
            ex = ex.parent
        if ex is None or ex.parent is None:
            R.inconclusive("C02-R5", "report:" + S.nodes[r].loc(), "cannot locate the exchange function of this send")
            continue
        caller = ex.parent
        # in the caller: switch on the exchange result
        errs = []
        oks = []
        for m in S.nodes:
            if m.ctx is caller and m.idx in S.live and m.term["k"] == "switch":
                si = guards.switch_info(caller.bv, m.bi)
                if si and si.kind == "discr" and si.ty.get("d") == "std::result::Result" and ORE in si.ty.get("s", "") and m.idx in reach(S, ex.returns):
                    for b in S.succ[m.idx]:
                        nm = [si.names.get(l[2], str(l[2])) if l[2] != "otherwise" else "Ok" for l in S.elabel.get((m.idx, b), []) if l[0] == "switch"]
                        (errs if "Err" in nm else oks).append(b)
        key = _ctxkey(caller)
        if not errs:
            R.violation("C02-R5", "report-result:" + key, "the result of an event-report exchange is not inspected (lost events are not recorded)", S.nodes[r].loc())
            continue
        only_err = reach_in(S, errs, caller) - reach_in(S, oks, caller)
        evs = [S.ev[x] for x in only_err if S.ev[x]]
        bad = [e for e in evs if not (e[0] == "metric" and e[1] == "OmahaEventLost")]
        bad += ["write:" + S.nodes[x].loc() for x in only_err if any(s_["k"] == "assign" and "context" in smod._chain(s_["p"]) for s_ in S.nodes[x].block["s"])]
        R.check("C02-R5", "report-error-arm:" + key, not bad and any(e[0] == "metric" for e in evs),
                "error arm records OmahaEventLost only (%d)" % len(evs), "error arm of an event report performs %s" % bad, S.nodes[r].loc())
    R.floor("C02-R5", "event-report sends", n_reports, 5)
    # ping (only in the long-running graph)
    pings = [n for n in Sr.nodes if n.idx in Sr.live and n.ctx.bv.body["kind"] == "coroutine" and _is_ping(sm, Sr, n.ctx)]
    ping_ctxs = set(n.ctx for n in pings)
    R.floor("C02-R5", "ping function contexts", len(ping_ctxs), 1)
    for pc in ping_ctxs:
        for m in Sr.nodes:
            if m.ctx is pc and m.idx in Sr.live and m.term["k"] == "switch":
                si = guards.switch_info(pc.bv, m.bi)
                if si and si.kind == "discr" and si.ty.get("d") == "std::result::Result" and ORE in si.ty.get("s", ""):
                    for b in Sr.succ[m.idx]:
                        nm = [si.names.get(l[2], str(l[2])) for l in Sr.elabel.get((m.idx, b), []) if l[0] == "switch"]
                        if "Err" in nm:
                            other = [x for x in Sr.succ[m.idx] if x != b]
                            only = reach_in(Sr, [b], pc) - reach_in(Sr, other, pc)
                            evs = [Sr.ev[x] for x in only if Sr.ev[x]]
                            bad = [e for e in evs if not (e[0] == "env" and e[1] in ("Storage", "AppSet") and e[2] in ("set_int", "set_string", "remove", "commit", "get_apps"))]
                            fcw = [x for x in sm.writes(Sr, "state", "consecutive_failed_update_checks") if x in only]
                            lut = [x for x in sm.writes(Sr, "schedule", "last_update_time") if x in only]
                            upd = [x for x in sm.calls(Sr, "app_set::AppSetExt::update_from_omaha") if x in only]
                            R.check("C02-R5", "ping-error-arm", not bad and len(fcw) == 1 and not lut and not upd,
                                    "failed ping: one failure counted, persisted, nothing else", "failed ping performs %s; counter writes %d; last_update_time writes %d; app-set updates %d" % (bad, len(fcw), len(lut), len(upd)), Sr.nodes[m.idx].loc())


def _descends(ctx, anc):
    while ctx is not None:
        if ctx is anc:
            return True
        ctx = ctx.parent
    return False


def _ctxkey(ctx):
    """Stable key for a context: the chain of function item names and ordinal of the call site among
    same-callee sites in the parent."""
    parts = []
    while ctx is not None:
        parts.append(ctx.bv.body.get("item") or ctx.bv.id.split("::")[-2])
        ctx = ctx.parent
    return "<".join(parts[:3])


def _is_exchange(ctx):
    """The exchange function: the coroutine that calls verify_response."""
    bv = ctx.bv
    return bv.body.get("kind") == "coroutine" and lib.calls_verify_response(bv) or any(t.get("trait") == "cup_ecdsa::Cupv2RequestHandler" and t.get("name") == "verify_response" for _, t in bv.calls())


def _is_ping(sm, S, ctx):
    return lib.is_ping_body(ctx.bv)
