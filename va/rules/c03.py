"""C03 — Every CUP request is freshly and faithfully decorated."""
from ..core import BV, strip, walk, fmt_t
from .. import lib, guards, terms, flow, sm as smod
from ..sm import reach, path, reach_in

H = "cup_ecdsa::StandardCupv2Handler"
T = set(terms.TRANSPARENT) | {"std::ops::Try::branch", "std::result::Result::<T, E>::map_err"}


def run(F, R):
    sm = smod.get(F)
    c = sm.c
    W = sm.w
    S = sm.S_run
    Sc = sm.S_check
    smod.preconditions(sm, R, "C03-pre")
    R.trust("http::Uri parsing/printing (scheme, authority preserved by into_parts/from_parts), rand::thread_rng, hex::encode, serde_json::to_vec determinism for one value")
    R.assume("'no nonce is ever used twice' is decided as: a fresh 32-byte nonce is drawn from thread_rng for every decoration and every send is preceded by its own decoration; collision freedom of random nonces is probabilistic and not decided")

    dec = lib.one(R, "C03-R1", c, "decorate_request impl", item="decorate_request", impl_self=H, impl_trait="cup_ecdsa::Cupv2RequestHandler")
    aqp = lib.one(R, "C03-R2", c, "append_query_parameter impl for Uri", item="append_query_parameter", impl_self="http::Uri")
    if not (dec and aqp):
        return
    N = {1: "self", 2: "request"}

    # ---------------------------------------------------------------- R1 the cup2key parameter
    R.rule("C03-R1", "decorate_request appends exactly one parameter cup2key=<latest key id>:<nonce> to the parsed request URI, with a nonce drawn in this invocation (32 random bytes, printed as hex), and writes the URI back")
    from . import c01 as _c01
    _c01.nonce_display(R, "C03-R1", c, W)   # "<key id>:<64 hex digits>": the nonce prints as hex::encode of its 32 bytes
    ap = [(bi, t) for bi, t in dec.calls() if lib.callee_is(t, "http_uri_ext::HttpUriExt::append_query_parameter")]
    R.check("C03-R1", "single-append", len(ap) == 1 and not dec.sccs(), "one append_query_parameter, no loop", "%d append_query_parameter calls" % len(ap))
    nonce_t = None
    if ap:
        bi, t = ap[0]
        from .. import optnorm
        inl = lambda tm: optnorm.inline_all(W, dec, tm)   # a private formatting helper is the expression it wraps
        a = [terms.render(dec, inl(dec.trace_op(x)), W, N, transparent=T) for x in t["args"]]
        R.check("C03-R1", "receiver", a[0] == "parse::<http::Uri>(get_uri(request))@Continue.0", a[0], "parameter appended to %s" % a[0][:100])
        R.check("C03-R1", "key", a[1] == "'cup2key'", a[1], "query key is %s" % a[1])
        R.check("C03-R1", "value", a[2] == "fmt('{0}:{1}', display(self.latest_public_key_id), display(new()))", a[2], "cup2key value is %s" % a[2][:120])
        ft = terms.format_term(dec, inl(dec.trace_op(t["args"][2])))
        if ft and len(ft[1]) == 2:
            nonce_t = terms._unref(ft[1][1][1])
            key_t = terms._unref(ft[1][0][1])
        su = [(b2, t2) for b2, t2 in dec.calls() if lib.callee_is(t2, "cup_ecdsa::CupRequest::set_uri")]
        ok = len(su) == 1 and terms.render(dec, dec.trace_op(su[0][1]["args"][1]), W, N, transparent=T).startswith("to_string(append_query_parameter(")
        R.check("C03-R1", "written-back", ok, "set_uri(uri.to_string())", "the decorated URI is not written back with set_uri")
        okp = su and all(x in dec.reach_from([su[0][0]]) or True for x in dec.exits())
        oks = [b2 for b2 in sorted(dec.reach0) for s_ in dec.blocks[b2]["s"] if s_["k"] == "assign" and not s_["p"].get("p") and s_["p"]["l"] == 0 and s_["r"]["k"] == "agg" and s_["r"].get("vn") == "Ok"]
        R.check("C03-R1", "every-ok-decorated", su and oks and all(o not in dec.reach_from([0], avoid=[su[0][0]]) for o in oks), "Ok(metadata) only after set_uri", "decorate_request can return Ok without decorating the URI")
    nn = lib.one(R, "C03-R1", c, "Nonce::new", item="new", impl_self="cup_ecdsa::Nonce")
    if nn:
        ret = terms.render(nn, nn.trace_local(0), W, {})
        calls = [lib.norm(t.get("callee")) for _, t in nn.calls()]
        fill = [t for _, t in nn.calls() if lib.callee_is(t, "rand::Rng::fill")]
        ok = ret == "Nonce{[const 0; 32]}" and "rand::thread_rng" in calls and len(fill) == 1
        det = ""
        if fill:
            a0 = terms.render(nn, nn.trace_op(fill[0]["args"][0]), W, {})
            a1 = nn.trace_op(fill[0]["args"][1])
            full = any(x[0] == "agg" and x[2] and x[2].endswith("RangeFull") for x in walk(a1)) or "RangeFull" in fmt_t(a1)
            det = "fill(%s, %s)" % (a0, fmt_t(a1)[:80])
            ok = ok and a0 == "thread_rng()" and full
        R.check("C03-R1", "nonce-is-32-random-bytes", ok, "Nonce::new fills all 32 bytes from thread_rng(): " + det, "Nonce::new is %s with %s" % (ret, det))
        nd = [b for b in lib.bodies(c, item="default", impl_self="cup_ecdsa::Nonce")]
        if nd:
            r_ = terms.render(BV.of(nd[0]), BV.of(nd[0]).trace_local(0), W, {})
            R.check("C03-R1", "nonce-default-is-fresh", r_ == "new()", r_, "Nonce::default() is %s" % r_)

    # ---------------------------------------------------------------- R2 only the query is rewritten
    R.rule("C03-R2", "append_query_parameter rewrites only path_and_query, keeping path and existing query as a prefix and adding key=value last")
    ws = [(bi, p, r) for (bi, si, p, r) in aqp.field_writes if bi in aqp.reach0]
    wbody, wargs = aqp, None
    if not ws:
        # the write may sit in a private helper that is handed the Parts (e.g. a shared "replace path and query" tail)
        for hv_ in lib.with_private_callees(W, aqp, same_self=False)[1:]:
            w2 = [(bi, p, r) for (bi, si, p, r) in hv_.field_writes if bi in hv_.reach0 and "Parts" in hv_.lty(p["l"])["s"]]
            site_ = [t2 for _, t2 in aqp.calls() if (t2.get("resolved_id") or t2.get("callee_id")) == hv_.id]
            if w2 and len(site_) == 1:
                ws, wbody = w2, hv_
                wargs = [aqp.trace_op(a_) for a_ in site_[0]["args"]]
                break
    names = {1: "self", 2: "key", 3: "value"}
    R.check("C03-R2", "single-field", len(ws) == 1 and smod._chain(ws[0][1]) == ["path_and_query"], "only path_and_query is written", "fields written between into_parts and from_parts: %s" % [smod._chain(p) for _, p, _ in ws])
    if ws:
        vt_ = wbody._trace_rv(ws[0][2], None, 0)
        if wargs is not None:
            from .. import optnorm as _on
            vt_ = _on.simplify(lib.subst_params(terms.annotate_names(wbody, vt_), wargs))
        v = terms.render(aqp, vt_, W, names, transparent=T)
        pq = "into_parts(self).path_and_query@Some.0"
        exp = "Some{parse::<http::uri::PathAndQuery>(phi(fmt('?{0}={1}', display(key), display(value))|fmt('{0}?{1}&{2}={3}', display(path(%s)), display(query(%s)@Some.0), display(key), display(value))|fmt('{0}?{1}={2}', display(path(%s)), display(key), display(value))))@Continue.0}" % (pq, pq, pq)
        readable = "fmt(" in v and not any(w_ in v for w_ in ("push_str(", "push(", "concat(", "to_string(", "String::from", "insert_str(", "extend("))
        if not readable:
            # assembled by in-place string edits (push/push_str/concat): the term model has no value for a mutated String
            R.inconclusive("C03-R2", "composition", "the new path-and-query is not a format!() of its parts (%s): in-place string building is not read by this rule" % v[:120])
        else:
            R.check("C03-R2", "composition", v == exp or _phi_set(v) == _phi_set(exp), v[:200], "new path_and_query is %s, expected %s" % (v, exp))
        from .. import optnorm as _on2
        ret = _on2.canon(terms.render(aqp, _on2.inline_all(W, aqp, aqp.trace_local(0)), W, names, transparent=T)).replace("@OK", "@Continue.0")
        R.check("C03-R2", "reassembled", "Ok{from_parts(into_parts(self))@Continue.0}" in ret or ret.endswith("from_parts(into_parts(self)))") or "map_err(from_parts(into_parts(self))" in ret, "Uri::from_parts(the same parts)", "result is %s" % ret[:160])
        # which format is used under which condition
        sw = [b for b in sorted(aqp.reach0) if aqp.blocks[b]["t"]["k"] == "switch" and len(aqp.succ[b]) > 1 and aqp.switch_subject(b) is not None]
        conds = []
        for b in sw:
            si = guards.switch_info(aqp, b)
            if si.ty.get("d") == "std::option::Option":
                conds.append(terms.render(aqp, si.term, W, names, transparent=T))
        if readable:
            R.check("C03-R2", "cases", sorted(conds)[:2] == sorted(["into_parts(self).path_and_query", "query(%s)" % pq]), str(conds[:3]), "format chosen by %s" % conds)

    # ---------------------------------------------------------------- R3 metadata == wire bytes
    R.rule("C03-R3", "the retained metadata holds get_serialized_body() of the very Intermediate that becomes the wire request, the same key id and nonce as the URI; both serialisations go through Intermediate::serialize_body of an unmodified body")
    # .. and that metadata is what the exchange hands back (to the installer, for re-verification of the stored response):
    # the third member of its Ok tuple is the metadata half of this exchange's build(), on every success path
    exb_ = [b for b in c.bodies if b["kind"] == "coroutine" and lib.calls_verify_response(BV.of(b))]
    if R.floor("C03-R3", "exchange function (caller of verify_response)", len(exb_), 1):
        ev_ = BV.of(exb_[0])
        oks_ = [x for x in walk(ev_.trace_local(0)) if x[0] == "agg" and (x[2] or "").endswith("Result::Ok") and len(x[3]) == 1 and strip(x[3][0])[0] == "agg" and strip(x[3][0])[1] == "tuple"]
        if R.floor("C03-R3", "Ok tuple of the exchange function", len(oks_), 1):
            for n_, ok_ in enumerate(oks_):
                tup_ = strip(ok_[3][0])[3]
                mds_ = [terms.render(ev_, a_, W, {}, transparent=T) for a_ in tup_ if "RequestMetadata" in fmt_t(a_) or "build(" in terms.render(ev_, a_, W, {}, transparent=T)[:8]]
                md_ = terms.render(ev_, tup_[2], W, {}, transparent=T) if len(tup_) > 2 else "?"
                R.check("C03-R3", "metadata-handed-back#%d" % n_, md_.startswith("build(") and md_.endswith("@Continue.0.1"), md_[:80],
                        "the exchange returns %s as request metadata instead of the metadata its own build() produced: the installer cannot re-verify the response it stores" % md_[:80])
    ret = [x for x in walk(dec.trace_local(0)) if x[0] == "agg" and x[2] and x[2].endswith("RequestMetadata::RequestMetadata")]
    if R.floor("C03-R3", "RequestMetadata construction", len(ret), 1):
        md = ret[0]
        nm = md[4]
        body = terms.render(dec, md[3][nm.index("request_body")], W, N, transparent=T)
        R.check("C03-R3", "metadata-body", body == "get_serialized_body(request)@Continue.0", body, "metadata.request_body <- %s" % body)
        if nonce_t is None:
            R.inconclusive("C03-R3", "same-nonce", "could not decode the cup2key format arguments")
        else:
            R.check("C03-R3", "same-nonce", terms._unref(md[3][nm.index("nonce")]) == nonce_t and nonce_t[0] == "call" and nonce_t[1] == "cup_ecdsa::Nonce::new", "the nonce in the URI is the nonce in the metadata (one Nonce::new() call)", "URI and metadata use different nonces")
            R.check("C03-R3", "same-key-id", terms._unref(md[3][nm.index("public_key_id")]) == key_t, "same key id in URI and metadata", "URI and metadata use different key ids")
        gsb = [bi for bi, t in dec.calls() if lib.callee_is(t, "cup_ecdsa::CupRequest::get_serialized_body")]
        su = [bi for bi, t in dec.calls() if lib.callee_is(t, "cup_ecdsa::CupRequest::set_uri")]
    im = [b for b in lib.bodies(c, item="get_serialized_body", impl_self="request_builder::Intermediate")]
    if R.floor("C03-R3", "CupRequest impl for Intermediate", len(im), 1):
        r_ = terms.render(BV.of(im[0]), BV.of(im[0]).trace_local(0), W, {1: "self"})
        R.check("C03-R3", "serialized-body-impl", r_ == "serialize_body(self)", r_, "get_serialized_body is %s" % r_)
        sb = lib.one(R, "C03-R3", c, "Intermediate::serialize_body", item="serialize_body", impl_self="request_builder::Intermediate")
        if sb:
            r2 = terms.render(sb, sb.trace_local(0), W, {1: "self"})
            R.check("C03-R3", "serialize-body", r2 == "to_vec(self.body)", r2, "serialize_body is %s" % r2)
        st = [b for b in lib.bodies(c, item="set_uri", impl_self="request_builder::Intermediate")]
        if st:
            sv = BV.of(st[0])
            w_ = [smod._chain(p) for (bi, si, p, r) in sv.field_writes if bi in sv.reach0]
            R.check("C03-R3", "set_uri-writes-uri-only", w_ == [["uri"]], "set_uri writes .uri only", "set_uri writes %s" % w_)
    conv = [b for b in c.bodies if b["item"] == "from" and "request_builder::Intermediate" in [c.types[a]["s"] for a in b.get("impl_trait_args", []) if isinstance(a, int)] and "http::Request" in (b.get("impl_self") or "")]
    if R.floor("C03-R3", "From<Intermediate> for Result<http::Request>", len(conv), 1):
        cv = BV.of(conv[0])
        bodyc = [t for _, t in cv.calls() if lib.callee_is(t, "http::request::Builder::body")]
        ok = False
        det = ""
        if bodyc:
            det = terms.render(cv, cv.trace_op(bodyc[0]["args"][1]), W, {1: "intermediate"}, transparent=T)
            ok = det == "serialize_body(intermediate)@Continue.0"
        R.check("C03-R3", "wire-body", ok, det, "wire body <- %s" % det)
        post = [t for _, t in cv.calls() if lib.callee_is(t, "post")]
        ok = len(post) == 1 and terms.render(cv, cv.trace_op(post[0]["args"][0]), W, {1: "intermediate"}) == "intermediate.uri"
        R.check("C03-R5", "method-and-target", ok, "hyper::Request::post(&intermediate.uri)", "request is not POST to intermediate.uri")
    bd = lib.one(R, "C03-R3", c, "RequestBuilder::build", item="build", impl_self="request_builder::RequestBuilder")
    bi_ = lib.one(R, "C03-R3", c, "RequestBuilder::build_intermediate", item="build_intermediate", impl_self="request_builder::RequestBuilder")
    if bd and bi_:
        tup = [x for x in walk(bd.trace_local(0)) if x[0] == "agg" and x[1] == "tuple" and len(x[3]) == 2]
        if tup:
            req = terms.render(bd, tup[0][3][0], W, {1: "self", 2: "handler"}, transparent=T)
            meta = terms.render(bd, tup[0][3][1], W, {1: "self", 2: "handler"}, transparent=T)
            R.check("C03-R3", "same-intermediate", req == "build_intermediate(self, handler)@Continue.0.0@Continue.0" or (req.startswith("build_intermediate(self, handler)@Continue.0.0") and meta == "build_intermediate(self, handler)@Continue.0.1"),
                    "request <- the decorated Intermediate; metadata <- the same build_intermediate call", "build() pairs request %s with metadata %s" % (req[:80], meta[:80]))
        # nothing may touch the Intermediate after it was decorated (the metadata already holds its serialisation)
        iw = [(b2, smod._chain(p_)) for (b2, si_, p_, r_) in bi_.field_writes if b2 in bi_.reach0 and "Intermediate" in bi_.crate.types[bi_.locals[p_["l"]]["t"]]["s"]]
        dcl = [b2 for b2, t2 in bi_.calls() if t2.get("trait") == "cup_ecdsa::Cupv2RequestHandler" and t2["name"] == "decorate_request"]
        muts = [b2 for b2, t2 in bi_.calls() if dcl and b2 in bi_.reach_from(dcl) and b2 not in dcl and any(("Intermediate" in bi_.crate.types[ty]["s"] and bi_.crate.types[ty].get("k") == "ref" and bi_.crate.types[ty].get("m")) for ty in t2.get("argt", []))]
        R.check("C03-R3", "intermediate-untouched-after-decoration", not [w for w in iw if dcl and w[0] in bi_.reach_from(dcl)] and not muts, "no write to the Intermediate after decorate_request",
                "the Intermediate is modified after decoration (%s): the wire body differs from the retained request body" % ([w[1] for w in iw] + [lib.loc(bi_, m) for m in muts]))
        # the decoration may be called directly or inside a closure handed to Option::map: take it from the event skeleton
        d2 = [S.nodes[x] for x in sm.env(S, "Cup", "decorate_request") if any(cx_.bv is bi_ for cx_ in _ancestors(S.nodes[x].ctx))]
        if R.floor("C03-R3", "decorate_request call in build_intermediate", len(d2), 1):
            nd2 = d2[0]
            bctx = [cx_ for cx_ in _ancestors(nd2.ctx) if cx_.bv is bi_][0]
            tgt = terms._unref(S.trace(nd2, nd2.term["args"][1]))
            if nd2.ctx is not bctx:
                # resolved up to the function's own terms
                pass
            ret0_ = bi_.trace_local(0)
            rt = []
            for alt_ in (ret0_[1] if ret0_[0] == "phi" else [ret0_]):
                # the (intermediate, metadata) pair under Ok(..) of the return value itself, not a pair somewhere inside it
                if alt_[0] == "agg" and alt_[1] == "adt" and (alt_[2] or "").endswith("Result::Ok") and alt_[3]:
                    x_ = terms._unref(alt_[3][0])
                    if x_[0] == "agg" and x_[1] == "tuple" and len(x_[3]) == 2:
                        rt.append(x_)
            if not rt:
                rt = [x for x in walk(ret0_) if x[0] == "agg" and x[1] == "tuple" and len(x[3]) == 2]
            same = False
            if rt:
                mine = terms._unref(rt[0][3][0])
                tg2 = tgt
                # compare within build_intermediate: an upvar resolves to the captured operand of the closure aggregate
                same = (repr(mine) == repr(tg2) or repr(S.resolve(bctx, mine)) == repr(tg2)) and mine[0] == "agg" and mine[2] and mine[2].endswith("Intermediate::Intermediate")
            R.check("C03-R3", "decorated-value-is-returned", same, "the Intermediate handed to decorate_request is the one returned", "decorate_request is applied to a different Intermediate than the one sent")
    # metadata reaches the installer from the winning attempt
    for n_ in sm.env(Sc, "Installer", "try_create_install_plan"):
        nd = Sc.nodes[n_]
        t_ = terms.render(nd.ctx.bv, nd.ctx.bv.trace_op(nd.term["args"][2]), W, {}, transparent=T)
        R.check("C03-R3", "installer-metadata", "do_omaha_request_and_update_context(" in t_ and t_.endswith(".2") or ("@Ok.0" in t_ and ".2" in t_), t_[-80:], "install plan receives metadata %s" % t_[-120:], nd.loc())

    # ---------------------------------------------------------------- R4 fresh decoration per send
    R.rule("C03-R4", "between any two sends there is a RequestBuilder::build (hence a decoration with a fresh nonce) and a request_id(GUID::new()); the send consumes that build's request")
    lib.check_as_configured(R, "C03-R4", W, sm, {"cup_handler": "cup_handler", "http": "http"})
    lib.builder_setters_preserve(R, "C03-R4", W, sm.c, ["cup_handler", "http"])
    reqs = sm.env(S, "Http", "request")
    decs = sm.env(S, "Cup", "decorate_request")
    # "with a CUP handler configured": the no-handler edge of build_intermediate is out of scope
    noh = []
    for (a, b, nm) in sm.outcome_edges(S, "std::option::Option"):
        nd_ = S.nodes[a]
        sub = nd_.ctx.bv.switch_subject(nd_.bi)
        if "Cupv2RequestHandler" in nd_.ctx.bv.crate.types[sub[1]]["s"] and "Some" not in nm:
            noh.append((a, b))
    # .. also when it is spelt `cup_handler.map(|h| h.decorate_request(..))`: skipping the closure is the no-handler case
    noh += S.bypass_edges(lambda t, cid, bv_: lib.norm(t.get("callee") or "") in ("std::option::Option::<T>::map", "std::option::Option::<T>::and_then") and t.get("argt") and "Cupv2RequestHandler" in bv_.crate.types[t["argt"][0]]["s"])
    R.floor("C03-R4", "no-handler edges (excluded)", len(noh), 1)
    if R.floor("C03-R4", "sends / decorations in the long-running loop", min(len(reqs), len(decs)), 3):
        stale = []
        for x in reqs:
            r_ = reach(S, S.succ[x], cut_nodes=decs, cut_edges=noh)
            hit = [y for y in reqs if y in r_]
            if hit:
                stale.append((x, hit[0]))
        p = path(S, S.succ[stale[0][0]], [stale[0][1]], cut_nodes=decs, cut_edges=noh) if stale else None
        R.check("C03-R4", "decoration-between-sends", not stale, "every send is preceded by its own decorate_request", "two sends can share one decoration (nonce reuse): %s" % (S.fmt_path(p) if p else ""))
        R.check("C03-R4", "decoration-before-first-send", not any(x in reach(S, [S.root.entry], cut_nodes=decs, cut_edges=noh) for x in reqs), "no send before a decoration", "a send is reachable without any decoration")
        gn = [n.idx for n in S.nodes if n.idx in S.live and n.term["k"] == "call" and (n.term.get("callee") or "").endswith("RequestBuilder::<'a>::request_id")]
        stale = []
        for x in reqs:
            r_ = reach(S, S.succ[x], cut_nodes=gn)
            if [y for y in reqs if y in r_]:
                stale.append(x)
        R.check("C03-R4", "request-id-between-sends", not stale, "every send is preceded by its own request_id(..)", "two sends can share one request id")
        for x in gn:
            nd = S.nodes[x]
            a = strip(nd.ctx.bv.trace_op(nd.term["args"][1]))
            R.check("C03-R4", "request-id-fresh:" + _k(nd), a[0] == "call" and a[1].endswith("GUID::new"), "request_id(GUID::new())", "request id <- %s" % fmt_t(a)[:80], nd.loc())
    g = [b for b in lib.bodies(c, item="new", impl_self="protocol::request::GUID")]
    if R.floor("C03-R4", "GUID::new", len(g), 1):
        r_ = terms.render(BV.of(g[0]), BV.of(g[0]).trace_local(0), W, {})
        R.check("C03-R4", "guid-is-random", r_ == "GUID{new_v4()}", r_, "GUID::new is %s" % r_)
    for x in reqs[:1]:
        nd = S.nodes[x]
        # the request passed to HttpRequest::request is the parameter of the send helper, whose caller passes build()'s result
        ex = nd.ctx
        while ex is not None and not (ex.bv.body.get("kind") == "coroutine" and lib.calls_verify_response(ex.bv)):
            ex = ex.parent
        if ex is nd.ctx:
            # no send helper: the exchange function hands the request to the transport itself
            a = terms.render(ex.bv, ex.bv.trace_op(nd.term["args"][1]), W, {}, transparent=T)
            R.check("C03-R4", "send-consumes-build", a.startswith("build(") and a.endswith("@Continue.0.0"), a[:80], "the request sent is %s" % a[:100])
        elif ex is None:
            R.inconclusive("C03-R4", "send-consumes-build", "exchange function of the send not found")
        else:
            mk = [t for _, t in ex.bv.calls() if t.get("callee_id") and (t["callee_id"] + "::{closure#0}") == nd.ctx.bv.id]
            if not mk:
                R.inconclusive("C03-R4", "send-consumes-build", "call of the send helper not found in the exchange function")
            if mk:
                a = terms.render(ex.bv, ex.bv.trace_op(mk[0]["args"][1]), W, {}, transparent=T)
                R.check("C03-R4", "send-consumes-build", a.startswith("build(") and a.endswith("@Continue.0.0"), a[:80], "the request sent is %s" % a[:100])
                h = terms.render(ex.bv, [ex.bv.trace_op(t["args"][1]) for _, t in ex.bv.calls() if lib.callee_is(t, "request_builder::RequestBuilder::<'a>::build")][0], W, {}, transparent=T)
                R.check("C03-R4", "build-uses-configured-handler", h.endswith(".cup_handler"), h, "build() is given handler %s" % h)

    # ---------------------------------------------------------------- R5 target is the configured URL
    R.rule("C03-R5", "the request targets config.service_url with method POST")
    if bi_:
        ag = [x for x in walk(bi_.trace_local(0)) if x[0] == "agg" and x[2] and x[2].endswith("Intermediate::Intermediate")]
        if R.floor("C03-R5", "Intermediate construction", len(ag), 1):
            u = terms.render(bi_, ag[0][3][ag[0][4].index("uri")], W, {1: "self"})
            R.check("C03-R5", "service-url", u == "self.config.service_url", u, "request URI <- %s" % u)


def _ancestors(cx):
    while cx is not None:
        yield cx
        cx = cx.parent


def _k(nd):
    parts = []
    cx = nd.ctx
    while cx is not None and len(parts) < 2:
        parts.append(cx.bv.body.get("item") or cx.bv.id.split("::")[-2])
        cx = cx.parent
    return "<".join(parts)


def _phi_set(v):
    """(text before the first phi(, frozenset of its top-level alternatives, text after) — the order of merged alternatives
    depends on the order of match arms, not on what is built."""
    i = v.find("phi(")
    if i < 0:
        return (v, frozenset(), "")
    depth = 0
    j = i + 3
    parts = []
    cur = ""
    inq = False
    while j < len(v):
        ch = v[j]
        if ch == "'":
            inq = not inq
        if not inq:
            if ch == "(":
                depth += 1
                if depth == 1:
                    j += 1
                    continue
            elif ch == ")":
                depth -= 1
                if depth == 0:
                    parts.append(cur)
                    break
            elif ch == "|" and depth == 1:
                parts.append(cur)
                cur = ""
                j += 1
                continue
        cur += ch
        j += 1
    return (v[:i], frozenset(parts), v[j + 1:])
