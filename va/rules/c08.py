"""C08 — Protocol bookkeeping is exact, durable and crash-consistent (structural clauses)."""
from ..core import BV, strip, walk, fmt_t
from .. import lib, guards, sm as smod, terms, keys
from ..sm import reach, path, reach_in, reach_pf

UCE = "state_machine::UpdateCheckError"
ORE = "state_machine::OmahaRequestError"
FC = ("state", "consecutive_failed_update_checks")
LUT = ("schedule", "last_update_time")


def write_value(S, sm, x, suffix):
    """Rendered value(s) assigned to the field at node x."""
    nd = S.nodes[x]
    bv = nd.ctx.bv
    out = []
    for s_ in nd.block["s"]:
        if s_["k"] == "assign" and smod._chain_ends(s_["p"], suffix, bv):
            out.append(terms.render(bv, bv._trace_rv(s_["r"], None, 0), sm.w, {}))
    t = nd.term
    if t["k"] == "call" and t.get("name") in ("add_assign", "sub_assign") and not out:
        out.append("%s(%s, %s)" % (t["name"], terms.render(bv, bv.trace_op(t["args"][0]), sm.w, {}), terms.render(bv, bv.trace_op(t["args"][1]), sm.w, {})))
    return out


def result_switch_edges(S, sm, ctx, head_contains, variant):
    out = []
    for adt, v in (("std::result::Result", variant), ("std::ops::ControlFlow", {"Ok": "Continue", "Err": "Break"}[variant])):
        for (a, b, nm) in sm.outcome_edges(S, adt, v):
            nd = S.nodes[a]
            if ctx is not None and nd.ctx is not ctx:
                continue
            h = lib.head_call(guards.switch_info(nd.ctx.bv, nd.bi).term) or ""
            if head_contains in h:
                out.append((a, b))
    return out


def is_ping_ctx(ctx):
    return lib.is_ping_body(ctx.bv)


def run(F, R):
    sm = smod.get(F)
    c = sm.c
    S = sm.S_check
    Sr = sm.S_run
    W = sm.w
    smod.preconditions(sm, R, "C08-pre")
    R.trust("Storage contract: writes are cached until commit, commit is atomic; TimeSource::now")
    R.assume("crash atomicity itself is delegated to the Storage contract; the rules decide which writes exist, under which outcome, and that each group is committed before the flow goes on")
    R.count("supergraph_nodes", len(S.live) + len(Sr.live))

    root = S.root
    # the check driver's result switch
    okE = [(a, b) for (a, b, nm) in sm.outcome_edges(S, "std::result::Result", "Ok") if S.nodes[a].ctx is root and UCE in root.bv.crate.types[root.bv.switch_subject(S.nodes[a].bi)[1]]["s"]]
    errE = [(a, b) for (a, b, nm) in sm.outcome_edges(S, "std::result::Result", "Err") if S.nodes[a].ctx is root and UCE in root.bv.crate.types[root.bv.switch_subject(S.nodes[a].bi)[1]]["s"]]
    if not (R.floor("C08-R1", "check result Ok edges", len(okE), 1) and R.floor("C08-R1", "check result Err edges", len(errE), 1)):
        return
    rets = set(root.returns)

    # ---------------------------------------------------------------- R1 failure counter
    R.rule("C08-R1", "the consecutive-failure counter is reset only under check Ok / ping parsed Ok and incremented by exactly one (from its own value) once under every failed check and failed ping; no other writer")
    fw = sm.writes(S, *FC)
    if R.floor("C08-R1", "failure-counter writes in a check", len(fw), 2):
        resets, incs, other = [], [], []
        for x in fw:
            vals = write_value(S, sm, x, FC)
            v = vals[0] if vals else "?"
            if v == "0":
                resets.append(x)
            elif _is_increment(v):
                incs.append(x)
            else:
                other.append((x, v))
        R.check("C08-R1", "value-forms", not other, "%d reset(s), %d increment(s)" % (len(resets), len(incs)), "unexpected value written to the failure counter: %s" % [(S.nodes[x].loc(), v) for x, v in other])
        r_noOk = reach(S, [root.entry], cut_edges=okE)
        r_noErr = reach(S, [root.entry], cut_edges=errE)
        R.check("C08-R1", "reset-only-on-success", resets and not any(x in r_noOk for x in resets), "reset only under check Ok", "the counter is reset on a path where the check did not succeed")
        R.check("C08-R1", "increment-only-on-failure", incs and not any(x in r_noErr for x in incs), "incremented only under check Err", "the counter is incremented on a path where the check did not fail")
        for (a, b) in okE:
            R.check("C08-R1", "reset-always-on-success", not (rets & reach(S, [b], cut_nodes=resets)), "every successful check resets", "a successful check can finish without resetting the counter", S.nodes[a].loc())
        for (a, b) in errE:
            R.check("C08-R1", "increment-always-on-failure", not (rets & reach(S, [b], cut_nodes=incs)), "every failed check (any error variant) increments", "a failed check can finish without counting", S.nodes[a].loc())
            after = set()
            for x in incs:
                after |= (reach(S, S.succ[x]) & set(incs))
            R.check("C08-R1", "increment-once", not after, "one increment per failed check", "a failed check can increment twice", S.nodes[a].loc())
    # ping
    pcs = [cx for cx in Sr.ctxs if cx.bv.body["kind"] == "coroutine" and is_ping_ctx(cx)]
    if R.floor("C08-R1", "ping function contexts", len(pcs), 1):
        pc = pcs[0]
        pin = lambda xs: [x for x in xs if smod.descends(Sr.nodes[x].ctx, pc)]
        ex_ok = result_switch_edges(Sr, sm, pc, "do_omaha", "Ok") or [(a, b) for (a, b, nm) in sm.outcome_edges(Sr, "std::result::Result", "Ok") if Sr.nodes[a].ctx is pc and ORE in pc.bv.crate.types[pc.bv.switch_subject(Sr.nodes[a].bi)[1]]["s"]]
        ex_err = [(a, b) for (a, b, nm) in sm.outcome_edges(Sr, "std::result::Result", "Err") if Sr.nodes[a].ctx is pc and ORE in pc.bv.crate.types[pc.bv.switch_subject(Sr.nodes[a].bi)[1]]["s"]]
        ex_ok = [(a, b) for (a, b, nm) in sm.outcome_edges(Sr, "std::result::Result", "Ok") if Sr.nodes[a].ctx is pc and ORE in pc.bv.crate.types[pc.bv.switch_subject(Sr.nodes[a].bi)[1]]["s"]]
        pa_ok = [(a, b) for (a, b, nm) in sm.outcome_edges(Sr, "std::result::Result", "Ok") if Sr.nodes[a].ctx is pc and "ResponseParseError" in pc.bv.crate.types[pc.bv.switch_subject(Sr.nodes[a].bi)[1]]["s"]]
        pa_err = [(a, b) for (a, b, nm) in sm.outcome_edges(Sr, "std::result::Result", "Err") if Sr.nodes[a].ctx is pc and "ResponseParseError" in pc.bv.crate.types[pc.bv.switch_subject(Sr.nodes[a].bi)[1]]["s"]]
        pw = pin(sm.writes(Sr, *FC))
        presets = [x for x in pw if write_value(Sr, sm, x, FC) == ["0"]]
        pincs = [x for x in pw if x not in presets]
        badv = [write_value(Sr, sm, x, FC) for x in pincs if not all(_is_increment(v) for v in write_value(Sr, sm, x, FC))]
        prets = set(pc.returns)
        if R.floor("C08-R1", "ping exchange/parse result tests", min(len(ex_ok), len(ex_err), len(pa_ok), len(pa_err)), 1):
            R.check("C08-R1", "ping-values", not badv and presets and pincs, "ping: %d reset, %d increments by one" % (len(presets), len(pincs)), "ping writes %s" % badv)
            r_ = reach_in(Sr, [pc.entry], pc, cut_edges=pa_ok)
            R.check("C08-R1", "ping-reset-only-on-success", not any(x in r_ for x in presets), "ping resets only after a parsed response", "ping resets the counter without a parsed response")
            r_ = reach_in(Sr, [pc.entry], pc, cut_edges=ex_err + pa_err)
            R.check("C08-R1", "ping-increment-only-on-failure", not any(x in r_ for x in pincs), "ping increments only on send/parse failure", "ping increments the counter without a failure")
            for tag, es in (("send-failure", ex_err), ("parse-failure", pa_err)):
                for (a, b) in es:
                    R.check("C08-R1", "ping-counts:" + tag, not (prets & reach_in(Sr, [b], pc, cut_nodes=pincs)), "a ping %s counts as one failure" % tag, "a ping %s is not counted" % tag, Sr.nodes[a].loc())
            for (a, b) in pa_ok:
                R.check("C08-R1", "ping-success-resets", not (prets & reach_in(Sr, [b], pc, cut_nodes=presets)), "a successful ping resets the counter", "a successful ping does not reset the counter", Sr.nodes[a].loc())
    # crate-wide writer census
    assigners = set()
    for b in c.bodies:
        v = BV.of(b)
        for (bi, si, p, r) in v.field_writes:
            if bi in v.reach0 and smod._chain_ends(p, FC[-1:]):
                assigners.add(v.id)
    live_bodies = set(cx.bv.id for cx in Sr.ctxs) | set(cx.bv.id for cx in S.ctxs)
    stray = sorted(a for a in assigners if a not in live_bodies)
    R.check("C08-R1", "no-stray-writer", not stray, "all %d assigning bodies are part of the analysed flow" % len(assigners), "the failure counter is also assigned in %s" % stray)

    # ---------------------------------------------------------------- R2 last-contact time
    R.rule("C08-R2", "schedule.last_update_time is written (with TimeSource::now()) exactly under check Ok, check Err(ResponseParser|InstallPlan) and ping success; never under a request failure")
    lw = sm.writes(S, *LUT)
    allowed = okE + [(a, b) for v in ("ResponseParser", "InstallPlan") for (a, b, nm) in sm.outcome_edges(S, UCE, v)]
    for x_ in lw:
        mg_ = smod.merged_value_guard(S, x_)
        if mg_:
            R.condition("merged-classification", mg_, ("C08-R2",))
    if R.floor("C08-R2", "last-contact writes in a check", len(lw), 2):
        r_ = reach(S, [root.entry], cut_edges=allowed)
        bad = [x for x in lw if x in r_]
        p = path(S, [root.entry], bad, cut_edges=allowed) if bad else None
        R.check("C08-R2", "only-after-server-answer", not bad, "written only under Ok / ResponseParser / InstallPlan", "last_update_time written without a server answer: %s" % (S.fmt_path(p) if p else ""))
        for (a, b) in allowed:
            R.check("C08-R2", "always-after-server-answer:" + "|".join(sorted(set(n for (a2, b2, nm) in sm.outcome_edges(S, UCE) + sm.outcome_edges(S, "std::result::Result") if (a2, b2) == (a, b) for n in nm))),
                    not (rets & reach(S, [b], cut_nodes=lw)), "every answered check advances the last-contact time", "an answered check can finish without advancing last_update_time", S.nodes[a].loc())
        for (a, b, nm) in sm.outcome_edges(S, UCE, "OmahaRequest"):
            R.check("C08-R2", "not-on-request-failure", not (set(lw) & reach(S, [b])), "untouched by transport/HTTP/construction/authentication failures", "last_update_time is written after a request failure", S.nodes[a].loc())
        for x in lw:
            v = write_value(S, sm, x, LUT)
            R.check("C08-R2", "value:" + str(S.nodes[x].loc().split(":")[-1]) if False else "value:" + _k(S, x), all(s_ == "Some{now(param1.0.time_source)}" or s_.startswith("Some{now(") for s_ in v), str(v), "last_update_time is set to %s, expected Some(time_source.now())" % v, S.nodes[x].loc())
    # an HTTP-status failure is a request failure, not a server answer: the exchange function hands a response on (Ok)
    # only under `status.is_success()`; every other status leaves it as an error
    exv = [BV.of(b) for b in c.bodies if b["kind"] == "coroutine" and lib.calls_verify_response(BV.of(b))]
    if R.floor("C08-R2", "exchange function (caller of verify_response)", len(exv), 1):
        xv = exv[0]
        succ_e = [(a, b) for (a, b, tr) in xv.bool_edges(lambda t: t[0] == "call" and lib.norm(t[1]) == "http::StatusCode::is_success") if tr]
        other_tests = sorted(set(lib.norm(t.get("callee") or "").split("::")[-1] for _, t in xv.calls() if "StatusCode" in (t.get("callee") or "") and t.get("name") not in ("is_success",) and not smod.is_logging_span(t["sp"]) and (t.get("name") or "").startswith(("is_", "as_u16"))))
        ok_blocks = [bi for bi in sorted(xv.reach0) for s_ in xv.blocks[bi]["s"] if s_["k"] == "assign" and s_["r"]["k"] == "agg" and s_["r"].get("vn") == "Ok" and "Parts" in xv.place_ty(s_["p"])["s"]]
        if not succ_e and not other_tests:
            R.inconclusive("C08-R2", "answer-only-on-http-success", "no status test found in the exchange function")
        elif R.floor("C08-R2", "Ok(response) constructions in the exchange function", len(ok_blocks), 1):
            R.check("C08-R2", "answer-only-on-http-success", bool(succ_e) and all(xv.dominated_by_edge(b_, succ_e) for b_ in ok_blocks),
                    "a response is handed on only under status.is_success()", "the exchange hands a response on without status.is_success() (status tests: %s): a 3xx/4xx reply counts as a server answer, so the last-contact time advances on an HTTP failure" % (["is_success"] * bool(succ_e) + other_tests))
    if pcs:
        pc = pcs[0]
        plw = [x for x in sm.writes(Sr, *LUT) if smod.descends(Sr.nodes[x].ctx, pc)]
        r_ = reach_in(Sr, [pc.entry], pc, cut_edges=pa_ok)
        R.check("C08-R2", "ping-only-on-success", plw and not any(x in r_ for x in plw), "ping advances the last-contact time only after a parsed response", "ping writes last_update_time without a parsed response")
    # ---------------------------------------------------------------- R3 persisted when the check is finished
    R.rule("C08-R3", "after the final events every path persists the context, the app set and commits, in that order, before the check returns (same for both ping outcomes)")
    ucr = [x for x in sm.yields(S, "UpdateCheckResult") if S.nodes[x].ctx is root]
    commits = sm.env(S, "Storage", "commit")
    ctx_sets = [n.idx for n in S.nodes if n.idx in S.live and S.ev[n.idx] and S.ev[n.idx][0] == "env" and S.ev[n.idx][1] == "Storage" and S.ev[n.idx][2] in ("set_int", "remove") and _in_fn(n.ctx, "persist", "update_check::Context")]
    app_sets = [n.idx for n in S.nodes if n.idx in S.live and S.ev[n.idx] and S.ev[n.idx][0] == "env" and S.ev[n.idx][1] == "Storage" and S.ev[n.idx][2] == "set_string" and _in_fn(n.ctx, "persist", "common::App")]
    if R.floor("C08-R3", "final result event", len(ucr), 1):
        after = reach(S, S.succ[ucr[0]])
        cs = [x for x in ctx_sets if x in after]
        as_ = [x for x in app_sets if x in after]
        cm = [x for x in commits if x in after]
        R.floor("C08-R3", "context writes after the result", len(cs), 3)
        R.floor("C08-R3", "app writes after the result", len(as_), 1)
        R.check("C08-R3", "context-persisted", not (rets & reach(S, S.succ[ucr[0]], cut_nodes=cs)), "context persisted on every path", "the check can return without persisting its context")
        R.check("C08-R3", "commit", cm and not (rets & reach(S, S.succ[ucr[0]], cut_nodes=cm)), "committed on every path", "the check can return without commit")
        R.check("C08-R3", "order", not (set(cm) & reach(S, S.succ[ucr[0]], cut_nodes=cs)) and not any(x in reach(S, [y for y in cm]) for x in cs + as_), "context -> apps -> commit", "commit can precede the writes it should cover")
        # the app-set loop: persist is called for every app (loop over get_apps without early exit)
        ap = [x for x in sm.calls(S, "app_set::AppSetExt::persist") if x in after]
        if R.floor("C08-R3", "AppSetExt::persist calls after the result", len(ap), 1):
            R.check("C08-R3", "apps-before-commit", not (set(cm) & reach(S, S.succ[ucr[0]], cut_nodes=ap)), "every path to the commit persists the app set first (same commit group as the context)",
                    "the commit of a finished check can be reached without persisting the app set (e.g. skipped under a condition): the result is committed without the apps' cohort/user-counting")
    # crash consistency: the bookkeeping of a check (failure counter, last-contact time) is written only once the check is
    # decided, i.e. after the last point at which the context can be persisted mid-check (the exchange function commits
    # it when the poll interval changes) — otherwise that commit stores one value of this check next to the other of the last
    if ucr:
        after_ = reach(S, S.succ[ucr[0]])
        book = sorted(set(sm.writes(S, *LUT)) | set(sm.writes(S, *FC)))
        mid = [x for x in ctx_sets if x not in after_]
        if R.floor("C08-R3", "bookkeeping writes in a check", len(book), 2):
            hit = sorted(set(mid) & reach(S, [y for x in book for y in S.succ[x]]))
            p_ = path(S, [y for x in book for y in S.succ[x]], hit[:1]) if hit else None
            R.check("C08-R3", "no-mid-check-persist-after-bookkeeping", not hit, "the context cannot be persisted between a bookkeeping write and the final persist",
                    "after the bookkeeping of this check was (partly) written the context can still be persisted and committed mid-check: a crash leaves a mixture of two checks: %s" % (S.fmt_path(p_) if p_ else ""))
    if pcs:
        pc = pcs[0]
        pcm = [x for x in sm.env(Sr, "Storage", "commit") if smod.descends(Sr.nodes[x].ctx, pc)]
        pcs_ = [n.idx for n in Sr.nodes if n.idx in Sr.live and Sr.ev[n.idx] and Sr.ev[n.idx][0] == "env" and Sr.ev[n.idx][1] == "Storage" and Sr.ev[n.idx][2] in ("set_int", "remove") and _in_fn(n.ctx, "persist", "update_check::Context") and smod.descends(n.ctx, pc)]
        for tag, es in (("send-failure", ex_err), ("parse-failure", pa_err), ("success", pa_ok)):
            for (a, b) in es:
                rr = reach_in(Sr, [b], pc, cut_nodes=pcm)
                rr2 = reach_in(Sr, [b], pc, cut_nodes=pcs_)
                R.check("C08-R3", "ping-persist:" + tag, not (set(pc.returns) & rr) and not (set(pc.returns) & rr2), "ping %s persists and commits" % tag, "a ping %s can return without persisting/committing" % tag, Sr.nodes[a].loc())
    # ---------------------------------------------------------------- R4 key / unit table
    R.rule("C08-R4", "each context key has one typed writer and one typed reader with paired units; Context::load is awaited before the state machine exists")
    ku = keys.key_users(W, c)
    table = {
        "last_update_time": ("set_option_int", "?checked_to_micros_since_epoch(param1.0.schedule.last_update_time@Some.0)|None", "get_time"),
        "consecutive_failed_update_checks": ("set_option_int", "None|Some{param1.0.state.consecutive_failed_update_checks}", "get_int"),
    }
    for key, (wname, wval, rname) in table.items():
        us = [k for k in ku if k["key_val"] == key]
        wr = [k for k in us if k["name"].startswith("set") or k["name"].startswith("remove")]
        rd = [k for k in us if k["name"].startswith("get")]
        if R.floor("C08-R4", "users of key " + key, min(len(wr), len(rd)), 1):
            from .. import optnorm
            wvals = []
            for k_ in wr:
                vt_ = k_["bv"].trace_op(k_["t"]["args"][2]) if len(k_["t"].get("args", [])) > 2 else None
                d_ = optnorm.option_desc(W, k_["bv"], vt_) if vt_ is not None else k_["value"]
                # a lossless widening written `x as i64` or `i64::from(x)` is the same value
                if key == "consecutive_failed_update_checks":
                    # `Some(counter).filter(|c| c != 0)`: the predicate is judged by zero-is-absent below
                    import re as _re
                    d_ = _re.sub(r"\?\[Ne\(\*?(?:\$1|param2), 0\)\]", "", d_)
                for sp_ in ("cast<IntToInt>(%s)", "from(%s)", "into(%s)"):
                    d_ = d_.replace(sp_ % "param1.0.state.consecutive_failed_update_checks", "param1.0.state.consecutive_failed_update_checks")
                wvals.append(d_)
            R.check("C08-R4", "writer:" + key, len(wr) == 1 and wr[0]["name"] == wname and wvals[0] == wval and _in_fn_bv(W, wr[0]["bv"], "persist", "update_check::Context"),
                    "%s(%s)" % (wname, wval), "key %s is written by %s" % (key, [(k["name"], v_, k["loc"]) for k, v_ in zip(wr, wvals)]))
            R.check("C08-R4", "reader:" + key, len(rd) == 1 and rd[0]["name"] == rname and _in_fn_bv(W, rd[0]["bv"], "load", "update_check::Context"), rname, "key %s is read by %s" % (key, [(k["name"], k["loc"]) for k in rd]))
    # zero is stored as "absent"
    pb = [b for b in c.bodies if b["kind"] == "coroutine" and _in_fn_bv(W, BV.of(b), "persist", "update_check::Context")]
    if R.floor("C08-R4", "Context::persist body", len(pb), 1):
        pv = BV.of(pb[0])
        ok = False
        FCN = "consecutive_failed_update_checks"

        def _zt(t):
            t = strip(t)
            return t[0] == "binop" and t[1] in ("Eq", "Ne") and FCN in fmt_t(t[2]) and lib.term_const(c, t[3]) == 0
        # if/else spelling, either polarity: the Some(counter) construction sits on the non-zero side of the test
        somes = [bi for bi in sorted(pv.reach0) for s_ in pv.blocks[bi]["s"] if s_["k"] == "assign" and s_["r"]["k"] == "agg" and s_["r"].get("vn") == "Some" and ("." + FCN) in fmt_t(pv._trace_rv(s_["r"], None, 0))]
        nz = []
        for bi in sorted(pv.reach0):
            si = guards.switch_info(pv, bi)
            if si and si.kind == "bool" and _zt(si.term):
                ne = strip(si.term)[1] == "Ne"
                nz += [(a, b) for (a, b, tr) in pv.bool_edges(_zt) if a == bi and tr == ne]
        if nz and somes and all(pv.dominated_by_edge(bi, nz) for bi in somes):
            ok = True
        # combinator spellings: Some(counter).filter(|c| c != 0) / (counter != 0).then(..)
        for k_ in ku:
            if k_["key_val"] == FCN and k_["name"].startswith("set") and len(k_["t"].get("args", [])) > 2:
                for x in walk(k_["bv"].trace_op(k_["t"]["args"][2])):
                    if x[0] == "call" and lib.norm(x[1]).endswith("Option::<T>::filter") and len(x[2]) == 2:
                        clo = [y for y in walk(x[2][1]) if y[0] == "agg" and y[1] == "closure"]
                        if clo and clo[0][2] in W.by_id:
                            body = strip(W.bv(clo[0][2]).trace_local(0))
                            if body[0] == "binop" and body[1] == "Ne" and lib.term_const(c, body[3]) == 0 and strip(body[2])[0] in ("param", "deref", "field"):
                                ok = True
                    if x[0] == "call" and lib.norm(x[1]).endswith("bool>::then") or x[0] == "call" and lib.norm(x[1]).endswith("bool>::then_some"):
                        cnd = strip(x[2][0])
                        if cnd[0] == "binop" and cnd[1] == "Ne" and FCN in fmt_t(cnd[2]) and lib.term_const(c, cnd[3]) == 0:
                            ok = True
        for bi in sorted(pv.reach0):
            tt_ = pv.blocks[bi]["t"]
            if tt_["k"] == "switch" and pv.switch_subject(bi) is None and pv.crate.types[tt_["ot"]]["s"] != "bool":
                # `match count { 0 => None, n => Some(..) }`: an integer switch with an arm for 0
                if "consecutive_failed_update_checks" in lib.apath(pv.trace_op(tt_["o"])) and any(a_[0] == 0 for a_ in tt_.get("arms", [])):
                    ok = True
        R.check("C08-R4", "zero-is-absent", ok, "0 failed checks is stored as an absent key", "the zero test before storing the failure counter is gone")
    lb = [b for b in c.bodies if b["kind"] == "coroutine" and _in_fn_bv(W, BV.of(b), "load", "update_check::Context")]
    if R.floor("C08-R4", "Context::load body", len(lb), 1):
        lv = BV.of(lb[0])
        ret = lv.trace_local(0)
        got = {}
        for x in walk(ret):
            if x[0] == "agg" and x[2] == "common::ProtocolState::ProtocolState":
                got["fc"] = terms.render(lv, x[3][x[4].index("consecutive_failed_update_checks")], W, {})
        exp = "unwrap_or_default(try_into::<u32>(unwrap_or(poll(get_int(param1.0, 'consecutive_failed_update_checks'), get_context(param2))@Ready.0, 0)))"
        fc_ = got.get("fc") or ""
        # the stored integer narrowed to u32 with 0 for a missing or unrepresentable value, nothing else done to it
        ok_fc = "get_int(param1.0, 'consecutive_failed_update_checks')" in fc_ and ("try_into::<u32>(" in fc_ or "u32::try_from(" in fc_) and not any(w_ in fc_ for w_ in ("Add", "Sub", "Mul", "Div", "Rem", "Shl", "Shr", "cast<")) and (fc_.startswith("unwrap_or_default(") or (fc_.startswith("unwrap_or(") and fc_.endswith(", 0)")))
        R.check("C08-R4", "reader-unit:consecutive_failed_update_checks", ok_fc, fc_, "failure counter restored as %s, expected the stored integer narrowed to u32 (0 when missing or out of range)" % fc_)
        s_ = terms.render(lv, ret, W, {})
        R.check("C08-R4", "reader-unit:last_update_time", "last_update_time(builder(), map(poll(get_time(param1.0, 'last_update_time'), get_context(param2))@Ready.0, time::PartialComplexTime::Wall))" in s_, "last_update_time <- get_time(key).map(Wall)", "last_update_time is not restored from get_time(key).map(Wall): " + s_[:200])
    bco = W.bv(sm.build_co)
    agg = [x for x in walk(bco.trace_local(0)) if x[0] == "agg" and x[2] and x[2].endswith("StateMachine::StateMachine")]
    if R.floor("C08-R4", "StateMachine construction in build()", len(agg), 1):
        names = agg[0][4]
        from .. import optnorm as _on8
        cxt = terms.render(bco, _on8.simplify(_on8.inline_awaits(W, bco, agg[0][3][names.index("context")])), W, {})
        R.check("C08-R4", "load-before-first-use", "load(" in cxt and "poll(" in cxt, "context <- awaited Context::load(storage)", "the state machine's context is not the awaited result of Context::load: " + cxt[:200])
        # .. the awaited value itself, not the result of handing it to something else first (`load(..).await.adjusted(now)`)
        import re as _re8
        if "load(" in cxt and "poll(" in cxt:
            direct_ = bool(_re8.match(r"^poll\(", cxt)) and bool(_re8.search(r"@Ready\.0(\.\d+)*$", cxt))
            m_ = _re8.match(r"^([A-Za-z_][A-Za-z0-9_:<>]*)\(", cxt)
            R.check("C08-R4", "context-is-the-load-result", direct_, "the context field is the awaited load result itself",
                    "the loaded context is passed through %s(..) before the state machine is built: a rebuilt machine does not present exactly the committed values" % (m_.group(1) if m_ else "another expression"))
        # .. and it is presented as loaded: nothing in build() writes into the loaded context before the machine exists
        edits = []
        for (bi_, si_, p_, r_) in bco.field_writes:
            if bi_ not in bco.reach0:
                continue
            ch_ = smod._chain(p_)
            ty_ = bco.lty(p_["l"])["s"]
            if "update_check::Context" in ty_ or (ch_ and ch_[0] in ("schedule", "state") and "Context" in ty_):
                edits.append((".".join(ch_), lib.loc(bco, bi_)))
        R.check("C08-R4", "context-presented-as-loaded", not edits, "build() hands the loaded context to the state machine unmodified",
                "build() modifies the loaded context before the state machine exists (the rebuilt machine does not present the last commit): %s" % edits)
    # the third context key (the server-dictated poll interval) is paired the same way: rule shared with C07-R5
    from . import c07 as _c07
    from .. import report as _report
    _c07.run(F, _report.SubsetAlias(R, {"C07-R5": "C08-R4"}, prefix="poll-interval:"))
    # ---------------------------------------------------------------- R5 commit grouping
    R.rule("C08-R5", "every storage write is followed by a commit before the next request, reboot or policy decision (paths through a failed storage operation are C14's business)")
    sets = [n.idx for n in Sr.nodes if n.idx in Sr.live and Sr.ev[n.idx] and Sr.ev[n.idx][0] == "env" and Sr.ev[n.idx][1] == "Storage" and Sr.ev[n.idx][2] in ("set_int", "set_string", "set_bool", "remove")]
    commits_r = sm.env(Sr, "Storage", "commit")
    barriers = set(sm.env(Sr, "Http", "request")) | set(sm.env(Sr, "Installer", "perform_reboot")) | set(sm.env(Sr, "Policy", "update_check_allowed"))
    storage_err = []
    for (a, b, nm) in sm.outcome_edges(Sr, "std::result::Result", "Err"):
        h = lib.head_call(guards.switch_info(Sr.nodes[a].ctx.bv, Sr.nodes[a].bi).term) or ""
        if h.startswith("storage::Storage"):
            storage_err.append((a, b))
    if R.floor("C08-R5", "storage writes in the loop", len(sets), 10) and R.floor("C08-R5", "commits in the loop", len(commits_r), 3):
        bad = []
        nofail = reach(Sr, [Sr.root.entry], cut_edges=storage_err)
        for x in sets:
            if x not in nofail:
                continue  # only executed after a storage operation already failed
            r_ = reach(Sr, Sr.succ[x], cut_nodes=commits_r, cut_edges=storage_err)
            hit = r_ & barriers
            if hit:
                bad.append((x, sorted(hit)[0]))
        seen = set()
        for (x, h) in bad:
            k = _k(Sr, x)
            if k in seen:
                continue
            seen.add(k)
            p = path(Sr, Sr.succ[x], [h], cut_nodes=commits_r, cut_edges=storage_err)
            R.violation("C08-R5", "uncommitted:" + k, "a storage write reaches %s without an intervening commit: %s" % (Sr.ev[h], Sr.fmt_path(p) if p else ""), Sr.nodes[x].loc())
        if not bad:
            R.holds("C08-R5", "all-writes-committed", "%d write sites, each followed by a commit before the next request/reboot/decision (%d storage-failure edges exempt)" % (len(sets), len(storage_err)))


def _is_increment(v):
    """x + 1 in any of its spellings (plain, compound, saturating, checked): the counter's own
    previous value plus the constant one."""
    from .. import terms as _terms
    return _terms.plus_one_base(v) == "param1.0.context.state.consecutive_failed_update_checks"


def _k(S, x):
    nd = S.nodes[x]
    parts = []
    cx = nd.ctx
    while cx is not None and len(parts) < 3:
        parts.append(cx.bv.body.get("item") or cx.bv.id.split("::")[-2])
        cx = cx.parent
    return "<".join(parts)


def _in_fn(ctx, item, impl_self):
    while ctx is not None:
        b = ctx.bv.body
        par = b.get("parent")
        if b.get("item") == item and impl_self in (b.get("impl_self") or ""):
            return True
        if par:
            pb = ctx.bv.crate.by_id.get(par)
            if pb and pb.get("item") == item and impl_self in (pb.get("impl_self") or ""):
                return True
        ctx = ctx.parent
    return False


def _in_fn_bv(W, bv, item, impl_self):
    b = bv.body
    if b.get("item") == item and impl_self in (b.get("impl_self") or ""):
        return True
    par = b.get("parent")
    if par and par in W.by_id:
        pb = W.by_id[par]
        return pb.get("item") == item and impl_self in (pb.get("impl_self") or "")
    return False
