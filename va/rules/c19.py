"""C19 — Times survive persistence and compare consistently (structural clauses)."""
import re
from ..core import BV, strip, walk, fmt_t
from .. import lib, guards, intervals, census, terms

CT = "time::ComplexTime"
PCT = "time::PartialComplexTime"


def nrm(t, names):
    """Normalise an access path: refs stripped, parameters named."""
    t0 = t
    while t[0] in ("ref", "deref"):
        t = t[1]
    if t[0] == "call" and t[1] in ("std::convert::Into::into", "std::convert::From::from") and t[2]:
        return nrm(t[2][0], names)
    if t[0] == "param":
        return names.get(t[1], "p%d" % t[1])
    if t[0] == "field":
        return nrm(t[1], names) + "." + str(t[2])
    if t[0] == "downcast":
        return nrm(t[1], names) + "@" + str(t[2])
    if t[0] == "const":
        return fmt_t(t)
    if t[0] == "call" and t[1].split("::")[-1] in ("unwrap", "expect") and t[2] and t[2][0][0] == "call" and t[2][0][1].split("::")[-1] in ("checked_add", "checked_sub"):
        # x.checked_op(d).unwrap() is the documented-panicking equivalent of x op d
        inner = t[2][0]
        return "%s(%s)" % (inner[1].split("::")[-1][len("checked_"):], ", ".join(nrm(a, names) for a in inner[2]))
    if t[0] == "call":
        return "%s(%s)" % (lib.norm(t[1]).split("::")[-1] if not t[1].startswith("std::ops::") else t[1].split("::")[-1], ", ".join(nrm(a, names) for a in t[2]))
    if t[0] == "agg":
        return "%s{%s}" % ((t[2] or t[1]).split("::")[-1] if t[2] else t[1], ", ".join(nrm(a, names) for a in t[3]))
    if t[0] == "phi":
        return "phi(" + "|".join(sorted(nrm(a, names) for a in t[1])) + ")"
    return fmt_t(t)


def arm_values(bv, sbi, local=0, extra=()):
    """{variant name: term of `local` when that arm is taken}."""
    si = guards.switch_info(bv, sbi, extra)
    out = {}
    for b in bv.succ[sbi]:
        names = si.edge_names(bv, b)
        region = bv.arm_region(sbi, b)
        with bv.restrict(region):
            t = bv.trace_local(local)
        for n in names:
            out[n] = t
    return si, out


def first_switch(bv, pred=None):
    for bi in sorted(bv.reach0):
        if bv.blocks[bi]["t"]["k"] == "switch" and len(bv.succ[bi]) >= 2:
            si = guards.switch_info(bv, bi)
            if pred is None or pred(si):
                return bi
    return None


def _truth_table(R, c, bv):
    """C19-R2 decided semantically: the function's result under each of the 27 assignments {Wall, Monotonic, Complex} x
    {wall before / equal / after} x {mono before / equal / after}, computed by the finite-domain evaluator (va/absint.py)
    whatever the spelling (match arms, `destructure()` with early returns, Option combinators).  Returns False when the
    evaluator cannot follow the body (then the arm-by-arm rule below is used)."""
    from .. import absint, flow
    W = flow.World([c])
    rows = {}
    wrong = []
    names = {"<": "before", "=": "equal to", ">": "after"}
    try:
        for variant in ("Wall", "Monotonic", "Complex"):
            for rw in "<=>":
                for rm in "<=>":
                    def oracle(a, b, rw=rw, rm=rm):
                        if (a, b) == ("self.wall", "o.wall"):
                            return rw
                        if (a, b) == ("self.mono", "o.mono"):
                            return rm
                        return None
                    me = ("ref", absint.adt("ComplexTime", [absint.sym("self.wall"), absint.sym("self.mono")]))
                    if variant == "Wall":
                        other = absint.adt("Wall", [absint.sym("o.wall")])
                        exp = rw in "=>"
                    elif variant == "Monotonic":
                        other = absint.adt("Monotonic", [absint.sym("o.mono")])
                        exp = rm in "=>"
                    else:
                        other = absint.adt("Complex", [absint.adt("ComplexTime", [absint.sym("o.wall"), absint.sym("o.mono")])])
                        exp = rw in "=>" or rm in "=>"
                    ev = absint.Eval(W, oracle)
                    got = ev.truth(ev.run(bv, [me, other]))
                    rows[(variant, rw, rm)] = got
                    if got != exp:
                        wrong.append("%s deadline, wall %s and mono %s it: %s (expected %s)" % (variant, names[rw], names[rm], got, exp))
    except absint.Unknown as e:
        R.holds("C19-R2", "truth-table-evaluator", "NOTE: the finite-domain evaluator does not follow this spelling (%s); the arm-by-arm rule decides" % str(e)[:80], nontrivial=False)
        return False
    R.count("bodies")
    R.check("C19-R2", "truth-table", not wrong, "27 of 27 assignments (variant x wall order x mono order) give `present component reached`, combined with OR",
            "is_after_or_eq_any is wrong for: %s" % "; ".join(wrong[:4]) + (" (and %d more)" % (len(wrong) - 4) if len(wrong) > 4 else ""))
    for variant in ("Wall", "Monotonic", "Complex"):
        bad = [k for k, v in rows.items() if k[0] == variant and any(w.startswith(variant) for w in wrong)]
        R.check("C19-R2", "arm:" + variant, not any(w.startswith(variant + " ") for w in wrong), "all 9 orderings of a %s deadline decided as stated" % variant,
                "a %s deadline is compared wrongly" % variant)
    return True


def run(F, R):
    c = F.client
    R.trust("std::time (SystemTime/Instant/Duration arithmetic and comparison), Duration::as_micros truncation")
    R.assume("the arithmetic identities over all i64 / nanosecond instants are not decided; R3-R5 decide three abstract-domain necessary conditions")

    # ---------------------------------------------------------------- R1 component preservation
    R.rule("C19-R1", "Add/Sub/destructure/complete_with rebuild the same variant from the same components with the same operation in every match arm")
    for opname, tr in (("add", "std::ops::Add"), ("sub", "std::ops::Sub")):
        bs = lib.bodies(c, item=opname, impl_self=PCT, impl_trait=tr)
        if not R.floor("C19-R1", "%s impl for PartialComplexTime" % tr, len(bs), 1):
            continue
        bv = BV.of(bs[0])
        R.count("bodies")
        sbi = first_switch(bv, lambda si: si.kind == "discr" and si.ty.get("d") == PCT)
        if sbi is None:
            R.inconclusive("C19-R1", "pct-%s" % opname, "no match on the PartialComplexTime discriminant")
            continue
        si, arms = arm_values(bv, sbi)
        if R.floor("C19-R1", "match arms in PartialComplexTime::%s" % opname, len(arms), 3):
            for vn, t in sorted(arms.items()):
                s = nrm(t, {1: "self", 2: "dur"})
                exp = "%s{%s(self@%s.0, dur)}" % (vn, opname, vn)
                R.check("C19-R1", "pct-%s:%s" % (opname, vn), s == exp, s, "arm %s of PartialComplexTime::%s builds %s, expected %s" % (vn, opname, s, exp))
        bs = lib.bodies(c, item=opname, impl_self=CT, impl_trait=tr)
        if R.floor("C19-R1", "%s impl for ComplexTime" % tr, len(bs), 1):
            bv = BV.of(bs[0])
            s = nrm(bv.trace_local(0), {1: "self", 2: "dur"})
            exp = "ComplexTime{%s(self.wall, dur), %s(self.mono, dur)}" % (opname, opname)
            ok_ = s == exp
            if not ok_ and s == "self":
                # `mut self; self.wall += dur; self.mono += dur; self`: both components updated in place by the same operation
                upd_ = sorted((lib.norm(t_.get("callee") or ""), nrm(bv.trace_op(t_["args"][0]), {1: "self", 2: "dur"}), nrm(bv.trace_op(t_["args"][1]), {1: "self", 2: "dur"})) for _, t_ in bv.calls())
                want_ = sorted(("%sAssign::%s_assign" % (tr, opname), "self.%s" % f_, "dur") for f_ in ("wall", "mono"))
                ok_ = upd_ == want_ and not [1 for (bi_, si_, p_, r_) in bv.field_writes if bi_ in bv.reach0]
                s = "self after %s" % upd_
            R.check("C19-R1", "ct-%s" % opname, ok_, s, "ComplexTime::%s builds %s, expected %s" % (opname, s, exp))
    for opname, tr, inner in (("add_assign", "std::ops::AddAssign", "add"), ("sub_assign", "std::ops::SubAssign", "sub")):
        for ty in (CT, PCT):
            bs = lib.bodies(c, item=opname, impl_self=ty, impl_trait=tr)
            if R.floor("C19-R1", "%s for %s" % (tr, ty), len(bs), 1):
                bv = BV.of(bs[0])
                writes = [(bi, p, r) for (bi, si_, p, r) in bv.field_writes if bi in bv.reach0]
                calls = [lib.norm(t.get("callee")) for _, t in bv.calls()]
                ok = False
                det = "writes=%d calls=%s" % (len(writes), calls)
                whole = [(bi, p, r) for (bi, p, r) in writes if [e["k"] for e in p["p"]] == ["deref"] and p["l"] == 1]
                if len(writes) == 1 and len(whole) == 1:
                    # *self = *self op other
                    bi, p, r = whole[0]
                    v = bv._trace_rv(r, None, 0) if r["k"] != "callret" else ("call", bv.blocks[bi]["t"]["callee"], [bv.trace_op(a) for a in bv.blocks[bi]["t"]["args"]], bi)
                    sv = nrm(v, {1: "self", 2: "dur"})
                    det = "*self = " + sv
                    ok = sv == "%s(self, dur)" % inner
                else:
                    # self.wall op= other; self.mono op= other
                    wf = set()
                    for bi, t in bv.calls():
                        a0 = bv.trace_op(t["args"][0])
                        wf.add(nrm(a0, {1: "self", 2: "dur"}))
                    ok = ty == CT and wf == {"self.wall", "self.mono"} and all(cn == tr + "::" + opname for cn in calls)
                    det = "assigned fields %s via %s" % (sorted(wf), sorted(set(calls)))
                R.check("C19-R1", "%s:%s" % (opname, ty.split("::")[-1]), ok, det, "%s for %s does not update exactly its own components: %s" % (opname, ty, det))
    d = lib.one(R, "C19-R1", c, "PartialComplexTime::destructure", item="destructure", impl_self=PCT)
    if d:
        sbi = first_switch(d, lambda si: si.kind == "discr" and si.ty.get("d") == PCT)
        if sbi is not None:
            si, arms = arm_values(d, sbi)
            exp = {"Wall": "tuple{Some{self@Wall.0}, None{}}", "Monotonic": "tuple{None{}, Some{self@Monotonic.0}}",
                   "Complex": "tuple{Some{self@Complex.0.wall}, Some{self@Complex.0.mono}}"}
            if R.floor("C19-R1", "destructure arms", len(arms), 3):
                for vn, t in sorted(arms.items()):
                    s = nrm(t, {1: "self"})
                    R.check("C19-R1", "destructure:" + vn, s == exp.get(vn), s, "destructure arm %s yields %s, expected %s" % (vn, s, exp.get(vn)))
    cw = lib.one(R, "C19-R1", c, "PartialComplexTime::complete_with", item="complete_with", impl_self=PCT)
    if cw:
        s = nrm(cw.trace_local(0), {1: "self", 2: "complex"})
        exp = "tuple{unwrap_or(destructure(self).0, complex.wall), unwrap_or(destructure(self).1, complex.mono)}"
        # the same table written as a match on the variant: Wall(w) -> (w, c.mono); Monotonic(m) -> (c.wall, m); Complex(x) -> x
        exp2 = "phi(ComplexTime{complex.wall, self@Monotonic.0}|ComplexTime{self@Wall.0, complex.mono}|self@Complex.0)"
        R.check("C19-R1", "complete_with", s in (exp, exp2), s, "complete_with builds %s, expected %s" % (s, exp))
    for fn, idx in (("checked_to_system_time", 0), ("checked_to_instant", 1)):
        b = lib.one(R, "C19-R1", c, fn, item=fn, impl_self=PCT)
        if b:
            s = nrm(b.trace_local(0), {1: "self"})
            ok_ = s == "destructure(self).%d" % idx
            if not ok_:
                # the same projection written as a match on the variant
                sbi_ = first_switch(b, lambda si: si.kind == "discr" and si.ty.get("d") == PCT)
                if sbi_ is not None:
                    si_, arms_ = arm_values(b, sbi_)
                    comp_ = ("wall", "mono")[idx]
                    own_, other_ = (("Wall", "Monotonic"), ("Monotonic", "Wall"))[idx]
                    exp_ = {own_: "Some{self@%s.0}" % own_, other_: "None{}", "Complex": "Some{self@Complex.0.%s}" % comp_}
                    got_ = {vn_: nrm(t_, {1: "self"}) for vn_, t_ in arms_.items()}
                    ok_ = got_ == exp_
                    s = str(sorted(got_.items()))
            R.check("C19-R1", fn, ok_, s, "%s returns %s" % (fn, s))
    b = lib.one(R, "C19-R1", c, "checked_to_micros_since_epoch", item="checked_to_micros_since_epoch", impl_self=PCT)
    if b:
        t = b.trace_local(0)
        ok = t[0] == "call" and t[1].endswith("and_then") and nrm(t[2][0], {1: "self"}) == "checked_to_system_time(self)"
        k = t[2][1] if ok else None
        ok = ok and k[0] == "const" and "checked_system_time_to_micros_from_epoch" in k[1]["s"]
        R.check("C19-R1", "checked_to_micros_since_epoch", ok, "checked_to_system_time().and_then(checked_system_time_to_micros_from_epoch)", "unexpected: " + fmt_t(t))

    # ---------------------------------------------------------------- R2 comparison table
    R.rule("C19-R2", "is_after_or_eq_any compares exactly the components present on both sides with >= and combines them with OR")
    bv = lib.one(R, "C19-R2", c, "ComplexTime::is_after_or_eq_any", item="is_after_or_eq_any", impl_self=CT)
    decided = False
    if bv:
        decided = _truth_table(R, c, bv)
    if bv and not decided:
        R.count("bodies")
        sbi = first_switch(bv, lambda si: si.kind == "discr" and si.ty.get("d") == PCT)
        if sbi is None:
            R.inconclusive("C19-R2", "table", "no match on PartialComplexTime")
        else:
            si = guards.switch_info(bv, sbi)
            names = {1: "self", 2: "other"}
            expected = {
                "Wall": {"ge(self.wall, other@Wall.0)"},
                "Monotonic": {"ge(self.mono, other@Monotonic.0)"},
                "Complex": {"ge(self.wall, other@Complex.0.wall) -> true", "!ge(self.wall, other@Complex.0.wall) -> ge(self.mono, other@Complex.0.mono)"},
            }
            alt_complex = {"ge(self.mono, other@Complex.0.mono) -> true", "!ge(self.mono, other@Complex.0.mono) -> ge(self.wall, other@Complex.0.wall)"}
            seen = 0
            for b in bv.succ[sbi]:
                for vn in si.edge_names(bv, b):
                    seen += 1
                    rows = set()
                    for conds, d in bv.decision_paths(b, 0):
                        cs = []
                        for (cb, labs) in conds:
                            ci = guards.switch_info(bv, cb)
                            ct = nrm(ci.term, names)
                            truth = not (labs == (0,))
                            cs.append(("" if truth else "!") + ct)
                        if d is None:
                            val = "?"
                        else:
                            bi, sidx = d
                            if sidx is None:
                                t = bv.blocks[bi]["t"]
                                val = nrm(("call", t["callee"], [bv.trace_op(a) for a in t["args"]], bi), names)
                            else:
                                r = bv.blocks[bi]["s"][sidx]["r"]
                                v = bv._trace_rv(r, None, 0)
                                val = "true" if lib.term_const(c, v) == 1 else ("false" if lib.term_const(c, v) == 0 else nrm(v, names))
                        rows.add((" & ".join(cs) + " -> " if cs else "") + val)
                    exp = expected.get(vn)
                    ok = rows == exp or (vn == "Complex" and rows == alt_complex)
                    R.check("C19-R2", "arm:" + vn, ok, "; ".join(sorted(rows)), "arm %s decides %s, expected %s" % (vn, sorted(rows), sorted(exp or [])))
            R.floor("C19-R2", "PartialComplexTime variants compared", seen, 3)

    # ---------------------------------------------------------------- R3 negation covers MIN
    R.rule("C19-R3", "the pre-epoch arm of SystemTime->micros can produce every negative i64 including MIN (no sign-magnitude negation through the positive range)")
    to = lib.one(R, "C19-R3", c, "checked_system_time_to_micros_from_epoch", item="checked_system_time_to_micros_from_epoch", kind="fn")
    frm = lib.one(R, "C19-R3", c, "micros_from_epoch_to_system_time", item="micros_from_epoch_to_system_time", kind="fn")
    if to and frm:
        R.count("bodies", 2)
        sbi = first_switch(to, lambda si: si.kind == "discr" and "duration_since" in fmt_t(si.term))
        if sbi is None:
            R.inconclusive("C19-R3", "neg-arm", "no match on duration_since(UNIX_EPOCH)")
        else:
            si, arms = arm_values(to, sbi)
            epoch_ok = "UNIX_EPOCH" in fmt_t(si.term)
            R.check("C19-R3", "epoch", epoch_ok, "branches on duration_since(UNIX_EPOCH)", "does not branch on duration_since(UNIX_EPOCH)")
            neg = arms.get("Err")
            pos = arms.get("Ok")
            # inverse accepts whole i64 range?
            inv_full = lib.norm(c.types[frm.body["inputs"][0]]["s"]) == "i64"
            if neg is not None:
                calls = [x for x in walk(neg) if x[0] == "call"]
                names = [lib.norm(x[1]) for x in calls]
                fnconsts = [x[1]["s"] for x in walk(neg) if x[0] == "const" and "impl i64" in x[1].get("s", "")]
                tryfrom_i64 = any(n == "std::convert::TryFrom::try_from" for n in names) and "i64" in c.types[to.body["output"]]["s"]
                negated = any("checked_neg" in s or "::neg" in s for s in fnconsts) or any(n.endswith("checked_neg") or n.endswith("Neg::neg") for n in names)
                # the bad idiom: magnitude -> i64::try_from -> ok -> checked_neg/neg, with no other source of negatives in this arm
                srcs = neg[1] if neg[0] == "phi" else [neg]
                bad = []
                for s_ in srcs:
                    cs = [lib.norm(x[1]) for x in walk(s_) if x[0] == "call"]
                    fc = [x[1]["s"] for x in walk(s_) if x[0] == "const"]
                    tf = [x for x in walk(s_) if x[0] == "call" and lib.norm(x[1]) == "std::convert::TryFrom::try_from"]
                    narrow_first = False
                    for x in tf:
                        # resolved target type of the conversion is visible from the callee site
                        bi = x[3]
                        res = to.blocks[bi]["t"].get("resolved", "")
                        if "for i64" in res:
                            narrow_first = True
                    if narrow_first and (any("checked_neg" in f for f in fc) or any(n.endswith("::neg") for n in cs)):
                        bad.append(fmt_t(s_))
                if inv_full and bad and len(bad) == len(srcs):
                    R.violation("C19-R3", "neg-arm-excludes-min",
                                "pre-epoch arm computes i64::try_from(|d|).ok().and_then(checked_neg): magnitude 2^63 is rejected, so micros_from_epoch_to_system_time(i64::MIN) converts back to None instead of Some(i64::MIN)",
                                lib.loc(to, sbi))
                else:
                    R.holds("C19-R3", "neg-arm-excludes-min", "pre-epoch arm: " + fmt_t(neg)[:200])
            if pos is not None:
                s = nrm(pos, {1: "time"})
                ok = "as_micros" in s and "try_from" in s and s.startswith("ok(")
                known_bad = False
                if not ok:
                    # read the arm as an Option: every Some alternative must be as_micros() passed through checked
                    # conversions only (any number of try_from(..)? steps); a cast on the way is the recognised wrong shape
                    from .. import optnorm as _on, flow as _flow
                    W_ = _flow.World([c])
                    lv_ = _on.leaves(W_, to, pos)
                    pays = [_on.canon(terms.render(to, _on.inline_all(W_, to, l_[1]), W_, {1: "time"})) for l_ in lv_ if l_[0] == "some"]
                    if pays and not [l_ for l_ in lv_ if l_[0] == "other"]:
                        def _inner(p_):
                            n_ = 0
                            while True:
                                m2_ = re.fullmatch(r"ok\((.*)\)@OK", p_)
                                if m2_:
                                    p_ = m2_.group(1) + "@OK"      # `r.ok()?` is the Ok payload of r
                                m_ = re.fullmatch(r"(?:[\w:<>, ]+::)?try_from(?:::<[^()]*>)?\((.*)\)@OK", p_)
                                if not m_:
                                    return n_, p_
                                n_, p_ = n_ + 1, m_.group(1)
                        res_ = [_inner(p_) for p_ in pays]
                        ok = all(n_ >= 1 and re.fullmatch(r"as_micros\(.*\)", p_) for n_, p_ in res_)
                        known_bad = any("cast<" in p_ for p_ in pays)
                        s = " | ".join(pays)
                if ok or known_bad:
                    R.check("C19-R3", "pos-arm", ok, s, "post-epoch arm is not i64::try_from(d.as_micros()).ok(): " + s)
                else:
                    R.inconclusive("C19-R3", "pos-arm", "the post-epoch arm is computed in a way this rule does not read (%s)" % s[:160])
        # both arms must truncate with as_micros (toward the epoch), never adjust by +-1
        adj = [x for x in walk(to.trace_local(0)) if x[0] == "binop" and x[1] in ("Add", "Sub", "AddWithOverflow", "SubWithOverflow")]
        R.check("C19-R5", "storage-truncates", not adj and len([1 for _, t in to.calls() if lib.callee_is(t, "std::time::Duration::as_micros")]) == 2,
                "both arms use Duration::as_micros with no +-1 adjustment", "magnitude to microseconds is not a plain truncation: %s" % [fmt_t(a) for a in adj])
        # inverse: sign split and magnitude
        sbi = first_switch(frm)
        ok = False
        det = "no branch"
        if sbi is not None:
            si, arms = arm_values(frm, sbi)
            st = strip(si.term)
            det = fmt_t(si.term)
            pos = arms.get("true")
            neg = arms.get("false")
            ok = si.kind == "bool" and st[0] == "binop" and st[1] in ("Gt", "Ge") and strip(st[2]) == ("param", 1) and lib.term_const(c, st[3]) == 0
            if si.kind == "bool" and st[0] == "binop" and st[1] in ("Le", "Lt") and strip(st[2]) == ("param", 1) and lib.term_const(c, st[3]) == 0:
                # the same split with the condition negated and the arms swapped (m <= 0 / m < 0: zero may go either way, +0 == -0)
                pos, neg = neg, pos
                ok = True
            elif si.kind == "bool" and st[0] == "binop" and st[1] in ("Lt", "Le") and strip(st[3]) == ("param", 1) and lib.term_const(c, st[2]) == 0:
                ok = True   # 0 < m
            if ok and pos is not None and neg is not None:
                ps = nrm(pos, {1: "micros"})
                ns = nrm(neg, {1: "micros"})
                ok = ps == "add(const std::time::SystemTime::UNIX_EPOCH, from_micros(cast<IntToInt>(micros)))".replace("cast<IntToInt>(micros)", "cast<IntToInt>(param1)") or ("add(" in ps and "UNIX_EPOCH" in ps and "from_micros" in ps)
                # magnitude of a non-positive m: (m as u64).wrapping_neg(), or m.unsigned_abs() (equal for every m <= 0, including i64::MIN)
                ok = ok and "sub(" in ns and "UNIX_EPOCH" in ns and "from_micros" in ns and ("wrapping_neg" in ns or "unsigned_abs(" in ns)
                det = "pos: %s ; neg: %s" % (ps, ns)
        R.check("C19-R3", "inverse-shape", ok, det, "micros_from_epoch_to_system_time is not {>0: EPOCH + from_micros(m), else: EPOCH - from_micros(wrapping_neg(m))}: " + det)

    # ---------------------------------------------------------------- R4/R5 truncation helper
    R.rule("C19-R4", "each branch of the truncation helper can adjust by zero (otherwise it has no fixed point and is not idempotent)")
    R.rule("C19-R5", "the truncation helper moves the wall time toward the epoch on both sides of it (as the storage encoding does); the storage encoding truncates without adjustment")
    # the helper the truncation branches on: Err exactly when the wall time is before the argument (std's own answer, unaltered)
    wd = lib.one(R, "C19-R5", c, "ComplexTime::wall_duration_since", item="wall_duration_since", impl_self=CT)
    if wd:
        rw = terms.render(wd, wd.trace_local(0), None, {1: "self", 2: "earlier"})
        R.check("C19-R5", "wall_duration_since-delegates", rw in ("duration_since(self.wall, into(earlier))", "duration_since(self.wall, earlier)"), rw,
                "wall_duration_since is %s, not SystemTime::duration_since(self.wall, earlier): the pre-/post-epoch split of the truncation helper depends on its Err" % rw[:160])
    tr = lib.one(R, "C19-R4", c, "ComplexTime::truncate_submicrosecond_walltime", item="truncate_submicrosecond_walltime", impl_self=CT)
    if tr:
        R.count("bodies")
        sbi = first_switch(tr, lambda si: si.kind == "discr" and ("duration_since" in fmt_t(si.term)))
        if sbi is None:
            # no branch on the side of the epoch at all: is the wall time then moved in one fixed direction by the sub-microsecond
            # remainder?  One direction is away from the epoch on one of the two sides, where the storage encoding truncates toward it.
            ret0 = tr.trace_local(0)
            wall0 = ret0[3][0] if ret0[0] == "agg" and ret0[2] and ret0[2].endswith("ComplexTime") and ret0[3] else None
            one_dir = wall0 is not None and wall0[0] == "call" and wall0[1] in ("std::ops::Sub::sub", "std::ops::Add::add") and nrm(wall0[2][0], {1: "self"}) == "self.wall" \
                and any(x[0] == "binop" and x[1] == "Rem" for x in walk(wall0[2][1])) and not any(x[0] == "phi" for x in walk(wall0))
            if one_dir:
                R.violation("C19-R5", "direction:unconditional", "the truncation helper computes self.wall.%s(remainder) on both sides of the epoch: on one side the wall time moves away from the epoch, "
                            "while the storage encoding truncates toward it (the helper and a storage round trip disagree there)" % wall0[1].split("::")[-1], lib.loc(tr, 0))
            else:
                R.inconclusive("C19-R4", "branches", "no match on wall_duration_since(UNIX_EPOCH)")
        else:
            si = guards.switch_info(tr, sbi)
            for b in tr.succ[sbi]:
                for vn in si.edge_names(tr, b):
                    region = tr.arm_region(sbi, b)
                    with tr.restrict(region):
                        ret = tr.trace_local(0)
                    # wall component of the returned ComplexTime
                    wall = None
                    if ret[0] == "agg" and ret[2] and ret[2].endswith("ComplexTime"):
                        wall = ret[3][0]
                    if wall is None or wall[0] != "call" or wall[1] not in ("std::ops::Sub::sub", "std::ops::Add::add"):
                        R.inconclusive("C19-R4", "arm:" + vn, "wall component is not `self.wall +/- Duration`: " + fmt_t(ret)[:160])
                        continue
                    op = wall[1].split("::")[-1]
                    base = nrm(wall[2][0], {1: "self"})
                    from .. import optnorm, flow as _flow
                    # a private helper computing the adjustment is the expression it wraps
                    adj = optnorm.inline_all(_flow.World([c]), tr, wall[2][1])
                    iv = intervals.ival(c, adj)
                    side = "before-epoch" if vn == "Err" else "after-epoch"
                    # the adjustment is the duration's nanoseconds modulo 1000, taken from the full value: a dividend that went
                    # through a narrowing (`as u64`, `try_from(..).unwrap_or_default()`) is a different number for far-away times
                    rems = [x for x in walk(adj) if x[0] == "binop" and x[1] == "Rem"]
                    if len(rems) == 1:
                        dv = strip(rems[0][2])
                        while dv[0] == "cast" or (dv[0] == "call" and lib.norm(dv[1]).split("::")[-1] in ("from", "into") and dv[2]):
                            inner_ = strip(dv[2] if dv[0] == "cast" else dv[2][0])
                            if dv[0] == "cast" and not (inner_[0] == "call" and lib.norm(inner_[1]).endswith("subsec_nanos")):
                                break       # a cast of anything wider than the sub-second part can lose bits
                            dv = inner_
                        exact = dv[0] == "call" and lib.norm(dv[1]).split("::")[-1] in ("as_nanos", "subsec_nanos")
                        mod_iv = intervals.ival(c, rems[0][3])
                        R.check("C19-R4", "remainder-of-full-nanoseconds:" + side, exact and mod_iv == (1000, 1000), "adjustment = nanoseconds % 1000 of the whole distance",
                                "the sub-microsecond part is not (the distance's nanoseconds) %% 1000 taken from the full value: dividend %s, modulus %s" % (fmt_t(dv)[:100], mod_iv), lib.loc(tr, b))
                    elif not rems and any(x[0] == "call" and lib.norm(x[1]).split("::")[-1] in ("as_nanos", "subsec_nanos") for x in walk(adj)):
                        R.violation("C19-R4", "remainder-of-full-nanoseconds:" + side, "the adjustment is the distance's nanoseconds without `% 1000`: the whole distance is removed, not its sub-microsecond part", lib.loc(tr, b))
                        continue
                    if iv is None:
                        R.inconclusive("C19-R4", "zero-adjustment:" + side, "the interval evaluator cannot bound the adjustment %s" % fmt_t(adj)[:120])
                        continue
                    R.check("C19-R4", "zero-adjustment:" + side, iv is not None and iv[0] <= 0 <= iv[1] and base == "self.wall",
                            "adjustment in ns ∈ %s" % (iv,),
                            "adjustment of the %s branch ranges over %s ns and never is 0: an already aligned time is moved again (not idempotent)" % (side, iv), lib.loc(tr, b))
                    want = "add" if vn == "Err" else "sub"
                    # direction toward the epoch, magnitude = remainder
                    rem = [x for x in walk(adj) if x[0] == "binop" and x[1] == "Rem"]
                    compl = [x for x in walk(adj) if x[0] == "binop" and x[1] in ("Sub", "SubWithOverflow", "Add", "AddWithOverflow")]
                    okdir = op == want and len(rem) == 1 and not compl
                    R.check("C19-R5", "direction:" + side, okdir,
                            "wall %s (ns %% 1000)" % op,
                            "%s branch computes wall.%s(%s): the wall time moves away from the epoch while the storage encoding truncates toward it" % (side, op, fmt_t(adj)[:120]), lib.loc(tr, b))
            R.floor("C19-R4", "truncation branches", len(tr.succ[sbi]), 2)

    # ---------------------------------------------------------------- R6 panic census of the conversion functions
    R.rule("C19-R6", "the storage conversion functions contain no panic-capable site except the documented SystemTime +/- Duration on a range-checked magnitude")
    for bv in (to, frm):
        if not bv:
            continue
        for s in census.panic_sites(bv):
            allowed = bv is frm and s["desc"] in ("api:time + duration", "api:time - duration")
            pr_ = census.prove_neg_nonneg(bv, s)
            if pr_:
                R.holds("C19-R6", s["key"], "proved: " + pr_)
            elif allowed:
                R.holds("C19-R6", s["key"], "allowlisted: |micros| <= 2^63 us is representable by the i64-second SystemTime of supported targets")
            else:
                R.violation("C19-R6", s["key"], "panic-capable site %s in %s" % (s["desc"], bv.name), s["loc"])
    st = [b for b in c.bodies if b.get("trait_default") == "storage::StorageExt" and b["item"] in ("get_time", "set_time")]
    if R.floor("C19-R6", "StorageExt::get_time/set_time", len(st), 2):
        for b in st:
            v = BV.of(b)
            ps = census.panic_sites(v)
            R.check("C19-R6", "storage-ext:" + b["item"], not ps, "no panic-capable site", "panic-capable sites: %s" % [p["desc"] for p in ps])
            names = [lib.norm(t.get("callee")) for _, t in v.calls()]
            if b["item"] == "set_time":
                ok = any(n.endswith("checked_system_time_to_micros_from_epoch") for n in names) and any(n.endswith("StorageExt::set_option_int") for n in names)
                R.check("C19-R6", "set_time-encoding", ok, "set_option_int(key, checked_system_time_to_micros_from_epoch(t))", "set_time does not use the checked conversion: %s" % names)
            else:
                cl = lib.closures_of(c, b["id"])
                # the decoding function is named in the mapping closure, or in a local fn item nested in get_time
                nested = [b2 for b2 in c.bodies if b2["id"].startswith(b["id"] + "::") and b2.get("kind") == "fn"]
                inner = [x[1]["s"] for cb in list(cl) + nested for x in walk(BV.of(cb).trace_local(0)) if x[0] == "const"]
                # .. or applied anywhere in an `async move { .. }` block / closure of get_time (called, or handed on as a fn item)
                for cb in list(cl) + nested + [b2 for b2 in c.bodies if b2.get("parent") in [x_["id"] for x_ in cl]]:
                    v3 = BV.of(cb)
                    for _, t3 in v3.calls():
                        inner.append(lib.norm(t3.get("callee") or ""))
                        for a3 in t3.get("args", []):
                            inner += [x[1].get("s", "") for x in walk(v3.trace_op(a3)) if x[0] == "const" and isinstance(x[1], dict)]
                ok = any(n.endswith("Storage::get_int") for n in names) and any("micros_from_epoch_to_system_time" in s for s in inner)
                # .. for every stored value: no filter or test between the stored integer and the decoder
                allv = [v] + [BV.of(cb) for cb in list(cl) + nested]
                filt = sorted(set(lib.norm(t2.get("callee") or "").split("::")[-1] for v2 in allv for _, t2 in v2.calls() if lib.norm(t2.get("callee") or "").split("::")[-1] in ("filter", "take_if", "then", "then_some", "and_then", "is_positive", "is_negative")))
                tests = [1 for v2 in allv for bi2 in v2.reach0 if v2.blocks[bi2]["t"]["k"] == "switch" and v2.switch_subject(bi2) is None and v2.crate.types[v2.blocks[bi2]["t"]["ot"]]["s"] == "bool"]
                R.check("C19-R6", "get_time-decodes-every-value", not filt and not tests, "every stored integer is decoded (no filter, no test)",
                        "get_time drops or tests stored values before decoding them (%s%s): times that were stored come back as absent" % (filt, ", boolean test" if tests else ""))
                R.check("C19-R6", "get_time-decoding", ok, "get_int(key).map(micros_from_epoch_to_system_time)", "get_time does not decode with micros_from_epoch_to_system_time: %s %s" % (names, inner))
