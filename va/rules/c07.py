"""C07 — Server-dictated poll interval (X-Retry-After) is honoured."""
import re
from ..core import BV, strip, walk, fmt_t
from .. import lib, guards, sm as smod, terms, keys
from ..sm import reach, path, reach_in, reach_pf

FIELD = "server_dictated_poll_interval"
CAP = 86400  # oracle: min(N, 86400) seconds
HEADER = "X-Retry-After"
NOERR = set(terms.TRANSPARENT) | {"std::result::Result::<T, E>::map_err"}


def run(F, R):
    sm = smod.get(F)
    c = sm.c
    S = sm.S_check
    Sr = sm.S_run
    W = sm.w
    smod.preconditions(sm, R, "C07-pre")
    R.trust("http::HeaderValue::to_str, str::parse::<u64> (what counts as a 'plain decimal u64' is core's FromStr), Duration::from_secs")
    R.assume("the Storage contract (commit makes the set_* calls durable) is assumed for the restart clause")

    # the exchange function = the unique coroutine that calls verify_response
    ex = [cx for cx in S.ctxs if cx.bv.body.get("kind") == "coroutine" and lib.calls_verify_response(cx.bv)]
    exb = set(cx.bv.id for cx in ex)
    if not R.floor("C07-R1", "exchange function (caller of verify_response)", len(exb), 1):
        return
    R.check("C07-R2", "single-exchange-function", len(exb) == 1, "all request kinds go through one exchange function (%d contexts in a check)" % len(ex), "several exchange functions: %s" % sorted(exb))
    bv = ex[0].bv
    R.count("exchange_contexts", len(ex) + len([cx for cx in Sr.ctxs if cx.bv.id in exb]))

    # ---------------------------------------------------------------- R1 value term
    R.rule("C07-R1", "the value written is and_then(headers.get(\"X-Retry-After\"), v -> match to_str(v).and_then(parse::<u64>) {Ok(s) => Some(from_secs(min(s, 86400))), Err => None})")
    # the write may sit in a private helper spliced below the exchange function (`self.update_interval(value, co).await`):
    # collect it in the first exchange context and everything spliced below it, and read its value as a term of the
    # exchange function (parameters of the helper resolved to the caller's arguments)
    cx0 = ex[0]
    wsites = []
    for n_ in S.nodes:
        if n_.idx in S.live and smod.descends(n_.ctx, cx0):
            for s_ in n_.block["s"]:
                if s_["k"] == "assign" and s_["p"].get("p") and smod._chain(s_["p"])[-1:] == [FIELD]:
                    wsites.append((n_, s_))
    writes = wsites
    if R.floor("C07-R1", "writes of the poll interval in the exchange function", len(writes), 1):
        R.check("C07-R1", "single-write", len(writes) == 1, "one write site", "%d write sites" % len(writes))
        wn_, ws_ = writes[0]
        bi = wn_.bi
        vt = S.resolve_to(cx0, wn_.ctx, wn_.ctx.bv._trace_rv(ws_["r"], None, 0))
        from .. import optnorm
        bodies = []
        none_from = []
        lv = optnorm.leaves(W, bv, vt, bodies, none_from=none_from)
        kinds = sorted(set(l[0] for l in lv))
        somes = [l for l in lv if l[0] == "some"]
        others = [l for l in lv if l[0] == "other"]
        filt = [l for l in somes if len(l) > 2]
        R.check("C07-R1", "value-unfiltered", not filt, "no alternative of the value is dropped by a filter", "a parsed interval is dropped when %s fails" % [l[2][:60] for l in filt][:2], wn_.loc())
        R.check("C07-R1", "value-shape", not others and somes and "none" in kinds, "the value is None or Some(..) on every path (%d alternatives in %d bodies)" % (len(lv), len(bodies)),
                "the poll interval can be something else than None / Some(parsed header): %s" % [terms.render(bv, l[1], W, {}, transparent=NOERR)[:120] for l in others][:3], wn_.loc())
        exp = "from_secs(min(parse::<u64>(to_str(get(RECV.headers, %r)@OK)@OK)@OK, %d))" % (HEADER, CAP)
        for n_, l in enumerate(somes):
            got = optnorm.canon(terms.render(bv, l[1], W, {}, transparent=NOERR))
            m = re.fullmatch(r"from_secs\(min\(parse::<u64>\(to_str\(get\((.*)\.headers, '([^']*)'\)@OK\)@OK\)@OK, (\d+)\)\)", got) or \
                re.fullmatch(r"from_secs\(min\((\d+), parse::<u64>\(to_str\(get\((.*)\.headers, '([^']*)'\)@OK\)@OK\)@OK\)\)", got)
            if m:
                g = m.groups()
                recv, key, cap = (g[0], g[1], int(g[2])) if not g[0].isdigit() else (g[1], g[2], int(g[0]))
            R.check("C07-R1", "some-payload#%d" % n_, bool(m) and key == HEADER and cap == CAP and "into_parts" in recv,
                    "Some(from_secs(min(parse::<u64>(to_str(headers.get(%r))), %d))) on the parts of the received response" % (HEADER, CAP),
                    "a Some(..) alternative of the poll interval is %s, expected %s" % (got[:200], exp), wn_.loc())
        # a present, well-formed header is never dropped: every None alternative is built behind the None edge of the
        # lookup or the Err edge of to_str/parse (in whichever body builds it)
        SRC = ("HeaderMap::<T>::get", "HeaderValue::to_str", "str::parse", "::parse", "and_then", "ok")
        n_none = 0
        for v in bodies:
            nones = []
            for b_ in sorted(v.reach0):
                for s_ in v.blocks[b_]["s"]:
                    if s_["k"] == "assign" and s_["r"]["k"] == "agg" and s_["r"].get("vn") == "None" and "Duration" in v.place_ty(s_["p"])["s"]:
                        nones.append(b_)
                t_ = v.blocks[b_]["t"]
                if t_["k"] == "call" and lib.norm(t_.get("callee") or "").endswith("FromResidual::from_residual") and "Duration" in v.crate.types[t_["destt"]]["s"]:
                    nones.append(b_)
            if not nones:
                continue
            neg = []
            for b_ in sorted(v.reach0):
                si = guards.switch_info(v, b_)
                if not (si and si.kind == "discr"):
                    continue
                h = lib.head_call(si.term) or ""
                rs = terms.render(v, si.term, W, {}, transparent=NOERR)
                if not (h.endswith("HeaderMap::<T>::get") or "to_str(" in rs or "parse::<u64>" in rs):
                    continue
                for tg in v.succ[b_]:
                    nm = si.edge_names(v, tg)
                    if nm and all(x in ("None", "Err", "Break") for x in nm):
                        neg.append((b_, tg))
            for b_ in nones:
                n_none += 1
                R.check("C07-R1", "none-only-if-absent-or-unparseable:%s#%d" % (v.name.split("::")[-1] if "{closure" not in v.name else "closure", n_none), bool(neg) and v.dominated_by_edge(b_, neg),
                        "None is produced only when the header is absent or does not parse", "None can be produced for a header that is present and parses (the server's interval is dropped)", lib.loc(v, b_))
        # `result.ok()`: a None that is the Err side of the to_str/parse chain is, by construction, "does not parse"
        for e_ in none_from:
            n_none += 1
            rs_ = terms.render(bv, e_, W, {}, transparent=NOERR)
            R.check("C07-R1", "none-only-if-absent-or-unparseable:ok()#%d" % n_none, ("to_str(" in rs_ or "parse::<u64>" in rs_) and rs_.endswith("@Err.0") or "@Err.0" in rs_ and ("to_str(" in rs_ or "parse::<u64>" in rs_),
                    "None is the error side of to_str/parse", "a None alternative comes from an error that is not the header's conversion: %s" % rs_[:120], wn_.loc())
        R.floor("C07-R1", "None alternatives of the header evaluation", n_none, 1)
    # ---------------------------------------------------------------- R2 independent of status
    R.rule("C07-R2", "the header evaluation and the changed-test dominate the HTTP status test (not control-dependent on status or request kind)")
    for cx in ex[:1]:
        nodes = [n for n in S.nodes if n.ctx is cx and n.idx in S.live]
        # the lookup may sit in a helper spliced below the exchange function
        get_n = [n.idx for n in S.nodes if n.idx in S.live and smod.descends(n.ctx, cx) and n.term["k"] == "call" and lib.callee_is(n.term, "http::HeaderMap::<T>::get")]
        ne_n = [n.idx for n in S.nodes if n.idx in S.live and smod.descends(n.ctx, cx) and n.term["k"] == "call" and n.term.get("callee") in ("std::cmp::PartialEq::ne", "std::cmp::PartialEq::eq") and FIELD in fmt_t(n.ctx.bv.trace_op(n.term["args"][0])) + fmt_t(n.ctx.bv.trace_op(n.term["args"][1]))]
        # .. and so may a status test (a send helper that looks at the status before handing the response back)
        st_n = [n.idx for n in S.nodes if n.idx in S.live and smod.descends(n.ctx, cx) and n.term["k"] == "call" and not smod.is_logging_span(n.term["sp"]) and (lib.callee_is(n.term, "http::StatusCode::is_success") or "StatusCode" in (n.term.get("callee") or "") or lib.callee_is(n.term, "http::Response::<T>::status"))]
        ver_ok = [(a, b) for (a, b, nm) in sm.outcome_edges(S, "std::ops::ControlFlow", "Continue") if S.nodes[a].ctx is cx and lib.head_call(guards.switch_info(cx.bv, S.nodes[a].bi).term) == "cup_ecdsa::Cupv2RequestHandler::verify_response"]
        if R.floor("C07-R2", "header lookup / change test / status test", min(len(get_n), len(ne_n), len(st_n)), 1):
            r1 = reach_in(S, [cx.entry], cx, cut_nodes=get_n)
            r2 = reach_in(S, [cx.entry], cx, cut_nodes=ne_n)
            R.check("C07-R2", "header-before-status", not (set(st_n) & r1) and not (set(st_n) & r2), "status is tested only after the header was processed",
                    "the HTTP status is examined on a path that has not processed X-Retry-After")
            # on every path from a verified response to the function's exit the header is evaluated
            starts = [b for (a, b) in ver_ok]
            if starts:
                r3 = reach_in(S, starts, cx, cut_nodes=get_n)
                R.check("C07-R2", "header-on-every-verified-response", not (set(cx.returns) & r3), "every verified response has its header processed", "a verified response can be returned without processing X-Retry-After")
    # ---------------------------------------------------------------- R3 sole writer
    R.rule("C07-R3", "the field is assigned only in the exchange function; it is constructed only by Context::load and derived impls")
    writers = []
    aggs = []
    for b in c.bodies:
        v = BV.of(b)
        for (bi, si, p, r) in v.field_writes:
            if bi in v.reach0 and smod._chain(p)[-1:] == [FIELD]:
                writers.append((v, bi))
        for bi in v.reach0:
            for s_ in v.blocks[bi]["s"]:
                if s_["k"] == "assign" and s_["r"]["k"] == "agg" and s_["r"].get("d") == "common::ProtocolState":
                    aggs.append((v, bi))
    R.floor("C07-R3", "assignments of the field", len(writers), 1)
    for (v, bi) in writers:
        below = set(cx_.bv.id for cx_ in S.ctxs if any(smod.descends(cx_, e_) for e_ in ex)) | set(cx_.bv.id for cx_ in Sr.ctxs if any(smod.descends(cx_, e_) for e_ in [c_ for c_ in Sr.ctxs if c_.bv.id in exb]))
        R.check("C07-R3", "writer:" + v.name.split("::")[-2], v.id in exb or v.id in below, "assigned in the exchange function", "server_dictated_poll_interval is assigned outside the exchange function: %s" % v.name, lib.loc(v, bi))
    for (v, bi) in aggs:
        okk = v.body.get("derived") or (v.body.get("parent") and W.by_id[v.body["parent"]].get("item") == "load" and "update_check::Context" in (W.by_id[v.body["parent"]].get("impl_self") or ""))
        R.check("C07-R3", "constructor:" + (v.body.get("item") or v.name.split("::")[-2]), bool(okk), "ProtocolState built in Context::load / derived impl",
                "ProtocolState (with its poll interval) is constructed in %s" % v.name, lib.loc(v, bi))
    # ---------------------------------------------------------------- R4 announce and commit before continuing
    R.rule("C07-R4", "after a change: ProtocolStateChange(state) is yielded, the context persisted and committed, all awaited, before the exchange returns")
    for cx in ex[:1]:
        # the context that holds the write: the exchange function, or the helper spliced below it that the section was moved into
        wcx_ = [n.ctx for n in S.nodes if n.idx in S.live and smod.descends(n.ctx, cx) and any(s_["k"] == "assign" and s_["p"].get("p") and smod._chain(s_["p"])[-1:] == [FIELD] for s_ in n.block["s"])]
        if wcx_:
            cx = wcx_[0]
        ch = [(a, b) for (a, b, tr) in sm.bool_edges(S, lambda n, t: n.ctx is cx and t[0] == "call" and t[1] in ("std::cmp::PartialEq::ne",) and FIELD in fmt_t(t)) if tr]
        ch += [(a, b) for (a, b, tr) in sm.bool_edges(S, lambda n, t: n.ctx is cx and t[0] == "call" and t[1] in ("std::cmp::PartialEq::eq",) and FIELD in fmt_t(t)) if not tr]
        wn = [n.idx for n in S.nodes if n.ctx is cx and n.idx in S.live and any(s_["k"] == "assign" and smod._chain(s_["p"])[-1:] == [FIELD] for s_ in n.block["s"])]
        # the test that decides whether the new value is taken is (in)equality: an ordering test (`old < new`) keeps the larger
        # of the two, so a later, shorter (or absent) interval never replaces an earlier one
        ordt = [n for n in S.nodes if n.ctx is cx and n.idx in S.live and n.term["k"] == "call" and lib.norm(n.term.get("callee") or "") in ("std::cmp::PartialOrd::lt", "std::cmp::PartialOrd::le", "std::cmp::PartialOrd::gt", "std::cmp::PartialOrd::ge")
                and FIELD in fmt_t(cx.bv.trace_op(n.term["args"][0])) + fmt_t(cx.bv.trace_op(n.term["args"][1]))]
        if ordt and wn:
            R.violation("C07-R4", "ordered-change-test", "the poll interval is replaced under an ordering test (%s) instead of `!=`: the most recent response does not always win" % lib.norm(ordt[0].term.get("callee")).split("::")[-1], ordt[0].loc())
        ys = [x for x in sm.yields(S, "ProtocolStateChange") if S.nodes[x].ctx is cx]
        commits = [x for x in sm.env(S, "Storage", "commit") if smod.descends(S.nodes[x].ctx, cx)]
        sets = [x for x in sm.env(S, "Storage") if smod.descends(S.nodes[x].ctx, cx) and S.ev[x][2] in ("set_int", "remove")]
        if R.floor("C07-R4", "changed-edge / write of the field", min(len(ch), len(wn)), 1):
            starts = [b for (a, b) in ch]
            r0 = reach_in(S, [cx.entry], cx, cut_edges=ch)
            R.check("C07-R4", "write-only-if-changed", not (set(wn) & r0), "written only when the value differs", "the field is written without the changed test")
            R.check("C07-R4", "write-on-change", not (set(cx.returns) & reach_in(S, starts, cx, cut_nodes=wn)), "a change is always stored", "a detected change can be dropped")
            R.check("C07-R4", "announce", not (set(cx.returns) & reach_in(S, wn, cx, cut_nodes=ys)), "every change is announced", "a change can return without ProtocolStateChange")
            R.check("C07-R4", "persist-after-announce", not (set(cx.returns) & reach_in(S, ys, cx, cut_nodes=sets)), "persisted after the announcement", "a change can return without persisting")
            R.check("C07-R4", "commit", not (set(cx.returns) & reach_in(S, sets, cx, cut_nodes=commits)), "committed before returning", "a change can return without commit")
            R.check("C07-R4", "order", not (set(sets) & reach_in(S, wn, cx, cut_nodes=ys)) and not (set(commits) & reach_in(S, ys, cx, cut_nodes=sets)), "write -> announce -> persist -> commit", "announce/persist/commit are out of order")
            for y in ys:
                nd = S.nodes[y]
                t = terms.render(cx.bv, cx.bv.trace_op(nd.term["args"][1]), W, {})
                R.check("C07-R4", "announced-value", t.endswith("context.state}") and t.startswith("ProtocolStateChange{"), t[-60:], "announced value is not the context's protocol state: " + t[-120:], nd.loc())
    # ---------------------------------------------------------------- R5 restart: key/unit pairing
    R.rule("C07-R5", "the interval is stored under one key as microseconds (as_micros -> i64) and restored with the same key and unit (i64 -> u64 -> from_micros); negative or oversized values are dropped")
    ku = [k for k in keys.key_users(W, c) if k["key_val"] == "server_dictated_poll_interval"]
    wr = [k for k in ku if k["name"].startswith("set")]
    rd = [k for k in ku if k["name"].startswith("get")]
    if R.floor("C07-R5", "writers/readers of the storage key", min(len(wr), len(rd)), 1):
        for k in wr:
            # None when unset, else as_micros() narrowed to i64 (dropped when it does not fit) — however the Option chain is spelt
            from .. import optnorm
            vt = k["bv"].trace_op(k["t"]["args"][2]) if len(k["t"].get("args", [])) > 2 else ("undef",)
            got = optnorm.option_desc(W, k["bv"], vt)
            exp = "None|Some{i64::try_from(as_micros(param1.0.state.server_dictated_poll_interval@Some.0))@Ok.0}"
            R.check("C07-R5", "writer:" + k["bv"].name.split("::")[-2], k["name"] == "set_option_int" and got == exp, got, "stored as %s via %s, expected %s" % (got, k["name"], exp), k["loc"])
        for k in rd:
            v = k["bv"]
            # find the field of the ProtocolState aggregate
            got = None
            for bi in v.reach0:
                for s_ in v.blocks[bi]["s"]:
                    if s_["k"] == "assign" and s_["r"]["k"] == "agg" and s_["r"].get("d") == "common::ProtocolState":
                        t = v._trace_rv(s_["r"], None, 0)
                        got = terms.render(v, t[3][t[4].index(FIELD)], W, {}, transparent=set(terms.TRANSPARENT))
            exp = "map(and_then(poll(get_int(param1.0, 'server_dictated_poll_interval'), get_context(param2))@Ready.0, |$1| ok(u64::try_from($1))), std::time::Duration::from_micros)"
            R.check("C07-R5", "reader:" + v.name.split("::")[-2], k["name"] == "get_int" and got == exp, got, "restored as %s, expected %s" % (got, exp), k["loc"])
