"""C11 — Every control request gets exactly one, truthful reply."""
from ..core import BV, strip, walk, fmt_t
from .. import census, lib, guards, sm as smod, terms
from ..sm import reach, path, reach_in, reach_pf

CD = "policy::CheckDecision"
POS = ("Ok", "OkUpdateDeferred")
NEG = ("TooSoon", "ThrottledByPolicy", "DeniedByPolicy")
SENDER = "futures::channel::oneshot::Sender<state_machine::StartUpdateCheckResponse>"


def _local_async_work(W, t):
    """The polled future was made by one of the crate's own `async fn`s that is not a timer maker (e.g. the update check,
    created first and handed to the loop that polls it).  Only the call that *makes* the future counts, not its arguments."""
    x = t
    for _ in range(12):
        while x[0] in ("ref", "deref"):
            x = x[1]
        if x[0] == "field" or x[0] == "downcast":
            x = x[1]
            continue
        if x[0] == "phi":
            return any(_local_async_work(W, a) for a in x[1])
        if x[0] != "call" or not x[2]:
            break
        last = lib.norm(x[1]).rsplit("::", 1)[-1]
        if last in ("fuse", "poll", "new_unchecked", "into_future", "new", "as_mut", "boxed", "boxed_local", "map", "then"):
            x = x[2][0]
            continue
        if "wait" in last:
            return False
        for b in W.by_id.values():
            if b.get("item") == last and b.get("kind") == "fn" and (b["id"] + "::{closure#0}") in W.by_id and W.by_id[b["id"] + "::{closure#0}"].get("kind") == "coroutine":
                return True
        return False
    return False


def select_sites(sm, S):
    """[(ctx, switch node idx, {arm: {'kind','term','cap','edges'}})] for every select! in the graph."""
    out = []
    W = sm.w
    for cx in S.ctxs:
        sites = S._selects.get(cx.bv.id, {})
        for sw, arms in sites.items():
            nodes = [n.idx for n in S.nodes if n.ctx is cx and n.bi == sw and n.idx in S.live]
            if not nodes:
                continue
            sn = nodes[0]
            info = {}
            for k, a in arms.items():
                t = cx.bv.trace_op(a["cap"])
                r = terms.render(cx.bv, t, W, {})
                if "select_next_some(" in r:
                    kind = "control"
                elif a["coroutines"] or _local_async_work(W, t):
                    kind = "task"
                elif "wait_for(" in r or "wait_until(" in r or "make_wait" in r or any(x[0] == "call" and x[1].startswith("time::Timer") for x in walk(t)):
                    kind = "timer"
                else:
                    # async helper producing a timer future
                    kind = "timer" if any(x[0] == "call" and (x[1].endswith("::fuse") or "wait" in x[1]) for x in walk(t)) else "other"
                edges = [(sn, b) for b in S.succ[sn] if any(l[0] == "switch" and l[2] == k for l in S.elabel.get((sn, b), []))]
                # arms with spliced coroutines: the edge into the arm body leaves the coroutine's return
                if a["coroutines"]:
                    edges = []
                    for b in S.succ[sn]:
                        if any(l[0] == "enter" for l in S.elabel.get((sn, b), [])):
                            edges.append((sn, b))
                pl = a["cap"].get("m") or a["cap"].get("c")
                info[k] = {"kind": kind, "term": t, "render": r, "edges": edges, "cap": a["cap"], "agg_block": a["agg_block"]}
            out.append((cx, sn, info))
    return out


def run(F, R):
    sm = smod.get(F)
    c = sm.c
    S = sm.S_run
    W = sm.w
    smod.preconditions(sm, R, "C11-pre")
    R.trust("futures::channel (mpsc/oneshot) and select! semantics: the arm of a completed future runs; oneshot::Sender::send consumes the sender")
    R.assume("all reply logic is sequential code of one task; interleavings inside futures::channel are not explored. Paths truncated at a suspension point (task dropped) are cancellation, not a lost reply")
    R.count("supergraph_nodes", len(S.live))
    entry = S.root.entry
    sels = select_sites(sm, S)
    R.floor("C11-R1", "select! sites", len(sels), 3)
    replies = sm.replies(S)
    R.floor("C11-R1", "reply sites", len(replies), 4)

    # ---------------------------------------------------------------- R1 responder typestate
    R.rule("C11-R1", "from the control arm of every select!, each path back to that select (or to the end of the task) passes exactly one responder.send")
    n_ctrl = 0
    for (cx, sn, info) in sels:
        for k, a in info.items():
            if a["kind"] != "control":
                continue
            n_ctrl += 1
            key = "%s:arm%d" % (cx.bv.body.get("item") or cx.bv.id.split("::")[-2], k)
            starts = [b for (_, b) in a["edges"]]
            if not starts:
                R.inconclusive("C11-R1", "control-arm:" + key, "control arm edge not found")
                continue
            barrier = set(S.root.returns) | set(x[1] for x in sels)
            r_ = reach_pf(S, starts, cut_nodes=replies)
            miss = r_ & barrier
            R.check("C11-R1", "at-least-once:" + key, not miss, "every path from this control arm replies before the next wait",
                    "a control request taken here can be dropped without a reply (reaches %s)" % [S.nodes[x].loc() for x in sorted(miss)][:3], S.nodes[sn].loc())
            # at most once: after a reply, no second reply before the barrier
            again = set()
            for x in replies:
                if x in reach_pf(S, starts):
                    r2 = reach_pf(S, S.succ[x], cut_nodes=list(barrier))
                    again |= (r2 & set(replies))
            # a second reply site reachable only through the barrier (next request) is fine; inside it is not
            R.check("C11-R1", "at-most-once:" + key, not again, "no second reply for the same request", "a request can be answered twice: %s" % [S.nodes[x].loc() for x in again], S.nodes[sn].loc())
    R.floor("C11-R1", "control arms", n_ctrl, 3)
    # the reply value is moved into send from the request that was received (sender provenance)
    for x in replies:
        nd = S.nodes[x]
        t = S.trace(nd, nd.term["args"][0])
        r = fmt_t(t)
        R.check("C11-R1", "sender-from-request:" + _k(nd), "StartUpdateCheck" in r and "responder" in r or "select_next_some" in r, "the sender used is the received request's responder", "send() on a sender that is not the request's responder: " + r[:120], nd.loc())

    # ---------------------------------------------------------------- R2 truthfulness
    R.rule("C11-R2", "Started only behind the positive decision, Throttled only behind a negative one (both only for a request taken while waiting); AlreadyRunning only in the control arm of the select that runs beside the check or the reboot wait")
    pos = [(a, b) for v in POS for (a, b, nm) in sm.outcome_edges(S, CD, v)]
    neg = [(a, b) for v in NEG for (a, b, nm) in sm.outcome_edges(S, CD, v)]
    started = sm.replies(S, "Started")
    thr = sm.replies(S, "Throttled")
    already = sm.replies(S, "AlreadyRunning")
    other = [x for x in replies if x not in started + thr + already]
    R.check("C11-R2", "reply-constants", not other and started and thr and already, "replies are Started/Throttled/AlreadyRunning constants", "unclassified replies: %s" % [S.ev[x] for x in other])
    if pos and neg:
        R.check("C11-R2", "started-only-if-allowed", not any(x in reach(S, [entry], cut_edges=pos) for x in started), "Started only behind Ok|OkUpdateDeferred", "Started is sent although the policy did not allow the check")
        R.check("C11-R2", "throttled-only-if-refused", not any(x in reach(S, [entry], cut_edges=neg) for x in thr), "Throttled only behind a negative decision", "Throttled is sent although the policy allowed the check")
        for (a, b) in pos:
            nxt = set(sm.env(S, "Policy", "update_check_allowed"))
            r_ = reach_pf(S, [b], cut_nodes=list(nxt))
            R.check("C11-R2", "no-throttled-after-allow", not (set(thr) & r_), "an allowed check never answers Throttled", "Throttled reachable after a positive decision", S.nodes[a].loc())
    # an arm that polls a future which is neither the control channel nor a timer is a piece of work running beside the
    # channel: the spliced check itself, or an opaque future handed to a helper (`complete_while_handling_requests(fut, ..)`)
    waiting = [(cx, sn, info) for (cx, sn, info) in sels if not any(a["kind"] in ("task", "other") for a in info.values()) and cx is S.root]
    beside = [(cx, sn, info) for (cx, sn, info) in sels if any(a["kind"] in ("task", "other") for a in info.values()) or cx is not S.root]
    wait_ctrl = [e for (cx, sn, info) in waiting for a in info.values() if a["kind"] == "control" for e in a["edges"]]
    beside_ctrl = [e for (cx, sn, info) in beside for a in info.values() if a["kind"] == "control" for e in a["edges"]]
    if R.floor("C11-R2", "waiting select / busy selects", min(len(wait_ctrl), len(beside_ctrl)), 1):
        r_ = reach(S, [entry], cut_edges=beside_ctrl)
        R.check("C11-R2", "already-running-only-while-busy", not any(x in r_ for x in already), "AlreadyRunning only from the selects that run beside a check / reboot wait", "AlreadyRunning can be sent for a request that arrived while the machine was waiting")
        for (a, b) in beside_ctrl:
            barrier = [a]
            r2 = reach_pf(S, [b], cut_nodes=barrier)
            bad = [x for x in started + thr if x in r2 and x not in reach_pf(S, [b], cut_nodes=barrier + already)]
            r3 = reach_pf(S, [b], cut_nodes=barrier + already)
            R.check("C11-R2", "busy-replies-already-running:" + _k(S.nodes[a]), not (set(started + thr) & r3), "a request arriving while busy is answered AlreadyRunning", "a request arriving while busy can be answered Started/Throttled", S.nodes[a].loc())
    # the check runs with the request's options
    for x in sm.env(S, "Policy", "update_check_allowed"):
        nd = S.nodes[x]
        t = nd.ctx.bv.trace_op(nd.term["args"][4]) if len(nd.term["args"]) > 4 else None
        if t is None:
            continue
        kinds = set()
        for a in lib.alts(t):
            s_ = lib.apath(a)
            if s_ == "default()":
                kinds.add("default")
            elif s_.endswith("@StartUpdateCheck.options"):
                kinds.add("request")
            else:
                kinds.add("other:" + s_[:60])
        R.check("C11-R2", "options-provenance", kinds <= {"default", "request"} and "request" in kinds, "options <- the request's options (default for timed checks)", "check options come from %s" % sorted(kinds), nd.loc())

    # ---------------------------------------------------------------- R3 on-demand upgrade
    R.rule("C11-R3", "the pending options are upgraded to OnDemand only when the incoming request's source is OnDemand; in the reboot wait the extra reboot_allowed question is under the same guard")
    n_up = 0
    for cx in S.ctxs:
        bv = cx.bv
        if not bv.id.startswith("omaha_client::state_machine"):
            continue
        ups = []
        for (bi, si, p, r) in bv.field_writes:
            if bi in bv.reach0 and smod._chain(p)[-1:] == ["source"] and r.get("k") != "callret":
                v = bv._trace_rv(r, None, 0)
                if any(a[0] == "agg" and a[2] and a[2].endswith("InstallSource::OnDemand") for a in lib.alts(v)):
                    ups.append((bi, p))
        guards_ = lib.equal_edges(bv, lambda t: "@StartUpdateCheck.options.source" in lib.apath(t) and "OnDemand" in lib.apath(t))
        sel_blocks = set(S.nodes[sn].bi for (cx2, sn, info) in sels if cx2 is cx)
        if guards_ and sel_blocks:
            # must direction: an on-demand request taken while busy always raises the pending options before the arm returns to its
            # wait (the later questions to the policy are asked with the pending options, not with the request's)
            upb = [bi for (bi, p) in ups]
            for (ga, gb) in guards_:
                esc = bv.reach_from([gb], avoid=upb) & (sel_blocks | set(bv.exits())) if upb else {ga}
                R.check("C11-R3", "on-demand-always-upgrades:" + (bv.body.get("item") or bv.id.split("::")[-2]), not esc,
                        "an on-demand request taken while busy always sets the pending options' source to OnDemand",
                        "an on-demand request taken while busy can be answered without raising the pending options to OnDemand: the next question to the policy is asked as a scheduled task", lib.loc(bv, ga))
        if not ups:
            continue
        for (bi, p) in ups:
            n_up += 1
            R.check("C11-R3", "upgrade-guarded:" + (bv.body.get("item") or bv.id.split("::")[-2]), guards_ and bv.dominated_by_edge(bi, guards_), "options.source = OnDemand only under new_options.source == OnDemand",
                    "the pending check is upgraded to on-demand by a request that is not on-demand", lib.loc(bv, bi))
        # extra reboot question under the same guard (reboot wait only)
        ctrl = [k for (cx2, sn, info) in sels if cx2 is cx for k, a in info.items() if a["kind"] == "control"]
        ra = [bi for bi, t in bv.calls() if t.get("trait") == "policy::PolicyEngine" and t.get("name") == "reboot_allowed"]
        for (cx2, sn, info) in sels:
            if cx2 is not cx:
                continue
            for k, a in info.items():
                if a["kind"] != "control" or not ra:
                    continue
                arm_blocks = set()
                for (_, b) in a["edges"]:
                    arm_blocks |= bv.reach_from([S.nodes[b].bi], avoid=[S.nodes[sn].bi])
                others = set()
                for k2, a2 in info.items():
                    if k2 != k:
                        for (_, b) in a2["edges"]:
                            if S.nodes[b].ctx is cx:
                                others |= bv.reach_from([S.nodes[b].bi], avoid=[S.nodes[sn].bi])
                only = [x for x in ra if x in arm_blocks and x not in others]
                # and always asked for an on-demand request: from the guard's edge no way back to the wait (or out) avoids the question
                for (ga, gb) in guards_:
                    if ga in arm_blocks:
                        esc = bv.reach_from([gb], avoid=only) & ({S.nodes[sn].bi} | set(bv.exits()))
                        R.check("C11-R3", "on-demand-always-asks", bool(only) and not esc, "an on-demand request during the reboot wait always re-asks reboot_allowed",
                                "an on-demand request during the reboot wait can be answered without re-asking reboot_allowed (the reboot it should trigger never happens)", lib.loc(bv, ga))
                for x in only:
                    R.check("C11-R3", "reboot-question-guarded", guards_ and bv.dominated_by_edge(x, guards_), "reboot_allowed in the control arm only for on-demand requests",
                            "any control request during the reboot wait re-asks reboot_allowed (and may trigger the reboot)", lib.loc(bv, x))
    # no other write to pending options inside a control arm: a whole-variable overwrite would let a later request downgrade the check
    n_arm = 0
    for (cx, sn, info) in sels:
        bv = cx.bv
        for k, a in info.items():
            if a["kind"] != "control":
                continue
            arm_blocks = set()
            for (_, b) in a["edges"]:
                if S.nodes[b].ctx is cx:
                    arm_blocks |= bv.reach_from([S.nodes[b].bi], avoid=[S.nodes[sn].bi])
            others = set()
            for k2, a2 in info.items():
                if k2 != k:
                    for (_, b) in a2["edges"]:
                        if S.nodes[b].ctx is cx:
                            others |= bv.reach_from([S.nodes[b].bi], avoid=[S.nodes[sn].bi])
            # blocks of the arm from which the select is entered again (the request did not end the wait)
            back = set(x for x in arm_blocks - others if S.nodes[sn].bi in bv.reach_from([x]))
            if not back:
                continue
            n_arm += 1
            bad = []
            for l, ds in bv.defs.items():
                if not bv.lty(l)["s"].endswith("CheckOptions"):
                    continue
                inside = [d for d in ds if d[0] in back]
                outside = [d for d in ds if d[0] not in arm_blocks and d[0] in bv.reach0]
                if inside and outside:
                    bad += [lib.loc(bv, d[0]) for d in inside]
            key = "%s:arm%d" % (bv.body.get("item") or bv.id.split("::")[-2], k)
            R.check("C11-R3", "no-overwrite-of-pending-options:" + key, not bad, "a request taken while busy never replaces the pending options as a whole (only the guarded OnDemand upgrade writes them)",
                    "a request taken while busy overwrites the pending check options (a later scheduled request can undo an on-demand upgrade): %s" % bad, S.nodes[sn].loc())
    # .. wherever it is written: a helper that copies the request's source into the pending options (`ongoing.source =
    # requested.source`) lets a later scheduled request undo an on-demand upgrade just the same
    for b in c.bodies:
        if "::tests" in b["id"] or not b["id"].startswith("omaha_client::state_machine"):
            continue
        v_ = BV.of(b)
        for (bi, si, p, r) in v_.field_writes:
            if bi not in v_.reach0 or smod._chain(p)[-1:] != ["source"] or r.get("k") == "callret":
                continue
            if not v_.lty(p["l"])["s"].replace("&mut ", "").replace("&", "").endswith("CheckOptions"):
                continue
            val = v_._trace_rv(r, None, 0)
            const_od = all(a[0] == "agg" and a[2] and a[2].endswith("InstallSource::OnDemand") for a in lib.alts(val))
            R.check("C11-R3", "source-only-raised:" + (b.get("item") or b["id"].split("::")[-1]) + ":" + str(len([1 for i_ in R.instances if i_["rule"] == "C11-R3" and i_["key"].startswith("source-only-raised:")])), const_od,
                    "the pending options' source is only ever set to OnDemand", "the pending options' source is assigned %s: a request that is not on-demand can lower an on-demand check back to scheduled" % fmt_t(val)[:80], lib.loc(v_, bi))
    R.floor("C11-R3", "control arms that return to their select", n_arm, 2)
    # "triggers the reboot *if the policy then allows it*": the reboot gate itself is C05-R5's (most recent answer was yes)
    from . import c05 as _c05
    from .. import report as _report
    _c05.run(F, _report.SubsetAlias(R, {"C05-R5": "C11-R3"}, prefix="reboot-gate:", keys={"latest-answer-yes", "some-answer-yes"}))
    R.floor("C11-R3", "OnDemand upgrades", n_up, 2)

    # ---------------------------------------------------------------- R4 gone error
    R.rule("C11-R4", "ControlHandle::start_update_check awaits the send and the reply once each, converting both failures into StateMachineGone, with no loop")
    hv = W.bv(sm.handle_co) if sm.handle_co else None
    if hv is None:
        R.inconclusive("C11-R4", "handle", "ControlHandle::start_update_check not found")
    else:
        R.check("C11-R4", "no-loop", not hv.sccs(), "no loop in the request path", "the request path contains a loop (can hang)")
        # both failures end in the gone error: the return type admits no other error, so what is left to decide is that
        # neither result is unwrapped (a panic instead of the error) — however the conversion is spelt (`?`, map_err, match)
        ps = [p_ for p_ in census.panic_sites(hv) if p_["desc"].startswith("api:")]
        R.check("C11-R4", "no-unwrap-on-channel-results", not ps, "no unwrap/expect in the request path: a closed channel surfaces as Err(StateMachineGone)",
                "the request path can panic instead of returning the gone error: %s" % [p_["desc"] + "@" + p_["loc"] for p_ in ps])
        rty = hv.lty(0)["s"]
        R.check("C11-R4", "error-type", rty.startswith("std::result::Result<") and rty.rstrip(">").endswith("StateMachineGone"), "request path returns " + rty, "the request path returns %s, not Result<_, StateMachineGone>" % rty)
        for tn in ("mpsc::SendError", "oneshot::Canceled"):
            im = [b for b in lib.bodies(c, item="from", impl_self="state_machine::StateMachineGone", impl_trait="std::convert::From") if any(c.types[a]["s"].endswith(tn) for a in b.get("impl_trait_args", []) if isinstance(a, int))]
            ok = len(im) == 1 and BV.of(im[0]).trace_local(0)[0] == "agg"
            R.check("C11-R4", "gone:" + tn.split("::")[-1], ok, "converts to StateMachineGone", "no From<%s> for StateMachineGone" % tn)
        ret = terms.render(hv, hv.trace_local(0), W, {})
        alts_ = [terms.render(hv, a_, W, {}) for a_ in lib.alts(hv.trace_local(0))]
        # some returned alternative carries what the reply channel's receiver delivered (Ok(..) of it, or its Result with only the error mapped)
        ok = any(("channel().1" in a_) and (a_.startswith("Ok{") or a_.startswith("map_err(")) for a_ in alts_)
        R.check("C11-R4", "returns-the-reply", ok, ret[:120], "the handle does not return the received reply: " + ret[:160])
        snd = [t for _, t in hv.calls() if lib.callee_is(t, "futures::SinkExt::send")]
        nonblocking = [lib.norm(t.get("callee") or "") for _, t in hv.calls() if t.get("name") in ("try_send", "start_send", "feed", "poll_ready")]
        R.check("C11-R4", "request-is-awaited-send", len(snd) == 1 and not nonblocking, "the request is handed over with one awaited SinkExt::send (waits for a busy machine; fails only when it is gone)",
                "the request is not handed over with one awaited send (%d send, non-waiting operations %s): a busy but live machine can be reported gone, or the request dropped" % (len(snd), nonblocking))
        if snd:
            from .. import optnorm as _on11
            a = terms.render(hv, _on11.simplify(_on11.inline_all(W, hv, hv.trace_op(snd[0]["args"][1]))), W, {})
            R.check("C11-R4", "request-carries-responder", a.startswith("StartUpdateCheck{") and "channel()" in a, a[:100], "the request sent is " + a[:120])

    # ---------------------------------------------------------------- R5 select liveness
    R.rule("C11-R5", "at every entry of a select! some arm other than the control stream holds a live future (fresh per iteration, or re-armed after firing, or the loop is left), so a closed control channel cannot make select! panic")
    comps = smod.sccs(S, S.live)
    for (cx, sn, info) in sels:
        key = cx.bv.body.get("item") or cx.bv.id.split("::")[-2]
        ll = smod.local_loop(S, sn, cx)
        loop = [ll] if ll else []
        live_arm = False
        for k, a in info.items():
            if a["kind"] == "control":
                continue
            # where is the future created?
            t = a["term"]
            creators = [x for x in walk(t) if x[0] == "call" and (x[1].startswith("time::Timer") or x[1].endswith("::fuse") or "make_wait" in x[1] or "start_update_check" in x[1])]
            cblocks = set(x[3] for x in creators)
            cnodes = [n.idx for n in S.nodes if n.ctx is cx and n.bi in cblocks and n.idx in S.live]
            if not loop:
                live_arm = True
                continue
            L = min(loop, key=len)
            fresh = any(x in L for x in cnodes)
            if fresh:
                live_arm = True
                R.holds("C11-R5", "fresh:%s:arm%d" % (key, k), "future created inside the loop iteration")
                continue
            # created before the loop: after it fires it must be re-armed or the loop left
            pl = a["cap"].get("m") or a["cap"].get("c")
            sets = []
            for n in S.nodes:
                if n.ctx is cx and n.idx in S.live and n.term["k"] == "call" and lib.callee_is(n.term, "std::pin::Pin::<Ptr>::set"):
                    recv = cx.bv.trace_op(n.term["args"][0])
                    capbase = cx.bv.trace_op(a["cap"])
                    if _same_pin(recv, capbase):
                        sets.append(n.idx)
            starts = [b for (_, b) in a["edges"]]
            back = sn in reach_in(S, starts, cx, cut_nodes=sets) if starts else True
            ok = not back
            if ok:
                live_arm = True
            R.check("C11-R5", "rearmed:%s:arm%d" % (key, k), ok, "after firing, the future is re-armed (Pin::set) or the loop is left", "arm %d's future is polled again after completing without being re-armed" % k, S.nodes[sn].loc())
        R.check("C11-R5", "live-arm:" + key, live_arm, "a non-control arm is always live", "only the control stream keeps this select! alive", S.nodes[sn].loc())
    # a request wakes a waiting machine: outside a check, timers are only ever waited on as arms of a select that also listens to
    # the control channel — never awaited on their own (that wait could not be interrupted by a request)
    chk_id = sm.check_co
    n_t = 0
    for n_ in S.nodes:
        if n_.idx not in S.live or not S.ev[n_.idx] or S.ev[n_.idx][:2] != ("env", "Timer"):
            continue
        if any(cx_.bv.id == chk_id for cx_ in _anc11(n_.ctx)):
            continue   # inside an update check (its back-off wait runs beside the control arm of run()'s select)
        n_t += 1
        bv_ = n_.ctx.bv
        t_ = n_.term
        nxt = t_.get("t")
        awaited = False
        if nxt is not None and not t_["dest"].get("p"):
            tt_ = bv_.blocks[nxt]["t"]
            if tt_["k"] == "call" and tt_.get("callee") == "std::future::IntoFuture::into_future" and "await" in tt_["sp"].get("x", ""):
                pl_ = tt_["args"][0].get("m")
                awaited = pl_ is not None and not pl_.get("p") and pl_["l"] == t_["dest"]["l"]
        R.check("C11-R5", "timer-not-awaited-alone:%s#%d" % (bv_.body.get("item") or bv_.id.split("::")[-2], n_t), not awaited, "timer future handed to a select/join, not awaited on its own",
                "a timer is awaited on its own while the machine is waiting: a start-update-check request cannot wake it until the timer fires", n_.loc())
    R.floor("C11-R5", "timer futures created while waiting", n_t, 3)


def _same_pin(a, b):
    """Do two terms denote the same pinned local (compare the innermost creator call)?"""
    ca = [x for x in walk(a) if x[0] == "call" and (x[1].startswith("time::Timer") or "make_wait" in x[1] or x[1].endswith("::fuse"))]
    cb = [x for x in walk(b) if x[0] == "call" and (x[1].startswith("time::Timer") or "make_wait" in x[1] or x[1].endswith("::fuse"))]
    return bool(ca) and bool(cb) and ca[0][3] == cb[0][3]


def _anc11(cx):
    while cx is not None:
        yield cx
        cx = cx.parent


def _k(nd):
    parts = []
    cx = nd.ctx
    while cx is not None and len(parts) < 2:
        parts.append(cx.bv.body.get("item") or cx.bv.id.split("::")[-2])
        cx = cx.parent
    sp = nd.term["sp"]
    return "<".join(parts)
