"""C09 — Cohort and user-counting data follow the server and persist."""
import re
from ..core import BV, strip, walk, fmt_t
from .. import lib, guards, sm as smod, terms
from ..sm import reach, path, reach_in, reach_pf

UCE = "state_machine::UpdateCheckError"
COHORT_FIELDS = ("id", "hint", "name")


def guarded_field_writes(bv, W, test_name, self_prefix, other_prefix):
    """For every field write `self....f = <value>` in a body: (field chain, rendered value, guards),
    where guards are the boolean tests (rendered, truth) whose edge dominates the write."""
    out = []
    tests = bv.bool_edges(lambda t: t[0] == "call")
    for (bi, si, p, r) in bv.field_writes:
        if bi not in bv.reach0:
            continue
        chain = ".".join(smod._chain(p))
        val = terms.render(bv, bv._trace_rv(r, None, 0) if r["k"] != "callret" else ("undef", 0), W, {})
        gs = []
        by_switch = {}
        for (sb, tgt, truth) in tests:
            by_switch.setdefault((sb, truth), []).append((sb, tgt))
        for (sb, truth), es in by_switch.items():
            if bv.dominated_by_edge(bi, es):
                term = bv.trace_op(bv.blocks[sb]["t"]["o"])
                while term[0] == "unop" and term[1] == "Not":
                    term = term[2]
                gs.append((terms.render(bv, term, W, {}), truth))
        out.append((chain, val, gs, bi))
    return out


def field_updates(bv, W, names=None, _depth=0, _subst=None):
    """Guarded writes to fields of the receiver, in this body and in the private helpers (same receiver handed on) it calls:
    [(field chain, value rendered, guards, bv, block)], guards = [(rendered condition, outcome)] where outcome is True/False for
    a boolean test and a variant name for a match/if-let on a discriminant.  Helper parameters are replaced by the caller's
    arguments before rendering, so the result reads the same whether or not the code was moved into a helper."""
    from .. import guards as G
    out = []
    sub = (lambda t: lib.subst_params(t, _subst)) if _subst else (lambda t: t)
    rd = lambda t: terms.render(bv, sub(t), W, names or {})
    tests = bv.bool_edges(lambda t: t[0] == "call")
    by_switch = {}
    for (sb, tgt, truth) in tests:
        by_switch.setdefault((sb, truth), []).append((sb, tgt))
    dsw = []
    for sb in sorted(bv.reach0):
        si = G.switch_info(bv, sb)
        if si is not None and si.kind == "discr" and len(bv.succ[sb]) > 1:
            for tgt in bv.succ[sb]:
                nm = si.edge_names(bv, tgt)
                if nm:
                    dsw.append((sb, tgt, si, nm))
    for (bi, si_, p, r) in bv.field_writes:
        if bi not in bv.reach0:
            continue
        ch_ = smod._chain(p)
        if _subst and p.get("p") and p["p"][0]["k"] == "deref" and 1 <= p["l"] <= len(_subst):
            # a write through a `&mut` parameter: the field the caller lent (`helper(&mut self.id, ..)` writing `*current`)
            a_ = _subst[p["l"] - 1]
            pre = []
            while a_[0] in ("ref", "deref", "field"):
                if a_[0] == "field":
                    pre.append(str(a_[2]))
                a_ = a_[1]
            ch_ = pre[::-1] + ch_
        elif p.get("p") and p["p"][0]["k"] == "deref" and p["l"] > bv.argc:
            # a write through a local `&mut` borrow (what is left of a helper that was inlined): the field it points at
            a_ = bv.trace_local(p["l"])
            if a_[0] == "ref":
                pre = []
                while a_[0] in ("ref", "deref", "field"):
                    if a_[0] == "field":
                        pre.append(str(a_[2]))
                    a_ = a_[1]
                ch_ = pre[::-1] + ch_
        chain = ".".join(ch_)
        val = rd(bv._trace_rv(r, None, 0)) if r["k"] != "callret" else "undef"
        gs = []
        for (sb, truth), es in by_switch.items():
            if bv.dominated_by_edge(bi, es):
                term = bv.trace_op(bv.blocks[sb]["t"]["o"])
                while term[0] == "unop" and term[1] == "Not":
                    term = term[2]
                gs.append((rd(term), truth))
        for (sb, tgt, si, nm) in dsw:
            if bv.dominated_by_edge(bi, [(sb, tgt)]):
                gs.append((rd(bv.trace_place(si.place)), "|".join(nm)))
        out.append((chain, val, gs, bv, bi))
    if _depth < 3:
        for bi, t in bv.calls():
            rid = t.get("resolved_id") or t.get("callee_id")
            b = W.by_id.get(rid) if rid else None
            if b is None or b.get("kind") != "fn" or b.get("pub") or t.get("trait") or not t.get("args"):
                continue
            cv = BV.of(b)
            if cv.argc != len(t["args"]):
                continue
            args = [sub(bv.trace_op(a)) for a in t["args"]]
            # guards that dominate the call apply to everything the helper writes
            outer = []
            for (sb, truth), es in by_switch.items():
                if bv.dominated_by_edge(bi, es):
                    term = bv.trace_op(bv.blocks[sb]["t"]["o"])
                    while term[0] == "unop" and term[1] == "Not":
                        term = term[2]
                    outer.append((rd(term), truth))
            for (sb, tgt, si, nm) in dsw:
                if bv.dominated_by_edge(bi, [(sb, tgt)]):
                    outer.append((rd(bv.trace_place(si.place)), "|".join(nm)))
            for (chain, val, gs, v2, b2) in field_updates(cv, W, names, _depth + 1, args):
                out.append((chain, val, outer + gs, v2, b2))
    return out


def run(F, R):
    sm = smod.get(F)
    c = sm.c
    S = sm.S_check
    Sr = sm.S_run
    W = sm.w
    smod.preconditions(sm, R, "C09-pre")
    R.trust("serde_json (PersistedApp encoding), String equality, Option::is_some/is_none")
    R.assume("behaviour over histories is reduced to the per-step rules below plus C08-R3 (persisted and committed with the check's result)")

    # ---------------------------------------------------------------- R1 field-wise merge
    R.rule("C09-R1", "Cohort::update_from_omaha assigns each of the three fields from the same field of the server cohort exactly under is_some() of that field; App::load fills each field from the same persisted field exactly when unset")
    adt = c.adts.get("protocol::Cohort")
    fields = [f["n"] for f in adt["variants"][0]["fields"]] if adt else []
    R.floor("C09-R1", "fields of Cohort", len(fields), 3)
    ufo = lib.one(R, "C09-R1", c, "Cohort::update_from_omaha", item="update_from_omaha", impl_self="protocol::Cohort")
    if ufo:
        R.count("bodies")
        ws = field_updates(ufo, W)
        seen = {}
        for (chain, val, gs, v2, bi) in ws:
            f = chain.split(".")[-1]
            src = "param2.%s" % f
            # `if other.f.is_some() { self.f = other.f }`  or  `if let Some(x) = other.f { self.f = Some(x) }`
            ok_a = val == src and ("is_some(%s)" % src, True) in gs
            ok_b = val == "Some{%s@Some.0}" % src and (src, "Some") in gs
            # .. and under nothing else: an extra condition (`&& hint != Some("")`) keeps the old value for a field the
            # response does carry
            extra = [g_ for g_ in gs if g_ not in (("is_some(%s)" % src, True), (src, "Some"))]
            ok = (ok_a or ok_b) and f in fields and not extra
            seen.setdefault(f, []).append(ok)
            R.check("C09-R1", "merge:" + f, ok, "self.%s = other.%s exactly when other.%s is present" % (f, f, f),
                    "Cohort::update_from_omaha writes %s = %s under %s" % (chain, val, gs), lib.loc(v2, bi))
        R.check("C09-R1", "merge-all-fields", set(seen) == set(fields), "all of %s merged" % fields, "fields merged: %s, Cohort has %s" % (sorted(seen), fields))
    ld = [b for b in c.bodies if b["kind"] == "coroutine" and b["id"].endswith("::load::{closure#0}") and W.by_id.get(b.get("parent"), {}).get("impl_self") == "common::App"]
    if R.floor("C09-R1", "App::load", len(ld), 1):
        lv = BV.of(ld[0])
        R.count("bodies")
        ws = field_updates(lv, W)
        seen = set()
        for (chain, val, gs, v2, bi) in ws:
            if chain.endswith("cohort.id") or chain.endswith("cohort.hint") or chain.endswith("cohort.name"):
                f = chain.split(".")[-1]
                src_ok = val.endswith("@Ok.0.cohort.%s" % f) and "from_str" in val
                g_ok = any((g == "is_none(param1.0.cohort.%s)" % f and tr is True) or (g == "param1.0.cohort.%s" % f and tr == "None") for g, tr in gs)
                # `self.f = self.f.take().or(persisted.f)` (also clone()/or_else(|| ..)): keeps a set field, takes the persisted
                # one otherwise — the same table without a test
                m_or = re.fullmatch(r"or(?:_else)?\((?:take|clone)\(param1\.0\.cohort\.%s\), (?:\|\| )?(.*@Ok\.0\.cohort\.%s)\)" % (f, f), val)
                if m_or and "from_str" in m_or.group(1):
                    src_ok = g_ok = True
                seen.add(f)
                R.check("C09-R1", "restore:" + f, src_ok and g_ok, "cohort.%s <- persisted cohort.%s when unset" % (f, f),
                        "App::load writes %s = %s under %s" % (chain, val[-80:], gs), lib.loc(v2, bi))
            elif chain.endswith("user_counting"):
                src_ok = val.endswith("@Ok.0.user_counting")
                g_ok = any(isinstance(g, str) and g.startswith("eq(param1.0.user_counting, ") and "ClientRegulatedByDate{None{}}" in g and tr is True for g, tr in gs)
                seen.add("user_counting")
                R.check("C09-R1", "restore:user_counting", src_ok and g_ok, "user_counting <- persisted when ClientRegulatedByDate(None)", "App::load writes user_counting = %s under %s" % (val[-80:], gs), lib.loc(v2, bi))
        R.check("C09-R1", "restore-all-fields", seen == set(fields) | {"user_counting"}, "restores %s" % sorted(seen), "App::load restores only %s" % sorted(seen))

    # ---------------------------------------------------------------- R2 routing
    R.rule("C09-R2", "AppSetExt::update_from_omaha visits every app (the outer loop only ends by iterator exhaustion) and updates cohort and user counting exactly under equality of the two ids")
    ru = [b for b in c.bodies if b.get("trait_default") == "app_set::AppSetExt" and b["item"] == "update_from_omaha"]
    if R.floor("C09-R2", "AppSetExt::update_from_omaha", len(ru), 1):
        bv = BV.of(ru[0])
        R.count("bodies")
        comps = bv.sccs()
        outer = None
        for L in comps:
            for b in L:
                t = bv.blocks[b]["t"]
                if t["k"] == "call" and lib.callee_is(t, "std::iter::Iterator::next") and "iter_mut_apps" in fmt_t(bv.trace_op(t["args"][0])):
                    outer = L
        if outer is None:
            # the roles swapped: a loop over the responses that searches the apps.  One apps iterator created outside that loop
            # and searched inside it hands a later response only the apps the earlier searches left over.
            shared_apps = []
            for L in comps:
                if len(L) < 2:
                    continue
                for sbi_ in sorted(L):
                    st_ = bv.blocks[sbi_]["t"]
                    if st_["k"] != "call" or st_.get("name") not in ("find", "find_map", "position", "any", "all", "nth", "skip_while", "take_while", "next") or not st_.get("args"):
                        continue
                    if "iter_mut_apps" not in fmt_t(bv.trace_op(st_["args"][0]))[:400]:
                        continue
                    recv_ = [s2_["r"]["p"]["l"] for s2_ in bv.blocks[sbi_]["s"] if s2_["k"] == "assign" and s2_["r"]["k"] == "ref" and s2_["r"].get("m") and not s2_["r"]["p"].get("p")]
                    for l_ in recv_[-1:]:
                        made_ = [dbi_ for (dbi_, dsi_, kind_, x_) in bv.defs.get(l_, []) if dbi_ in bv.reach0]
                        if made_ and not any(m_ in L for m_ in made_):
                            shared_apps.append(sbi_)
            if shared_apps:
                R.violation("C09-R2", "apps-rescanned-per-response", "the apps are searched with one iterator shared by all responses: a response that comes after another only sees the apps the "
                            "earlier search left over, so responses in a different order than the app set (or after an unknown id) are dropped", lib.loc(bv, shared_apps[0]))
            else:
                R.inconclusive("C09-R2", "outer-loop", "no loop over iter_mut_apps()")
        else:
            exits = [(a, b) for a in outer for b in bv.succ[a] if b not in outer]
            bad = []
            for (a, b) in exits:
                si = guards.switch_info(bv, a)
                ok = si is not None and si.kind == "discr" and lib.head_call(si.term) == "std::iter::Iterator::next" and "iter_mut_apps" in fmt_t(si.term) and si.edge_names(bv, b) == ["None"]
                if not ok:
                    bad.append(lib.loc(bv, a))
            R.check("C09-R2", "outer-loop-exhaustive", not bad and exits, "the only exit of the app loop is iterator exhaustion", "the loop over the apps can be left early at %s: later apps are not updated" % bad)
            eqE = lib.equal_edges(bv, lambda t: True)
            eq_terms = set(terms.render(bv, bv.trace_op(bv.blocks[a]["t"]["o"]), W, {}) for (a, b) in eqE)
            if not eqE:
                # the inner scan written as `responses.iter().find(|r| app.id == r.app_id)`: the guard is the Some edge of that find
                for sb in sorted(bv.reach0):
                    si = guards.switch_info(bv, sb)
                    if si is None or si.kind != "discr" or not (lib.head_call(si.term) or "").endswith("Iterator::find"):
                        continue
                    ft = [x for x in walk(si.term) if x[0] == "call" and lib.norm(x[1]).endswith("Iterator::find")]
                    if not ft or len(ft[0][2]) != 2:
                        continue
                    src_ = terms.render(bv, ft[0][2][0], W, {})
                    pred_ = terms.render(bv, ft[0][2][1], W, {})
                    if src_ in ("iter(param2)", "into_iter(param2)") and not any(w_ in src_ for w_ in ("filter", "skip", "rev")):
                        eq_terms.add(pred_)
                        for tg in bv.succ[sb]:
                            if si.edge_names(bv, tg) == ["Some"]:
                                eqE.append((sb, tg))
            ok_eq = len(eq_terms) == 1 and all(".id" in t and ".app_id" in t and ("eq(" in t or "Eq(" in t) or (".id" in t and ".app_id" in t and not t.startswith("|")) for t in eq_terms)
            R.check("C09-R2", "guard-is-id-equality", ok_eq, str(sorted(eq_terms)), "the routing guard is not app.id == app_response.app_id: %s" % sorted(eq_terms))
            # every app is matched against *all* responses: the iterator that is searched is created inside the per-app loop
            # (one iterator shared by all apps hands a later app only what the search for an earlier one left over)
            scans = []
            for sbi_ in sorted(outer):
                st_ = bv.blocks[sbi_]["t"]
                if st_["k"] != "call" or st_.get("name") not in ("next", "find", "find_map", "position", "any", "all", "nth", "skip_while", "take_while") or not st_.get("argt"):
                    continue
                rty_ = c.types[st_["argt"][0]]["s"] if isinstance(st_["argt"][0], int) else ""
                if "AppResponse" not in rty_ or "iter_mut_apps" in fmt_t(bv.trace_op(st_["args"][0]))[:400]:
                    continue
                # the local the `&mut` receiver points at, and where that local is created
                recv_ = [s2_["r"]["p"]["l"] for s2_ in bv.blocks[sbi_]["s"] if s2_["k"] == "assign" and s2_["r"]["k"] == "ref" and s2_["r"].get("m") and not s2_["r"]["p"].get("p")]
                for l_ in recv_[-1:]:
                    made_ = [dbi_ for (dbi_, dsi_, kind_, x_) in bv.defs.get(l_, []) if dbi_ in bv.reach0]
                    scans.append((sbi_, l_, made_))
            if scans:
                shared_ = [(sbi_, l_) for (sbi_, l_, made_) in scans if made_ and not any(m_ in outer for m_ in made_)]
                R.check("C09-R2", "responses-rescanned-per-app", not shared_, "the responses are searched from the first one for every app (%d scan site(s))" % len(scans),
                        "the responses are searched with one iterator shared by all apps: an app that comes after another in the set only sees the responses the earlier search left over",
                        lib.loc(bv, shared_[0][0]) if shared_ else None)
            upd = [bi for bi, t in bv.calls() if lib.callee_is(t, "protocol::Cohort::update_from_omaha")]
            ucw = [bi for (bi, si, p, r) in bv.field_writes if bi in bv.reach0 and smod._chain(p)[-1:] == ["user_counting"]]
            R.check("C09-R2", "updates-under-guard", upd and ucw and all(bv.dominated_by_edge(x, eqE) for x in upd + ucw), "cohort merge and user_counting assignment only for the matching app",
                    "cohort/user_counting are updated outside the id-equality guard")
            for bi in upd:
                t = bv.blocks[bi]["t"]
                a0 = terms.render(bv, bv.trace_op(t["args"][0]), W, {})
                a1 = terms.render(bv, bv.trace_op(t["args"][1]), W, {})
                R.check("C09-R2", "cohort-args", a0.endswith(".cohort") and a1.endswith(".cohort") and "next(" in a0 and ("next(" in a1 or "find(" in a1), "app.cohort.update_from_omaha(app_response.cohort)", "update_from_omaha(%s, %s)" % (a0[-60:], a1[-60:]))
            for (bi, si, p, r) in bv.field_writes:
                if bi in bv.reach0 and smod._chain(p)[-1:] == ["user_counting"]:
                    v = terms.render(bv, bv._trace_rv(r, None, 0), W, {})
                    R.check("C09-R2", "user-counting-source", v.endswith(".user_counting") and ("next(" in v or "find(" in v), "app.user_counting = app_response.user_counting", "user_counting <- %s" % v[-80:])
            # once the matching response is found both updates always happen
            for (a, b) in eqE:
                back = bv.reach_from([b], avoid=upd) & set(x for x in outer if bv.blocks[x]["t"]["k"] == "call" and lib.callee_is(bv.blocks[x]["t"], "std::iter::Iterator::next"))
                R.check("C09-R2", "match-always-updates", not back, "a matching response always updates the app", "a matching response can be skipped")

    # ---------------------------------------------------------------- R3 only on success, always on success
    R.rule("C09-R3", "AppSetExt::update_from_omaha runs on every path of a successful check and a successfully parsed ping, and on no failure path; user counting comes from the response's daystart")
    root = S.root
    okE = [(a, b) for (a, b, nm) in sm.outcome_edges(S, "std::result::Result", "Ok") if S.nodes[a].ctx is root and UCE in root.bv.crate.types[root.bv.switch_subject(S.nodes[a].bi)[1]]["s"]]
    upd = sm.calls(S, "app_set::AppSetExt::update_from_omaha")
    if R.floor("C09-R3", "update_from_omaha call in a check", len(upd), 1) and R.floor("C09-R3", "check Ok edge", len(okE), 1):
        R.check("C09-R3", "check-only-on-success", not any(x in reach(S, [root.entry], cut_edges=okE) for x in upd), "only under check Ok", "the app set is updated on a path where the check failed")
        for (a, b) in okE:
            R.check("C09-R3", "check-always-on-success", not (set(root.returns) & reach(S, [b], cut_nodes=upd)), "every successful check updates the app set", "a successful check can finish without updating cohort/user counting", S.nodes[a].loc())
        for x in upd:
            nd = S.nodes[x]
            a1 = terms.render(nd.ctx.bv, nd.ctx.bv.trace_op(nd.term["args"][1]), W, {})
            R.check("C09-R3", "check-argument", "app_responses" in a1 and "@Ok" in a1, "argument is the check result's app_responses", "update_from_omaha argument: " + a1[-120:], nd.loc())
    # "every app named in the response": the app_responses vectors are the response's apps mapped 1:1 (no filter, no
    # dropping adaptor) — the construction rule is shared with C04-R3
    try:
        from . import c04 as _c04
        from .c05 import _Alias
        hdr_ = [cx_ for cx_ in S.ctxs if cx_.bv.body.get("item") == "perform_update_check" or "perform_update_check" in cx_.bv.id]
        if hdr_:
            _c04._alignment(_Alias(R, "C04-R3", "C09-R3", "every-response-app:"), sm, hdr_[0])
    except ImportError:
        pass
    pcs = [cx for cx in Sr.ctxs if cx.bv.body["kind"] == "coroutine" and _is_ping(cx)]
    if R.floor("C09-R3", "ping function", len(pcs), 1):
        pc = pcs[0]
        pupd = [x for x in sm.calls(Sr, "app_set::AppSetExt::update_from_omaha") if smod.descends(Sr.nodes[x].ctx, pc)]
        pa_ok = [(a, b) for (a, b, nm) in sm.outcome_edges(Sr, "std::result::Result", "Ok") if Sr.nodes[a].ctx is pc and "ResponseParseError" in pc.bv.crate.types[pc.bv.switch_subject(Sr.nodes[a].bi)[1]]["s"]]
        if R.floor("C09-R3", "ping parse Ok edge", len(pa_ok), 1):
            R.check("C09-R3", "ping-only-on-success", pupd and not any(x in reach_in(Sr, [pc.entry], pc, cut_edges=pa_ok) for x in pupd), "ping updates only after a parsed response", "ping updates the app set without a parsed response (or never)")
            for (a, b) in pa_ok:
                R.check("C09-R3", "ping-always-on-success", bool(pupd) and not (set(pc.returns) & reach_in(Sr, [b], pc, cut_nodes=pupd)), "every successful ping updates the app set", "a successful ping does not update cohort/user counting", Sr.nodes[a].loc())
    # daystart provenance in every AppResponse constructor
    n = 0
    for b in c.bodies:
        if not b["id"].startswith("omaha_client::state_machine"):
            continue
        v = BV.of(b)
        for bi in v.reach0:
            for s_ in v.blocks[bi]["s"]:
                if s_["k"] == "assign" and s_["r"]["k"] == "agg" and s_["r"].get("d") == "state_machine::update_check::AppResponse":
                    n += 1
                    t = v._trace_rv(s_["r"], None, 0)
                    uc = terms.render(v, t[3][t[4].index("user_counting")], W, {})
                    # resolve the captured daystart in the parent
                    par = W.bv(b["parent"]) if b.get("parent") else None
                    cap = ""
                    m_cap = re.fullmatch(r"param1\.(\d+)", uc)      # a captured variable, whatever its position among the captures
                    if par is not None and m_cap:
                        for pb in par.reach0:
                            for ps in par.blocks[pb]["s"]:
                                if ps["k"] == "assign" and ps["r"]["k"] == "agg" and ps["r"].get("id") == b["id"] and int(m_cap.group(1)) < len(ps["r"]["ops"]):
                                    cap = terms.render(par, par.trace_op(ps["r"]["ops"][int(m_cap.group(1))]), W, {})
                    # built directly in the flow (a `for` loop instead of map+collect): the value itself is the daystart
                    direct = uc
                    while True:
                        m_w = re.fullmatch(r"(?:from|into|clone|to_owned)\((.*)\)", direct)
                        if not m_w:
                            break
                        direct = m_w.group(1)
                    R.check("C09-R3", "daystart:" + (W.by_id[b["parent"]]["item"] if b.get("parent") and W.by_id[b["parent"]].get("item") else b["id"].split("::")[-3]), (bool(m_cap) and cap.endswith(".daystart")) or (direct.endswith(".daystart") and "parse_omaha_response(" in direct),
                            "user_counting <- response.daystart", "AppResponse.user_counting <- %s (%s)" % (uc, cap[-60:]), lib.loc(v, bi))
    R.floor("C09-R3", "AppResponse constructors", n, 2)
    fr = [b for b in lib.bodies(c, item="from", impl_self="common::UserCounting", impl_trait="std::convert::From")]
    if R.floor("C09-R3", "From<Option<DayStart>> for UserCounting", len(fr), 1):
        fv = BV.of(fr[0])
        sw = [x for x in sorted(fv.reach0) if fv.blocks[x]["t"]["k"] == "switch" and len(fv.succ[x]) > 1]
        if sw:
            si, arms = terms.arm_terms(fv, sw[0])
            got = {k: terms.render(fv, v_, W, {}) for k, v_ in arms.items()}
            exp = {"Some": "ClientRegulatedByDate{param1@Some.0.elapsed_days}", "None": "ClientRegulatedByDate{None{}}"}
            R.check("C09-R3", "daystart-conversion", got == exp, str(got), "daystart converts to %s, expected %s" % (got, exp))

    # ---------------------------------------------------------------- R4 wire and storage provenance
    R.rule("C09-R4", "requests carry the app's cohort and both ping dates from its user-counting day; App::persist stores {cohort, user_counting} of the app under its id and App::load reads the same key and type")
    fa = [b for b in lib.bodies(c, item="from", impl_self="protocol::request::App", impl_trait="std::convert::From")]
    if R.floor("C09-R4", "From<AppEntry> for protocol::request::App", len(fa), 1):
        fv = BV.of(fa[0])
        ret = fv.trace_local(0)
        agg = [x for x in walk(ret) if x[0] == "agg" and x[2] == "protocol::request::App::App"]
        if agg:
            names = agg[0][4]
            co = terms.render(fv, agg[0][3][names.index("cohort")], W, {})
            R.check("C09-R4", "wire-cohort", co == "Some{param1.app.cohort}", co, "request cohort <- " + co)
            from .. import optnorm
            pg = optnorm.option_desc(W, fv, agg[0][3][names.index("ping")])
            R.check("C09-R4", "wire-ping", pg == "None|Some{Ping{param1.app.user_counting@ClientRegulatedByDate.0, param1.app.user_counting@ClientRegulatedByDate.0}}", pg, "ping dates are %s, expected ad = rd = user_counting day" % pg)
    # a present field is written whatever its content (an empty cohort the server assigned is still sent and stored); absent fields are left out
    from .. import schema as _schema
    cs = _schema.ser_schema(W, c, "protocol::Cohort")
    got_c = [[it.get("key"), it.get("skip_if")] for it in (cs or {}).get("items", [])]
    R.check("C09-R4", "cohort-fields-serialised-when-present", got_c == [["cohort", "None"], ["cohorthint", "None"], ["cohortname", "None"]], str(got_c),
            "Cohort (request wire format and persisted record) serialises as %s: a field is dropped although it is set" % got_c)
    ds = _schema.de_schema(W, c, "protocol::Cohort")
    if ds is None or ds.get("kind") != "struct":
        R.inconclusive("C09-R4", "cohort-fields-read-by-their-own-name", "no derived struct Deserialize for protocol::Cohort")
    else:
        keys_ = [f_["key"] for f_ in ds["fields"]]
        R.check("C09-R4", "cohort-fields-read-by-their-own-name", keys_ == ["cohort", "cohorthint", "cohortname"] and sorted(ds.get("identifiers") or keys_) == sorted(keys_) and ds.get("constructs") == ["id", "hint", "name"],
                "cohort/cohorthint/cohortname -> id/hint/name, no other spelling", "Cohort is read from keys %s (visitor answers to %s) into %s: another attribute can be taken for a cohort field" % (keys_, ds.get("identifiers"), ds.get("constructs")))
    pf = [b for b in lib.bodies(c, item="from", impl_self="common::PersistedApp", impl_trait="std::convert::From")]
    if R.floor("C09-R4", "From<&App> for PersistedApp", len(pf), 1):
        s_ = terms.render(BV.of(pf[0]), BV.of(pf[0]).trace_local(0), W, {})
        R.check("C09-R4", "persisted-fields", s_ == "PersistedApp{param1.cohort, param1.user_counting}", s_, "PersistedApp is built as " + s_)
    pe = [b for b in c.bodies if b["kind"] == "coroutine" and b["id"].endswith("::persist::{closure#0}") and W.by_id.get(b.get("parent"), {}).get("impl_self") == "common::App"]
    if R.floor("C09-R4", "App::persist", len(pe), 1) and ld:
        pv = BV.of(pe[0])
        st = [(bi, t) for bi, t in pv.calls() if t.get("trait") == "storage::Storage"]
        ok = len(st) == 1 and st[0][1]["name"] == "set_string"
        det = ""
        if ok:
            k = terms.render(pv, pv.trace_op(st[0][1]["args"][1]), W, {})
            v = terms.render(pv, pv.trace_op(st[0][1]["args"][2]), W, {})
            det = "set_string(%s, %s)" % (k, v)
            ok = k == "param1.0.id" and v == "to_string::<common::PersistedApp>(from(param1.0))@Ok.0".replace("to_string::<common::PersistedApp>", "to_string") or (k == "param1.0.id" and "to_string(" in v and v.endswith("@Ok.0"))
        R.check("C09-R4", "persist-key-and-value", ok, det, "App::persist does not store json(PersistedApp::from(self)) under self.id: " + det)
        lv = BV.of(ld[0])
        gt = [(bi, t) for bi, t in lv.calls() if t.get("trait") == "storage::Storage"]
        ok = len(gt) == 1 and gt[0][1]["name"] == "get_string" and terms.render(lv, lv.trace_op(gt[0][1]["args"][1]), W, {}) == "param1.0.id"
        fs = [(bi, t) for bi, t in lv.calls() if lib.callee_is(t, "serde_json::from_str")]
        ty = [c.types[s_]["s"] for bi, t in fs for s_ in t.get("substs", []) if isinstance(s_, int)]
        R.check("C09-R4", "load-key-and-type", ok and ty == ["common::PersistedApp"], "get_string(self.id) -> from_str::<PersistedApp>", "App::load reads %s as %s" % ([t["name"] for _, t in gt], ty))

    # ---------------------------------------------------------------- R5 the apps are committed with the check's result
    R.rule("C09-R5", "after an updated app set, every path to the commit that ends the check (or the ping) passes AppSetExt::persist, and AppSetExt::persist visits every app (loop left only by iterator exhaustion)")
    ucr = [x for x in sm.yields(S, "UpdateCheckResult") if S.nodes[x].ctx is root]
    cm = sm.env(S, "Storage", "commit")
    ap = sm.calls(S, "app_set::AppSetExt::persist")
    if R.floor("C09-R5", "final result event", len(ucr), 1) and R.floor("C09-R5", "AppSetExt::persist calls in a check", len(ap), 1):
        after = reach(S, S.succ[ucr[0]])
        cma = [x for x in cm if x in after]
        R.check("C09-R5", "check-apps-persisted-before-commit", cma and not (set(cma) & reach(S, S.succ[ucr[0]], cut_nodes=ap)), "the final commit of a check is always preceded by AppSetExt::persist",
                "the final commit of a check can be reached without persisting the app set (cohort/user counting are lost on restart)")
        R.check("C09-R5", "check-commit-always", cma and not (set(root.returns) & reach(S, S.succ[ucr[0]], cut_nodes=cma)), "every finished check commits", "a finished check can return without commit")
    if pcs:
        pc = pcs[0]
        pap = [x for x in sm.calls(Sr, "app_set::AppSetExt::persist") if smod.descends(Sr.nodes[x].ctx, pc)]
        pcm = [x for x in sm.env(Sr, "Storage", "commit") if smod.descends(Sr.nodes[x].ctx, pc)]
        if R.floor("C09-R5", "AppSetExt::persist calls in the ping", len(pap), 1) and R.floor("C09-R5", "commits in the ping", len(pcm), 1):
            for x in pupd:
                fin = [y for y in pcm if y in reach_in(Sr, [x], pc)]
                R.check("C09-R5", "ping-apps-persisted-before-commit", fin and not (set(fin) & reach_in(Sr, [x], pc, cut_nodes=pap)) and not (set(pc.returns) & reach_in(Sr, [x], pc, cut_nodes=fin)),
                        "after a successful ping the updated apps are persisted and committed", "after a successful ping the commit can be reached without persisting the app set, or the ping returns without commit", Sr.nodes[x].loc())
    pb = [b for b in c.bodies if b["kind"] == "coroutine" and "app_set::AppSetExt::persist" in b["id"].replace("omaha_client::", "")]
    if R.floor("C09-R5", "AppSetExt::persist body", len(pb), 1):
        pv = BV.of(pb[0])
        calls_ = [(bi, t) for bi, t in pv.calls() if (t.get("callee") or "").endswith("App::persist") or t.get("name") == "persist"]
        loops = pv.sccs()
        ok = len(calls_) == 1 and any(calls_[0][0] in L_ for L_ in loops)
        det = ""
        if ok:
            L_ = [x for x in loops if calls_[0][0] in x][0]
            exits = [(a, b) for a in L_ for b in pv.succ[a] if b not in L_]
            nexts = [bi for bi, t in pv.calls() if bi in L_ and lib.callee_is(t, "std::iter::Iterator::next")]
            src = [terms.render(pv, pv.trace_op(t["args"][0]), W, {}) for bi, t in pv.calls() if bi in L_ and lib.callee_is(t, "std::iter::Iterator::next")]
            det = "loop over %s, %d exit edge(s)" % (src, len(exits))
            ok = len(exits) == 1 and len(nexts) == 1 and all("get_apps(" in s_ and "filter" not in s_ and "skip" not in s_ and "take" not in s_ for s_ in src)
            if ok:
                si = guards.switch_info(pv, exits[0][0])
                ok = si is not None and "None" in si.edge_names(pv, exits[0][1])
            if ok:
                # no app is skipped: from the element edge of next() every way back to next() passes App::persist
                some_t = [b_ for b_ in pv.succ[exits[0][0]] if b_ in L_]
                back = [b_ for b_ in pv.reach_from(some_t, avoid=[calls_[0][0]]) if b_ in nexts]
                if back:
                    ok = False
                    det += "; an app can be skipped (a path through the loop body avoids App::persist)"
        R.check("C09-R5", "persist-visits-every-app", ok, "App::persist awaited for every app of get_apps(): " + det, "AppSetExt::persist does not persist every app: " + det)


def _is_ping(ctx):
    return lib.is_ping_body(ctx.bv)
