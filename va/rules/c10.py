"""C10 — Every update outcome is reported to Omaha exactly once."""
from ..core import BV, strip, walk, fmt_t
from .. import lib, guards, sm as smod, terms
from ..sm import reach, path, reach_in, reach_pf
from .c04 import result_edges, cond_desc

UD = "policy::UpdateDecision"
AIR = "installer::AppInstallResult"
DEFERRED_EVENT = "Event{UpdateComplete{}, UpdateDeferred{}, default().errorcode, default().previous_version, default().next_version, default().download_time_ms}"


def run(F, R):
    sm = smod.get(F)
    c = sm.c
    S = sm.S_check
    W = sm.w
    smod.preconditions(sm, R, "C10-pre")
    R.trust("Installer contract: one result per offered app, in response order; HashMap::get; Iterator::zip/filter preserve order")
    R.assume("whether an undeliverable multi-app report counts as one or several lost events is not decided (C10-R4 checks one metric per failed helper report, one per listed event in the per-app report)")
    R.count("supergraph_nodes", len(S.live))
    entry = S.root.entry
    comps = smod.sccs(S, S.live)
    reqs = sm.env(S, "Http", "request")
    L = [L_ for L_ in comps if any(r in L_ for r in reqs)]
    if not R.floor("C10-R1", "attempt loop", len(L), 1):
        return
    L = L[0]
    hdr = min((S.nodes[v].ctx for v in L), key=lambda cx: cx.depth)
    hb = hdr.bv
    rets = set(hdr.returns)

    # report helper calls (local async fn taking an Event) made from the check flow
    helper_calls = []
    for n in S.nodes:
        if n.idx in S.live and n.term["k"] == "call" and n.ctx is hdr:
            cid = n.term.get("callee_id")
            if cid in W.by_id and W.by_id[cid].get("async") and any(c.types[i]["s"] == "protocol::request::Event" for i in W.by_id[cid].get("inputs", [])):
                ev_idx = [k for k, i in enumerate(W.by_id[cid]["inputs"]) if c.types[i]["s"] == "protocol::request::Event"][0]
                helper_calls.append((n.idx, ev_idx))
    R.floor("C10-R1", "event-report helper calls", len(helper_calls), 6)
    parse_err = result_edges(S, sm, "parse_", "Err", hdr)
    plan_err = result_edges(S, sm, "try_create_install_plan", "Err", hdr)
    ud = {v: [(a, b) for (a, b, nm) in sm.outcome_edges(S, UD, v)] for v in ("Ok", "DeferredByPolicy", "DeniedByPolicy")}
    inst_nonempty = [(a, b) for (a, b, tr) in sm.bool_edges(S, lambda n, t: n.ctx is hdr and t[0] == "call" and t[1].endswith("::is_empty") and "&common::App" in [hb.crate.types[x]["s"] for x in hb.blocks[t[3]]["t"].get("substs", []) if isinstance(x, int)][:1]) if not tr]

    # ---------------------------------------------------------------- R1 arm -> event table
    R.rule("C10-R1", "each outcome reaches exactly one report carrying the event the property names (and none of the others); download-started precedes perform_install; update-complete iff some app installed")
    table = [
        ("error(ParseResponse{})", parse_err, "parse-error"),
        ("error(ConstructInstallPlan{})", plan_err, "plan-error"),
        (DEFERRED_EVENT, ud["DeferredByPolicy"], "deferred"),
        ("error(DeniedByPolicy{})", ud["DeniedByPolicy"], "denied"),
        ("success(UpdateDownloadStarted{})", ud["Ok"], "download-started"),
        ("success(UpdateComplete{})", inst_nonempty, "update-complete"),
    ]
    rendered = {}
    alts = {}
    for (x, ev_idx) in helper_calls:
        nd = S.nodes[x]
        tm_ = hb.trace_op(nd.term["args"][ev_idx])
        rendered[x] = terms.render(hb, tm_, W, {})
        alts[x] = [terms.render(hb, a_, W, {}) for a_ in tm_[1]] if tm_[0] == "phi" else [rendered[x]]
    exps_ = set(e_[0] for e_ in table)
    # one call site that reports one of several listed events (the arms chose the event, a shared tail sends it)
    merged = set(x for x in alts if len(alts[x]) > 1 and all(a_ in exps_ for a_ in alts[x]))
    used = set()
    for (exp, edges, tag) in table:
        sites = [x for x, r in rendered.items() if r == exp]
        used |= set(sites)
        if not sites and any(exp in alts[x] for x in merged):
            used |= set(x for x in merged if exp in alts[x])
            R.inconclusive("C10-R1", "event:" + tag, "the %s event is chosen in one place and sent by a call site shared with other listed events; which outcome sends which event is not decided for that spelling" % tag)
            continue
        if not R.check("C10-R1", "event:" + tag, len(sites) == 1, "one report site with %s" % exp[:60], "%d report sites carry %s (all events: %s)" % (len(sites), exp[:60], sorted(set(rendered.values())))):
            continue
        if not R.floor("C10-R1", "outcome edges for " + tag, len(edges), 1):
            continue
        r_ = reach(S, [entry], cut_edges=edges)
        R.check("C10-R1", "only-under:" + tag, sites[0] not in r_, "reported only under its outcome", "the %s report is reachable on another outcome" % tag, S.nodes[sites[0]].loc())
        for (a, b) in edges:
            miss = reach_pf(S, [b], cut_nodes=sites) & rets
            R.check("C10-R1", "always-under:" + tag, not miss, "always reported under its outcome", "the %s outcome can finish without its report" % tag, S.nodes[a].loc())
            others = [x for x in rendered if x not in sites and x in reach_pf(S, [b])]
            if tag in ("parse-error", "plan-error", "deferred", "denied"):
                R.check("C10-R1", "no-other-report:" + tag, not others, "no other report on this outcome", "the %s outcome also sends %s" % (tag, [rendered[x][:40] for x in others]), S.nodes[a].loc())
    extra = [rendered[x] for x in rendered if x not in used]
    R.check("C10-R1", "no-unlisted-report", not extra, "all helper reports are in the table", "reports not named by the property: %s" % extra)
    pi = sm.env(S, "Installer", "perform_install")
    ds = [x for x, r in rendered.items() if r == "success(UpdateDownloadStarted{})"]
    if pi and ds:
        R.check("C10-R1", "download-started-before-install", not (set(pi) & reach(S, [entry], cut_nodes=ds)), "perform_install is dominated by the download-started report", "perform_install can run before the download-started report")
    # whether some app installed is always decided once the installer has run (an early exit for the failed apps must not
    # skip the update-complete report of the apps that did install)
    dec = sorted(set(a for (a, b) in inst_nonempty))
    if pi and dec:
        for x in pi:
            miss = reach_pf(S, S.succ[x], cut_nodes=dec) & rets
            R.check("C10-R1", "update-complete-decided-after-every-install", not miss, "every path from perform_install to the end of the check tests whether some app installed",
                    "after perform_install the check can end without deciding on the update-complete report (apps that installed next to a failed one are never reported)", S.nodes[x].loc())
    # apps argument of the final UpdateComplete: exactly the installed list
    for (x, ev_idx) in helper_calls:
        if rendered[x] == "success(UpdateComplete{})":
            nd = S.nodes[x]
            apps_t = terms.render(hb, hb.trace_op(nd.term["args"][ev_idx + 1]), W, {})
            R.check("C10-R1", "update-complete-apps", apps_t == "new()" , "apps <- the installed list (a Vec built here)", "update-complete is reported for %s" % apps_t[:80], nd.loc())
    # per-app event table
    sw = None
    for bi in sorted(hb.reach0):
        si = guards.switch_info(hb, bi)
        if si and si.kind == "discr" and si.ty.get("d") == AIR and len(hb.succ[bi]) > 1:
            sw = bi
    if sw is None:
        R.inconclusive("C10-R1", "per-app-table", "no match on AppInstallResult in the check flow")
    else:
        # local holding the per-app event: operand of the functional update Event{.., ..event}
        ev_local = None
        for bi in sorted(hb.reach_from([sw])):
            for s_ in hb.blocks[bi]["s"]:
                if s_["k"] == "assign" and s_["r"]["k"] == "agg" and s_["r"].get("d") == "protocol::request::Event":
                    if "to_string(" not in terms.render(hb, hb._trace_rv(s_["r"], None, 0), W, {}):
                        continue
                    for o in s_["r"]["ops"]:
                        pl = o.get("m") or o.get("c")
                        if pl and pl.get("p") and pl["p"][0]["k"] == "field" and ev_local is None:
                            ev_local = pl["l"]
        if ev_local is None:
            R.inconclusive("C10-R1", "per-app-table", "per-app event local not found")
        else:
            si, arms = terms.arm_terms(hb, sw, ev_local)
            got = {k: terms.render(hb, v, W, {}) for k, v in arms.items()}
            exp = {"Installed": "success(UpdateDownloadFinished{})", "Deferred": DEFERRED_EVENT, "Failed": "error(Installation{})"}
            R.check("C10-R1", "per-app-table", got == exp, str({k: v[:40] for k, v in got.items()}), "per-app events are %s, expected %s" % (got, exp), lib.loc(hb, sw))
            # installed_apps.push exactly in the Installed arm
            pushes = [bi for bi, t in hb.calls() if lib.callee_is(t, "push") and "&common::App" in [c.types[x]["s"] for x in t.get("substs", []) if isinstance(x, int)][:1]]
            ok = False
            for tgt in hb.succ[sw]:
                if "Installed" in si.edge_names(hb, tgt):
                    others = [x for x in hb.succ[sw] if x != tgt]
                    ok = len(pushes) == 1 and pushes[0] in hb.reach_from([tgt]) and pushes[0] not in hb.reach_from(others, avoid=[sw])
                    if not ok and len(pushes) == 1 and pushes[0] in hb.reach_from([tgt]):
                        # the arms may only choose a flag (`(event, true)`) that a later test consumes: decide on the paths that
                        # are feasible given what each arm built (path-sensitive facts of the event skeleton)
                        nodes_of = lambda b_: [n_.idx for n_ in S.nodes if n_.ctx.bv is hb and n_.bi == b_ and n_.idx in S.live]
                        swn, pn = nodes_of(sw), nodes_of(pushes[0])
                        if swn and pn:
                            feas_in = all(any(p_ in reach_pf(S, [e_]) for p_ in pn) for s_ in swn for e_ in S.succ[s_] if S.nodes[e_].bi == tgt)
                            feas_out = any(p_ in reach_pf(S, [e_], cut_nodes=swn) for s_ in swn for e_ in S.succ[s_] if S.nodes[e_].bi in others for p_ in pn)
                            ok = feas_in and not feas_out
            R.check("C10-R1", "installed-list", ok, "installed_apps.push exactly in the Installed arm", "the installed list is not extended exactly for Installed apps")

    # ---------------------------------------------------------------- R2 ids
    R.rule("C10-R2", "every report of a check uses session_id = the check's one GUID::new() and a request_id(GUID::new()) applied immediately before its own send")
    sid_nodes = [n for n in S.nodes if n.idx in S.live and n.term["k"] == "call" and (n.term.get("callee") or "").endswith("RequestBuilder::<'a>::session_id")]
    chk_sid = [n for n in sid_nodes if n.ctx is hdr and reqs and any(r in reach(S, [n.idx]) for r in reqs if r in L)]
    base = None
    for n in sid_nodes:
        if n.ctx is hdr:
            t = S.trace(n, n.term["args"][1])
            hs = [x for x in walk(t) if x[0] == "call" and x[1].endswith("GUID::new")]
            if len(hs) == 1 and base is None:
                base = hs[0]
    if base is None:
        R.inconclusive("C10-R2", "session-guid", "the check's session GUID (GUID::new() passed to session_id in the check flow) was not found")
    if R.floor("C10-R2", "session_id applications", len(sid_nodes), 3) and base is not None:
        site = [x.idx for x in S.nodes if x.ctx is hdr and x.bi == base[3]]
        R.check("C10-R2", "session-created-once", site and site[0] not in L and not any(site[0] in L_ for L_ in comps), "the session GUID is created once, outside any loop", "the session GUID is created inside a loop")
        for n in sid_nodes:
            t = S.trace(n, n.term["args"][1])
            hs = [x for x in walk(t) if x[0] == "call" and x[1].endswith("GUID::new")]
            ok = len(hs) == 1 and hs[0][3] == base[3]
            R.check("C10-R2", "session:" + _ctxkey(n.ctx), ok, "session id <- the check's GUID", "this report uses a different session id: %s" % fmt_t(t)[:100], n.loc())
    exch = [n for n in S.nodes if n.idx in S.live and n.term["k"] == "call" and n.term.get("callee_id") in W.by_id and W.bv(n.term["callee_id"] + "::{closure#0}") is not None and lib.calls_verify_response(W.bv(n.term["callee_id"] + "::{closure#0}"))]
    R.floor("C10-R2", "exchange call sites", len(exch), 3)
    transformers = ("add_update_check", "add_ping", "add_event", "request_id", "session_id")
    for n in exch:
        cx = n.ctx
        rid = [m.idx for m in S.nodes if m.ctx is cx and m.idx in S.live and m.term["k"] == "call" and (m.term.get("callee") or "").endswith("RequestBuilder::<'a>::request_id")]
        sid = [m.idx for m in S.nodes if m.ctx is cx and m.idx in S.live and m.term["k"] == "call" and (m.term.get("callee") or "").endswith("RequestBuilder::<'a>::session_id")]
        tr = [m.idx for m in S.nodes if m.ctx is cx and m.idx in S.live and m.term["k"] == "call" and (m.term.get("callee") or "").startswith("request_builder::RequestBuilder") and m.term.get("name") in transformers]
        key = _ctxkey(cx) + ":" + str(sorted(x.idx for x in exch if x.ctx is cx).index(n.idx))
        dom = n.idx not in reach_in(S, [cx.entry], cx, cut_nodes=rid)
        dom_s = n.idx not in reach_in(S, [cx.entry], cx, cut_nodes=sid)
        R.check("C10-R2", "ids-dominate-send:" + key, dom and dom_s, "request_id and session_id applied on every path to the send", "a send can happen without request_id/session_id being set", n.loc())
        fresh = False
        for r in rid:
            if n.idx in reach_in(S, [r], cx) and n.idx not in reach_in(S, [cx.entry], cx, cut_nodes=[r]):
                t = strip(S.nodes[r].ctx.bv.trace_op(S.nodes[r].term["args"][1]))
                between = reach_in(S, S.succ[r], cx, cut_nodes=[n.idx])
                if (t[0] == "call" and t[1].endswith("GUID::new")) and not [x for x in tr if x in between and x not in sid]:
                    fresh = True
        R.check("C10-R2", "fresh-request-id:" + key, fresh, "request_id(GUID::new()) is the last change to the builder before the send", "the request id is not a GUID::new() applied immediately before the send", n.loc())

    # ---------------------------------------------------------------- R3 versions and filtering
    R.rule("C10-R3", "each reported event carries previous_version = the app's current version and next_version = the offered manifest version; the helper reports only apps present in the offered-update map, whose keys are the response apps with status ok")
    helper_ids = set(S.nodes[x].term["callee_id"] + "::{closure#0}" for x, _ in helper_calls)
    for hid in sorted(helper_ids):
        hv = W.bv(hid)
        adds = [(bi, t) for bi, t in hv.calls() if lib.callee_is(t, "add_event")]
        if not adds and _chain_form(R, W, c, hv):
            continue
        if not R.floor("C10-R3", "add_event in the report helper", len(adds), 1):
            continue
        bi, t = adds[0]
        ev = terms.render(hv, hv.trace_op(t["args"][2]), W, {})
        app = terms.render(hv, hv.trace_op(t["args"][1]), W, {})
        exp = "Event{EVENT.event_type, EVENT.event_result, EVENT.errorcode, Some{to_string(APP.version)}, get(NV, APP.id)@Some.0, and_then(DUR, |$1| ok(try_into::<u64>(as_millis($1))))}"
        # identify parameter roles by type
        inputs = W.by_id[hv.body["parent"]]["inputs"]
        role = {}
        for k, i in enumerate(inputs):
            s_ = c.types[i]["s"]
            if s_ == "protocol::request::Event":
                role["EVENT"] = "param1.%d" % k
            elif "HashMap" in s_:
                role["NV"] = "param1.%d" % k
            elif "Option<std::time::Duration>" in s_:
                role["DUR"] = "param1.%d" % k
        e2 = exp.replace("APP", app)
        for k, v in role.items():
            e2 = e2.replace(k, v)
        R.check("C10-R3", "helper-event-fields", ev == e2, ev[:160], "the helper builds %s, expected %s" % (ev, e2), lib.loc(hv, bi))
        # guard: only for apps in the map
        someE = []
        for sb in sorted(hv.reach0):
            si = guards.switch_info(hv, sb)
            if si and si.kind == "discr" and si.ty.get("d") == "std::option::Option" and lib.head_call(si.term) and "HashMap::" in lib.head_call(si.term) and lib.head_call(si.term).endswith("::get"):
                for tgt in hv.succ[sb]:
                    if "Some" in si.edge_names(hv, tgt):
                        someE.append((sb, tgt))
        R.check("C10-R3", "helper-filters-by-map", someE and hv.dominated_by_edge(bi, someE), "add_event only for apps present in the offered-update map", "the helper adds events for apps that were not offered an update", lib.loc(hv, bi))
        R.check("C10-R3", "helper-app-is-loop-item", "next(into_iter(" in app, "event added to the app being iterated", "event is added to %s" % app[:80])
        # every app is considered: the loop over the apps ends only when the iterator is exhausted (an app without an offer is skipped, not the rest of the list)
        lp = [L_ for L_ in hv.sccs() if bi in L_]
        okx = len(lp) == 1
        if okx:
            for a_ in lp[0]:
                for b_ in hv.succ[a_]:
                    if b_ not in lp[0]:
                        si_ = guards.switch_info(hv, a_)
                        if not (si_ is not None and si_.kind == "discr" and (lib.head_call(si_.term) or "").endswith("Iterator::next") and si_.edge_names(hv, b_) == ["None"]):
                            okx = False
        R.check("C10-R3", "helper-visits-every-app", okx, "the report loop is left only by exhausting the app list", "the report loop can stop before the end of the app list: offered apps after that point are missing from the report", lib.loc(hv, bi))
    # inline per-app events
    inl = [(bi, t) for bi, t in hb.calls() if lib.callee_is(t, "add_event")]
    if R.floor("C10-R3", "per-app add_event in the check flow", len(inl), 1):
        bi, t = inl[0]
        ev = hb.trace_op(t["args"][2])
        evr = terms.render(hb, ev, W, {})
        okp = ", Some{to_string(" in evr and ".version)}" in evr and "get_manifest_version(" in evr
        pv = [x for x in walk(ev) if x[0] == "agg" and x[2] == "protocol::request::Event::Event"]
        det = ""
        if pv:
            names = pv[0][4]
            prev = terms.render(hb, pv[0][3][names.index("previous_version")], W, {})
            nxt = terms.render(hb, pv[0][3][names.index("next_version")], W, {})
            appr = terms.render(hb, hb.trace_op(t["args"][1]), W, {})
            det = "prev=%s next=%s" % (prev[:80], nxt[:80])
            okp = prev.startswith("Some{to_string(") and prev.endswith(".version)}") and "find(" in prev and nxt.startswith("get_manifest_version(") and "zip(" in nxt
        R.check("C10-R3", "per-app-event-fields", okp, det, "per-app event versions: " + det, lib.loc(hb, bi))
    # offered-update map keys
    for (x, ev_idx) in helper_calls:
        nd = S.nodes[x]
        r = rendered[x]
        nv_idx = [k for k, i in enumerate(W.by_id[nd.term["callee_id"]]["inputs"]) if "HashMap" in c.types[i]["s"]][0]
        nv = terms.render(hb, hb.trace_op(nd.term["args"][nv_idx]), W, {})
        if r == "error(ParseResponse{})":
            R.check("C10-R3", "map:parse-error", nv.endswith("(map(iter(param1.2), |$1| tuple{$1.id, None{}}))"), "all known apps, no next version", "parse-error report covers %s" % nv[-100:], nd.loc())
        else:
            ok = "map(iter(collect::<std::vec::Vec<&protocol::response::App>>(filter(iter(" in nv and nv.endswith("|$1| tuple{$1.id, get_manifest_version($1)}))")
            R.check("C10-R3", "map:" + r[:30], ok, "keys <- response apps with status ok; value <- manifest version", "offered-update map is %s" % nv[-160:], nd.loc())

    # ---------------------------------------------------------------- R4 lost events
    R.rule("C10-R4", "an undeliverable report is recorded as OmahaEventLost and nothing else: once in the helper, once per listed event in the per-app report")
    lost = sm.metrics(S, "OmahaEventLost")
    R.floor("C10-R4", "OmahaEventLost sites", len(lost), 2)
    inline_lost = [x for x in lost if S.nodes[x].ctx.parent is hdr or S.nodes[x].ctx is hdr]
    helper_lost = [x for x in lost if x not in inline_lost]
    for x in inline_lost:
        inloop = [L_ for L_ in comps if x in L_]
        ok = len(inloop) == 1
        it = ""
        if ok:
            # the loop iterates the `events` vector that received a push per add_event
            for y in inloop[0]:
                ny = S.nodes[y]
                if ny.ctx is hdr and ny.term["k"] == "call" and lib.callee_is(ny.term, "std::iter::Iterator::next"):
                    it = terms.render(hb, hb.trace_op(ny.term["args"][0]), W, {})
            pushes = [bi for bi, t in hb.calls() if lib.callee_is(t, "push") and "protocol::request::Event" in [c.types[z]["s"] for z in t.get("substs", []) if isinstance(z, int)][:1]]
            ok = "into_iter(" in it and len(pushes) == 1 and inl and pushes[0] in hb.reach_from([inl[0][0]]) and not [b for b in hb.reach_from([inl[0][0]], avoid=pushes) if b in [z for z, _ in inl]][1:]
        R.check("C10-R4", "per-app-lost-per-event", ok, "one OmahaEventLost per event of the failed per-app report (%s)" % it[:40], "the per-app report does not record one lost event per listed event", S.nodes[x].loc())
    for x in helper_lost[:1]:
        R.check("C10-R4", "helper-lost-once", not any(x in L_ for L_ in comps), "one OmahaEventLost per failed helper report", "the helper records lost events in a loop", S.nodes[x].loc())

    # not retried: the error arm of every report (helper or inline) performs no further request
    ORE = "state_machine::OmahaRequestError"
    n_arms = 0
    for cx in S.ctxs:
        if not (cx.bv.id in helper_ids or cx is hdr):
            continue
        for m in S.nodes:
            if m.ctx is cx and m.idx in S.live and m.term["k"] == "switch" and m.idx not in L:
                si = guards.switch_info(cx.bv, m.bi)
                if si and si.kind == "discr" and si.ty.get("d") == "std::result::Result" and ORE in si.ty.get("s", ""):
                    errs = [b for b in S.succ[m.idx] if "Err" in [si.names.get(l[2], str(l[2])) for l in S.elabel.get((m.idx, b), []) if l[0] == "switch"]]
                    oks = [b for b in S.succ[m.idx] if b not in errs]
                    if not errs:
                        continue
                    n_arms += 1
                    only = reach_in(S, errs, cx) - reach_in(S, oks, cx)
                    # every way out of the error arm records the loss (whatever the kind of error)
                    if cx.bv.id in helper_ids:
                        barrier = list(lost)
                    else:
                        # per-app report: one loss per listed event, i.e. the loop over the events is always entered
                        barrier = [y for x in inline_lost for L_ in comps if x in L_ for y in L_
                                   if S.nodes[y].term["k"] == "call" and lib.callee_is(S.nodes[y].term, "std::iter::Iterator::next")]
                    unrec = reach_in(S, errs, cx, cut_nodes=barrier) & set(cx.returns if cx.returns else S.root.returns)
                    if cx.bv.id in helper_ids or any(x in only for x in inline_lost):
                        R.check("C10-R4", "lost-on-every-error:" + _ctxkey(cx), not unrec, "every failed report, whatever the error, is counted as OmahaEventLost",
                                "a failed report can end without being counted as lost (some error kinds are skipped)", S.nodes[m.idx].loc())
                    again = [x for x in only if S.ev[x] and S.ev[x][0] == "env" and S.ev[x][1] == "Http"]
                    R.check("C10-R4", "not-retried:" + _ctxkey(cx), not again, "a failed report is not sent again", "a failed report is retried at %s" % [S.nodes[x].loc() for x in again], S.nodes[m.idx].loc())
    R.floor("C10-R4", "report error arms", n_arms, 6)

    # ---------------------------------------------------------------- R5 alignment shape
    R.rule("C10-R5", "per-app events pair the offered apps (response order, status ok) with the installer results by position")
    zips = [(bi, t) for bi, t in hb.calls() if lib.callee_is(t, "std::iter::Iterator::zip")]
    if R.floor("C10-R5", "zip of offered apps and installer results", len(zips), 1):
        bi, t = zips[0]
        a0 = terms.render(hb, hb.trace_op(t["args"][0]), W, {})
        a1 = terms.render(hb, hb.trace_op(t["args"][1]), W, {})
        ok = a0.startswith("iter(collect::<std::vec::Vec<&protocol::response::App>>(filter(iter(") and ".apps), " in a0 and ("join(" in a1 or "perform_install" in a1 or "poll(" in a1)
        R.check("C10-R5", "zip-operands", ok, "zip(apps_with_update.iter(), &app_install_results)", "zip(%s, %s)" % (a0[:80], a1[:80]), lib.loc(hb, bi))

    # ---------------------------------------------------------------- lock discipline (shared engine va/locks.py)
    R.rule("C10-R6", "a report cannot stall the check: no report is sent while a guard of a mutex that the exchange function itself takes (the storage mutex, when the poll interval changes) is held")
    from .. import locks as _locks
    _locks.check(R, "C10-R6", sm.w, [sm.c], floor_regions=12)


def _ctxkey(ctx):
    parts = []
    while ctx is not None:
        parts.append(ctx.bv.body.get("item") or ctx.bv.id.split("::")[-2])
        ctx = ctx.parent
    return "<".join(parts[:3])


def _chain_form(R, W, c, hv):
    """The report helper written as an iterator chain:
         apps.into_iter().filter_map(|app| <Some((app, next_versions.get(&app.id)..))>).fold(builder, |b, (app, nv)| b.add_event(app, Event{..}))
    Returns True when the shape was recognised (and judged), False when it is something else."""
    from .. import optnorm
    folds = [(bi, t) for bi, t in hv.calls() if lib.callee_is(t, "std::iter::Iterator::fold") and len(t.get("args", [])) == 3]
    for (fbi, ft) in folds:
        clo2 = optnorm._closure_of(hv.trace_op(ft["args"][2]))
        if clo2 is None or clo2[2] not in W.by_id:
            continue
        cb2 = W.bv(clo2[2])
        adds2 = [(bi, t) for bi, t in cb2.calls() if lib.callee_is(t, "add_event")]
        if len(adds2) != 1:
            continue
        src = lib.strip_refs(hv.trace_op(ft["args"][0]))
        chain = []
        x = src
        f1 = None
        while x[0] == "call":
            nm = lib.norm(x[1]).split("::")[-1]
            chain.append(nm)
            if nm == "filter_map" and len(x[2]) == 2:
                f1 = optnorm._closure_of(x[2][1])
            x = lib.strip_refs(x[2][0]) if x[2] else ("undef",)
        apps_src = lib.apath(x)
        APP = ("const", {"s": "APP", "t": None})
        inputs = W.by_id[hv.body["parent"]]["inputs"]
        role = {}
        for k, i in enumerate(inputs):
            s_ = c.types[i]["s"]
            if s_ == "protocol::request::Event":
                role["EVENT"] = "param1.%d" % k
            elif "HashMap" in s_:
                role["NV"] = "param1.%d" % k
            elif "Option<std::time::Duration>" in s_:
                role["DUR"] = "param1.%d" % k
            elif "App>" in s_ and ("IntoIterator" in s_ or "Vec<" in s_) or s_.endswith("App]"):
                role["APPS"] = "param1.%d" % k
        R.check("C10-R3", "helper-visits-every-app", chain == ["filter_map", "into_iter"] and f1 is not None and apps_src == role.get("APPS", "?"),
                "fold over filter_map over every app of the list", "the report is built from %s over %s: apps can be skipped for another reason than a missing offer" % (chain, apps_src), lib.loc(hv, fbi))
        if f1 is None or f1[2] not in W.by_id:
            return True
        cb1 = W.bv(f1[2])
        body1 = optnorm.simplify(lib.subst_params(optnorm._ann(cb1), [f1, APP]))
        lv = optnorm.leaves(W, cb1, body1)
        somes = [l for l in lv if l[0] == "some"]
        pair = None
        if len(somes) == 1 and not [l for l in lv if l[0] == "other"]:
            tp = lib.strip_refs(somes[0][1])
            if tp[0] == "agg" and tp[1] == "tuple" and len(tp[3]) == 2:
                pair = tp[3]
        nvr = optnorm.canon(terms.render(cb1, pair[1], W, {})) if pair else "?"
        want_nv = "get(%s, APP.id)@OK" % role.get("NV", "?")
        R.check("C10-R3", "helper-filters-by-map", pair is not None and lib.strip_refs(pair[0]) == APP and nvr.replace("&", "").replace("*", "") == want_nv,
                "an app is kept exactly when the offered-update map has an entry for its id", "the app filter yields %s for app APP (expected (APP, %s))" % (nvr[:100], want_nv), lib.loc(hv, fbi))
        R.check("C10-R3", "helper-app-is-loop-item", pair is not None and lib.strip_refs(pair[0]) == APP, "event added to the app being iterated", "the filter pairs the offer with another app")
        if pair is None:
            return True
        abi, at = adds2[0]
        ACC = ("const", {"s": "ACC", "t": None})
        tup = ("agg", "tuple", None, [APP, pair[1]], ["0", "1"])
        def up(term):
            return optnorm.simplify(lib.subst_params(terms.annotate_names(cb2, term), [clo2, ACC, tup]))
        ev = optnorm.canon(terms.render(cb2, up(cb2.trace_op(at["args"][2])), W, {}))
        appr = terms.render(cb2, up(cb2.trace_op(at["args"][1])), W, {})
        exp = "Event{EVENT.event_type, EVENT.event_result, EVENT.errorcode, Some{to_string(APP.version)}, get(NV, APP.id)@OK, and_then(DUR, |$1| ok(try_into::<u64>(as_millis($1))))}"
        for k, v in role.items():
            exp = exp.replace(k, v)
        norm = lambda z: z.replace("&", "").replace("*", "")
        R.check("C10-R3", "helper-event-fields", norm(ev) == norm(optnorm.canon(exp)) and appr.replace("&", "").replace("*", "") == "APP", ev[:160], "the helper builds %s for %s, expected %s for APP" % (ev, appr, exp), lib.loc(cb2, abi))
        return True
    return False
