"""C14 — No input can crash the updater; storage failures are harmless."""
import json, os, re, subprocess
from ..core import BV, strip, walk, fmt_t, is_logging_span
from .. import lib, guards, sm as smod, terms, census, intervals, facts
from ..sm import reach, path, reach_in, reach_pf

TEST_SUPPORT = ("::mock", "::stub", "::tests", "test_support", "::memory")
STORAGE_TRAITS = ("storage::Storage", "storage::StorageExt")
MUTATORS = ("set_string", "set_int", "set_bool", "set_option_int", "set_time", "remove", "remove_or_log", "commit", "commit_or_log")


def roots_of(sm):
    c = sm.c
    roots = [sm.start_co, sm.oneshot_co, sm.build_co, sm.handle_co, sm.run_co, sm.check_co]
    for b in c.bodies:
        if any(x in b["id"] for x in TEST_SUPPORT):
            continue
        nm = b["name"]
        if b["kind"] == "fn" and (nm == "protocol::response::parse_json_response" or nm.endswith("Version as std::str::FromStr>::from_str") or "system_time_conversion::" in nm):
            roots.append(b["id"])
        if b["kind"] == "fn" and (nm.startswith("<cup_ecdsa::StandardCupv2Handler as ") or nm.startswith("cup_ecdsa::StandardCupv2Handler::") or nm.startswith("<http::Uri as http_uri_ext::")):
            roots.append(b["id"])   # the stock CUP handler: response headers reach it as they came off the wire
        if b.get("trait_default") in ("storage::StorageExt", "app_set::AppSetExt"):
            roots.append(b["id"])
        it = lib.norm(b.get("impl_trait") or "")
        if any(k in it for k in ("serde::Serialize", "serde::Deserialize", "serde::de::Visitor", "serde::de::DeserializeSeed", "std::fmt::Display", "std::fmt::Debug")):
            roots.append(b["id"])
        if nm.startswith("state_machine::update_check::Context::") or nm.startswith("common::App::") or nm.startswith("request_builder::") or nm.startswith("<request_builder"):
            roots.append(b["id"])
    return [r for r in roots if r]


STD_ROOTS = ("core", "alloc", "std")


def foreign_calls(sm, reachable=None):
    """Third-party functions called from the bodies the census covers: {definition path}."""
    W = sm.w
    if reachable is None:
        reachable = census.reachable_bodies(W, roots_of(sm))
        reachable = set(r for r in reachable if not any(x in r for x in TEST_SUPPORT))
    own = set(b["id"].split("::")[0] for b in W.by_id.values())
    out = {}
    for bid in sorted(reachable):
        bv = W.bv(bid)
        for bi, t in bv.calls():
            if is_logging_span(t["sp"]):
                continue
            cid = t.get("resolved_id") or t.get("callee_id") or ""
            if not cid or cid in W.by_id:
                continue
            root = cid.split("::")[0]
            if root in STD_ROOTS or root in own:
                continue
            out.setdefault(cid, (bv, bi, t))
    return out


def op_type(bv, o):
    if "k" in o:
        return bv.crate.types[o["k"]["t"]]["s"]
    pl = o.get("m") or o.get("c")
    return bv.place_ty(pl)["s"]


def _anc(cx):
    while cx is not None:
        yield cx
        cx = cx.parent


def prove_overflow(bv, site, env):
    """Interval proof for an Overflow(op) assert: both operands bounded so that the result fits."""
    t = site["t"]
    ops = t.get("ops", [])
    if len(ops) != 2:
        return None
    op = t["msg"][len("Overflow("):-1]
    a = intervals.ival(bv.crate, bv.trace_op(ops[0]), env)
    b = intervals.ival(bv.crate, bv.trace_op(ops[1]), env)
    ty = op_type(bv, ops[0])
    rng = intervals.RANGES.get(ty)
    if a is None or b is None or rng is None:
        return None
    if op == "Add":
        lo, hi = a[0] + b[0], a[1] + b[1]
    elif op == "Sub":
        lo, hi = a[0] - b[1], a[1] - b[0]
    elif op == "Mul":
        c_ = [x * y for x in a for y in b]
        lo, hi = min(c_), max(c_)
    elif op == "Shl":
        bits = {"u8": 8, "u16": 16, "u32": 32, "u64": 64, "u128": 128, "usize": 64, "i8": 8, "i16": 16, "i32": 32, "i64": 64, "i128": 128, "isize": 64}[ty]
        if b[0] >= 0 and b[1] < bits:
            return "shift amount in %s < %d bits" % (b, bits)
        return None
    else:
        return None
    if rng[0] <= lo and hi <= rng[1]:
        return "%s of %s and %s stays in %s" % (op, a, b, ty)
    return None


_SHRINKS = ("remove", "pop", "clear", "truncate", "drain", "retain", "retain_mut", "swap_remove", "dedup", "dedup_by", "dedup_by_key", "split_off",
            "take", "replace", "swap", "set_len", "resize", "resize_with", "shrink_to", "extract_if")


def _len_after_push(bv, lt):
    """`lt` is the term of `Vec::len(&X)`: the call is immediately preceded (single-predecessor chain, nothing in between) by
    `Vec::push(&mut X, _)` on the same place, so the length is >= 1.  Returns X's term or None."""
    if not (lt[0] == "call" and lib.norm(lt[1]).endswith("Vec::<T, A>::len") and lt[2] and isinstance(lt[3], int)):
        return None
    x = strip(lt[2][0])
    ps = [p for p in bv.pred[lt[3]] if p in bv.reach0]
    if len(ps) != 1:
        return None
    pt = bv.blocks[ps[0]]["t"]
    if pt["k"] == "call" and lib.norm(pt.get("callee") or "").endswith("Vec::<T, A>::push") and pt["args"] and strip(bv.trace_op(pt["args"][0])) == x:
        return x
    return None


def _prove_len_minus_one(bv, site):
    """Overflow(Sub) of `v.len() - 1` right after `v.push(..)`."""
    ops = site["t"].get("ops", [])
    if len(ops) != 2 or lib.term_const(bv.crate, strip(bv.trace_op(ops[1]))) != 1:
        return None
    if _len_after_push(bv, strip(bv.trace_op(ops[0]))) is not None:
        return "len() - 1 immediately after push() on the same vector: the length is at least 1"
    return None


def _prove_index_found_or_last(bv, site):
    """`v[i]` where every alternative of i is either the payload of `v.iter().position(..)` or `v.len() - 1` right after
    `v.push(..)`, and nothing in the function shrinks v: both are in bounds."""
    args = site["t"].get("args", [])
    if len(args) < 2:
        return None
    x = strip(bv.trace_op(args[0]))
    if x[0] != "field":
        return None
    ix = strip(bv.trace_op(args[1]))
    alts = ix[1] if ix[0] == "phi" else [ix]
    kinds = set()
    for a in alts:
        a = strip(a)
        if a[0] == "field" and a[3] == 0 and strip(a[1])[0] == "downcast" and strip(a[1])[2] == "Some":
            pc = strip(strip(a[1])[1])
            if pc[0] == "call" and lib.norm(pc[1]) == "std::iter::Iterator::position" and pc[2]:
                it = strip(pc[2][0])
                if it[0] == "call" and lib.norm(it[1]).endswith(("::iter", "::iter_mut")) and x in [strip(y) for y in walk(it)]:
                    kinds.add("position")
                    continue
            return None
        if a[0] == "field" and a[3] == 0 and a[1][0] == "binop" and a[1][1] in ("SubWithOverflow", "Sub") and lib.term_const(bv.crate, strip(a[1][3])) == 1 \
                and _len_after_push(bv, strip(a[1][2])) == x:
            kinds.add("last-after-push")
            continue
        return None
    for _, t in bv.calls():
        if t["args"] and lib.norm(t.get("callee") or "").split("::")[-1] in _SHRINKS and x in [strip(y) for y in walk(bv.trace_op(t["args"][0]))]:
            return None
    if kinds:
        return "index is %s of the same vector, which this function never shrinks" % " / ".join(sorted(kinds))
    return None


def run(F, R):
    sm = smod.get(F)
    c = sm.c
    W = sm.w
    S = sm.S_check
    Sr = sm.S_run
    smod.preconditions(sm, R, "C14-pre")
    R.trust("dependencies (serde_json, http, hyper, futures, uuid, rand, tracing) do not panic on the inputs handed to them; embedder futures terminate")
    R.assume("hangs inside embedder code and panics inside dependencies are not decided; the census covers every body reachable from the public entry points and the serde/fmt impls of the crate's types")
    roots = roots_of(sm)
    reachable = census.reachable_bodies(W, roots)
    reachable = set(r for r in reachable if not any(x in r for x in TEST_SUPPORT))
    R.count("roots", len(roots))
    R.count("reachable_bodies", len(reachable))
    R.floor("C14-R1", "bodies reachable from the entry points", len(reachable), 300)
    allow = json.load(open(os.path.join(facts.VERIF, "tables", "panic_allowlist.json")))["entries"]
    allow_idx = {(e["site"], e["what"]): e for e in allow if e.get("crate", "omaha_client") == "omaha_client"}

    # environment for interval proofs: the attempt counter of the check loop
    comps = smod.sccs(S, S.live)
    reqs = sm.env(S, "Http", "request")
    L = [L_ for L_ in comps if any(r in L_ for r in reqs)]
    env_by_body = {}
    if L:
        L = L[0]
        hdr = min((S.nodes[v].ctx for v in L), key=lambda cx: cx.depth)
        hb = hdr.bv
        from .c06 import counter_sim
        for l, ds in hb.defs.items():
            if len(ds) == 2 and all(d[2] == "rv" for d in ds):
                t_in = [hb._trace_rv(d[3], frozenset([l]), 0) for d in ds]
                inc = [x for x in t_in if x[0] == "field" and x[1][0] == "binop" and x[1][1] == "AddWithOverflow" and x[1][2] == ("rec", l) and lib.term_const(c, x[1][3]) == 1]
                ini = [lib.term_const(c, x) for x in t_in if x[0] == "const"]
                if len(inc) == 1 and len(ini) == 1 and isinstance(ini[0], int):
                    # bound from the loop tests: the counter is only incremented past the false edge of `n >= MAX`
                    mx = None
                    for v in L:
                        nd = S.nodes[v]
                        if nd.ctx is hdr and nd.term["k"] == "switch" and hb.switch_subject(nd.bi) is None:
                            tt = strip(hb.trace_op(nd.term["o"]))
                            if tt[0] == "binop" and tt[1] == "Ge" and tt[2] == hb.trace_local(l):
                                k_ = lib.term_const(c, tt[3])
                                mx = k_ if mx is None else min(mx, k_)
                    if mx is not None:
                        entry_nodes = [v for v in L if any(p not in L for p in S.pred[v])]
                        req = [r for r in reqs if r in L][0]
                        nmax, _ = counter_sim(S, L, hdr, l, ini[0], req, entry_nodes)
                        if nmax is not None:
                            # at the increment and at the back-off computation the counter is < MAX (false edge), so n in [init, MAX-1]; after increment <= MAX
                            env_by_body[hb.id] = [(hb.trace_local(l), (ini[0], mx))]
                            env_by_body[hb.id + "#strict"] = [(hb.trace_local(l), (ini[0], mx - 1))]

    # ---------------------------------------------------------------- R1 panic census
    R.rule("C14-R1", "every panic-capable site reachable from the public entry points is proved safe by a rule (interval, dominance, type), allowlisted with one reason, or reported")
    sites = []
    for bid in sorted(reachable):
        bv = W.bv(bid)
        for s_ in census.panic_sites(bv):
            s_["bv"] = bv
            sites.append(s_)
    R.count("panic_capable_sites", len(sites))
    R.floor("C14-R1", "panic-capable sites", len(sites), 20)
    select_ok = _select_liveness(sm, Sr)
    nproved = nallow = 0
    used_allow = set()
    for s_ in sites:
        bv = s_["bv"]
        desc = s_["desc"]
        key = s_["key"]
        proof = None
        # 1. interval proofs
        if desc.startswith("assert:Overflow("):
            env = env_by_body.get(bv.id + "#strict", []) if bv.id in env_by_body else []
            proof = prove_overflow(bv, s_, env)
            if proof is None and bv.id in env_by_body:
                proof = prove_overflow(bv, s_, env_by_body[bv.id])
            if proof is None:
                proof = _param_env_proof(W, reachable, bv, s_, env_by_body)
            if proof is None and desc == "assert:Overflow(Sub)":
                proof = _prove_len_minus_one(bv, s_)
        elif desc == "assert:OverflowNeg":
            proof = census.prove_neg_nonneg(bv, s_)
        elif desc in ("assert:DivisionByZero", "assert:RemainderByZero"):
            proof = _nonzero_divisor(W, reachable, bv, s_, env_by_body)
        elif desc == "assert:BoundsCheck":
            proof = _bounds_proof(bv, s_)
        elif desc == "api:Index::index":
            proof = _slice_after_prefix(bv, s_)
        elif desc in ("api:slice::split_at_mut", "api:slice::copy_from_slice", "api:slice::split_at"):
            proof = _array_prefix_proof(bv, s_)
        elif desc == "api:IndexMut::index_mut" and _array_prefix_proof(bv, s_):
            # parts[..v.len()] on the zeroed [_; 4] with v: [_; N], N <= 4 by type
            ix = strip(bv.trace_op(s_["t"]["args"][1])) if len(s_["t"].get("args", [])) > 1 else ("undef",)
            if ix[0] == "agg" and (ix[2] or "").endswith("RangeTo") and len(ix[3]) == 1:
                e_ = strip(ix[3][0])
                if e_[0] == "call" and lib.norm(e_[1]).endswith("::len") and ("param", 1) in [strip(x) for x in walk(e_)]:
                    proof = _array_prefix_proof(bv, s_) + " (range ..v.len())"
        if proof is None and desc in ("api:IndexMut::index_mut", "api:Index::index") and len(s_["t"].get("args", [])) > 1:
            ix_ = strip(bv.trace_op(s_["t"]["args"][1]))
            if ix_[0] == "agg" and (ix_[2] or "").endswith("RangeFull"):
                proof = "x[..]: the full range is in bounds for every length"
        if proof is None and desc in ("api:IndexMut::index_mut", "api:Index::index"):
            proof = _prove_index_found_or_last(bv, s_)
        if proof is not None:
            pass
        elif desc == "panic:begin_panic" and W.is_select_closure(bv.id):
            proof = "select! keeps a live arm (C11-R5 typestate re-evaluated here)" if select_ok.get(bv.id) else None
        if proof:
            nproved += 1
            R.holds("C14-R1", key, "proved: " + proof)
            continue
        ak = (desc, census.site_what(W, bv, s_))
        e = allow_idx.get(ak)
        if e is None:
            # second chance: the only site of this kind in the function the entry was recorded for (its operand may be spelt
            # differently after a refactoring, e.g. produced by an async helper that is not inlined)
            same_fn = [e2 for e2 in allow if e2.get("crate", "omaha_client") == "omaha_client" and e2["site"] == desc and e2.get("seen_in") == bv.name]
            same_kind_here = [x for x in sites if x["bv"] is bv and x["desc"] == desc]
            if len(same_fn) == 1 and len(same_kind_here) == 1:
                e = same_fn[0]
                ak = (e["site"], e["what"])
        if e is None and s_["t"].get("k") == "call" and s_["t"].get("argt"):
            # third chance: the same operation on a receiver of the type the entry was written for, with the same literal
            # arguments (the vector may be a captured variable in a closure or a local of the loop that replaced it)
            rty = bv.crate.types[s_["t"]["argt"][0]]["s"] if isinstance(s_["t"]["argt"][0], int) else ""
            lits = "; ".join(str(lib.term_const(bv.crate, strip(bv.trace_op(a_)))) for a_ in s_["t"]["args"][1:])
            for e2 in allow:
                if e2.get("crate", "omaha_client") == "omaha_client" and e2["site"] == desc and e2.get("receiver_type") and e2["receiver_type"] in rty and e2.get("literal_args") == lits:
                    e = e2
                    ak = (e2["site"], e2["what"])
        if e:
            used_allow.add(ak)
            nallow += 1
            R.holds("C14-R1", key, "allowlisted: " + e["reason"])
            continue
        R.violation("C14-R1", key, "panic-capable site %s in %s is neither proved safe nor allowlisted" % (desc, bv.name), s_["loc"])
    # an allowlist entry that rests on a rule of another property is only as good as that rule's verdict here:
    # `update_finish_time.unwrap()` is safe because the report-once flag is set only under `is_some()` (C18-R4)
    if any(k[0] == "api:Option::unwrap" and "'update_finish_time'" in k[1] for k in used_allow):
        from . import c18 as _c18
        from .. import report as _report
        _c18.run(F, _report.SubsetAlias(R, {"C18-R4": "C14-R1"}, prefix="premise:C18-R4:", keys={"flag", "report-guarded-by-flag", "flag-set-only-if-finish-time"}))
    # `app_install_results.remove(0)` is safe because one result is consumed exactly for the apps that were offered to the
    # installer: the offered-update filter (C04-R2) and the per-app table of the result closure (C04-R3) use the same test
    if any(k[0] == "api:Vec::remove" for k in used_allow):
        from . import c04 as _c04
        from .. import report as _report
        _c04.run(F, _report.SubsetAlias(R, {"C04-R3": "C14-R1", "C04-R2": "C14-R1"}, prefix="premise:C04:", keys={"install-path-table", "offered-update-predicate"}))
    # third-party functions called from the covered code, against the set reviewed on the pinned tree (informational: a
    # new one has not been looked at for panics; census.PANIC_API lists the ones known to have a documented panic)
    try:
        tab_ = set(json.load(open(os.path.join(facts.VERIF, "tables", "foreign_calls.json")))["callees"])
        fc_ = foreign_calls(sm, reachable)
        new_ = sorted(set(fc_) - tab_)
        R.count("third_party_callees", len(fc_))
        R.holds("C14-R1", "third-party-callees", "%d third-party functions called, all reviewed" % len(fc_) if not new_ else
                "NOTE: %d third-party functions not in tables/foreign_calls.json (not reviewed for panics): %s" % (len(new_), new_[:6]), nontrivial=False)
    except (OSError, KeyError, ValueError):
        pass
    R.count("proved", nproved)
    R.count("allowlisted", nallow)
    stale = [k for k in allow_idx if k not in used_allow]
    # an entry whose site is gone excuses nothing; it is reported, not alarmed on (removing a panic site cannot break the property)
    R.holds("C14-R1", "allowlist-not-stale", "every allowlist entry names an existing site" if not stale else "NOTE: %d allowlist entries no longer match a site (harmless; prune tables/panic_allowlist.json): %s" % (len(stale), [k[1][:50] for k in stale]))

    # ---------------------------------------------------------------- R2 storage-result discipline
    R.rule("C14-R2", "the Result of every storage write/remove/commit is only logged, ignored or passed through by the StorageExt wrappers; it never reaches unwrap/expect and only storage operations are control-dependent on it")
    n_calls = 0
    for bid in sorted(reachable):
        bv = W.bv(bid)
        wrapper = bv.body.get("trait_default") in STORAGE_TRAITS
        for bi, t in bv.calls():
            if t.get("trait") not in STORAGE_TRAITS or t.get("name") not in MUTATORS:
                continue
            n_calls += 1
            key = "%s#%s#%d" % (bv.name, t["name"], len([1 for i in R.instances if i["rule"] == "C14-R2" and i["key"].startswith("%s#%s#" % (bv.name, t["name"]))]))
            uses = _result_uses(bv, bi, t)
            bad = [u for u in uses if u[0] in ("unwrap", "expect", "other-call", "stored")]
            if wrapper:
                bad = [u for u in bad if u[0] in ("unwrap", "expect")]
            R.check("C14-R2", key, not bad, "result uses: %s" % sorted(set(u[0] for u in uses)), "the result of %s is %s at %s" % (t["name"], [u[0] + ":" + u[1] for u in bad], [u[2] for u in bad]), lib.loc(bv, bi))
    R.floor("C14-R2", "storage write/remove/commit call sites", n_calls, 15)
    # control dependence: in the event skeleton, both arms of every test of a storage result contain storage effects only
    for (SS, tag) in ((Sr, "run"),):
        seen = set()
        for (a, b, nm) in sm.outcome_edges(SS, "std::result::Result") + sm.outcome_edges(SS, "std::ops::ControlFlow"):
            nd = SS.nodes[a]
            si = guards.switch_info(nd.ctx.bv, nd.bi)
            h = lib.head_call(si.term) or ""
            if not (h.startswith("storage::Storage")):
                continue
            if nd.ctx.bv.body.get("trait_default") in STORAGE_TRAITS:
                continue
            k = (nd.ctx.bv.id, nd.bi)
            if k in seen:
                continue
            seen.add(k)
            succs = SS.succ[a]
            regions = [reach_in(SS, [x], nd.ctx) for x in succs]
            for i_, x in enumerate(succs):
                only = regions[i_] - set().union(*[regions[j] for j in range(len(succs)) if j != i_])
                evs = [SS.ev[y] for y in only if SS.ev[y]]
                bad = [e for e in evs if not (e[0] == "env" and e[1] == "Storage")]
                # writes to the machine's own state (self.context...) must not depend on a storage result either
                for y in only:
                    ny = SS.nodes[y]
                    pls = [s_["p"] for s_ in ny.block["s"] if s_["k"] == "assign"] + ([ny.term["dest"]] if ny.term["k"] == "call" else [])
                    for pl in pls:
                        ch = smod._chain(pl)
                        if "context" in ch:
                            bad.append(("write", ".".join(ch), ny.loc()))
                        elif ch and pl.get("p") and pl["p"][0]["k"] == "deref":
                            # a write through a reference parameter (e.g. `self.state.x = ..` inside a Context method)
                            root = ny.ctx.bv.trace_local(pl["l"])
                            while root[0] in ("ref", "deref", "field"):
                                root = root[1]
                            if root[0] == "param":
                                bad.append(("write", "(*param%d).%s" % (root[1], ".".join(ch)), ny.loc()))
                R.check("C14-R2", "control-dependence:%s#%d" % (nd.ctx.bv.name.split("::")[-2], i_), not bad, "only storage operations depend on this storage result",
                        "non-storage effects are control-dependent on a storage result: %s" % bad[:4], nd.loc())
            # the function's return value must not depend on it either (same provenance on all paths)
        R.count("storage_result_tests", len(seen))

    # storage reads inside a check or ping: a value read back after it was written in the same run differs when that write failed,
    # so the only keys read there are the ones whose values feed metrics alone (first-seen bookkeeping, install-attempt counter)
    READ_BACK_OK = {"install_plan_id", "update_first_seen_time", "consecutive_failed_install_attempts"}
    n_reads = 0
    for (SS, tag, pred) in ((S, "check", lambda n: True), (Sr, "ping", lambda n: any(lib.is_ping_body(cx_.bv) for cx_ in _anc(n.ctx)))):
        for n in SS.nodes:
            if n.idx not in SS.live or not SS.ev[n.idx] or SS.ev[n.idx][0] != "env" or SS.ev[n.idx][1] != "Storage" or not str(SS.ev[n.idx][2]).startswith("get") or not pred(n):
                continue
            n_reads += 1
            kt = strip(SS.trace(n, n.term["args"][1])) if len(n.term["args"]) > 1 else ("undef",)
            kv = lib.term_const(c, kt) if kt[0] == "const" else None
            kname = (n.ctx.bv.body.get("item") or n.ctx.bv.id.split("::")[-2])
            if kv is None and kt[0] != "const":
                # keyed by a value (an app id): App::load at build time only, never inside a check
                R.check("C14-R2", "read-back:%s:%s" % (tag, kname), False, "", "a check/ping reads storage under a computed key in %s: what is announced may depend on whether earlier writes succeeded" % kname, n.loc())
            else:
                R.check("C14-R2", "read-back:%s:%s" % (tag, kv), kv in READ_BACK_OK, "reads %r (feeds metrics / bookkeeping only)" % kv,
                        "a check/ping reads back storage key %r in %s: after a failed write of that key the run no longer behaves like one with working storage" % (kv, kname), n.loc())
    R.floor("C14-R2", "storage reads inside a check", n_reads, 2)

    # ---------------------------------------------------------------- R6 calendar formatting of times only inside logging
    R.rule("C14-R6", "the calendar rendering of wall times (chrono's DateTime::from(SystemTime), which panics outside about +/-262000 years) is reachable only through Display/Debug impls that are used inside logging statements; no error value, event or other eagerly built string formats a time that way")
    fmt_bodies = {}
    for b_ in c.bodies:
        if b_.get("item") == "fmt" and b_.get("impl_trait") in ("std::fmt::Display", "std::fmt::Debug") and b_.get("impl_self"):
            fmt_bodies[(b_["impl_trait"].split("::")[-1], lib.norm(b_["impl_self"]))] = b_

    def _fmt_targets(bv_):
        """(trait, type) pairs a body formats: Argument::new_display/new_debug::<T> and direct Display/Debug::fmt calls"""
        out_ = []
        for bi_, t_ in bv_.calls(reachable_only=False):
            cal_ = lib.norm(t_.get("callee") or "")
            if cal_.endswith("new_display") or cal_.endswith("new_debug"):
                for s_ in t_.get("substs", []):
                    if isinstance(s_, int):
                        ty_ = lib.norm(c.types[s_]["s"]).lstrip("&").replace("mut ", "")
                        out_.append(("Display" if cal_.endswith("new_display") else "Debug", ty_, bi_, t_))
            elif cal_ in ("std::fmt::Display::fmt", "std::fmt::Debug::fmt"):
                rb_ = W.by_id.get(t_.get("resolved_id") or "")
                if rb_ is not None and rb_.get("impl_self") and (rb_.get("impl_trait") or "").startswith("std::fmt::"):
                    out_.append((rb_["impl_trait"].split("::")[-1], lib.norm(rb_["impl_self"]), bi_, t_))
                else:
                    rs_ = lib.norm(t_.get("resolved") or "")
                    m_ = re.match(r"<(.*) as std::fmt::(Display|Debug)>::fmt", rs_) or re.search(r"impl std::fmt::(Display|Debug) for ([^>]+)>::fmt", rs_)
                    if m_:
                        g_ = m_.groups()
                        out_.append((g_[1], g_[0].lstrip("&"), bi_, t_) if g_[0] not in ("Display", "Debug") else (g_[0], g_[1].lstrip("&"), bi_, t_))
        return out_
    danger = set()
    for k_, b_ in fmt_bodies.items():
        if any("chrono::DateTime" in lib.norm(t_.get("resolved") or "") and lib.norm(t_.get("callee") or "").endswith("From::from") for _, t_ in BV.of(b_).calls(reachable_only=False)):
            danger.add(k_)
    for _ in range(8):
        grew = False
        for k_, b_ in fmt_bodies.items():
            if k_ in danger:
                continue
            if any((tr_, ty_) in danger for (tr_, ty_, _, _) in _fmt_targets(BV.of(b_))):
                danger.add(k_)
                grew = True
        if not grew:
            break
    if R.floor("C14-R6", "formatting impls that reach the calendar conversion", len(danger), 2):
        n_sites = 0
        for bid in sorted(reachable):
            bv_ = W.bv(bid)
            if bv_ is None or (bv_.body.get("item") == "fmt" and (bv_.body.get("impl_trait") or "").startswith("std::fmt::")):
                continue   # the impls themselves: counted through their users
            for (tr_, ty_, bi_, t_) in _fmt_targets(bv_):
                if (tr_, ty_) not in danger:
                    continue
                n_sites += 1
                R.check("C14-R6", "calendar-format-only-in-logging:%s#%d" % (bv_.name.split("::")[-2] if "::" in bv_.name else bv_.name, n_sites), is_logging_span(t_["sp"]),
                        "%s of %s inside a logging statement" % (tr_, ty_), "%s of %s (calendar rendering, can panic for far-off wall times) is formatted outside a logging statement" % (tr_, ty_), lib.loc(bv_, bi_))
        R.count("calendar_format_sites", n_sites)

    # ---------------------------------------------------------------- R3 unsafe census
    R.rule("C14-R3", "the only hand-written unsafe blocks in reachable code are the two from_utf8_unchecked calls justified by C01-R6")
    ub = [u for u in c.unsafe_blocks if "x" not in u["sp"] and u["body"] in reachable]
    all_ub = [u for u in c.unsafe_blocks if "x" not in u["sp"] and not any(x in u["body"] for x in TEST_SUPPORT)]
    names = sorted(set(W.by_id[u["body"]]["name"] for u in all_ub if u["body"] in W.by_id))
    R.check("C14-R3", "unsafe-blocks", len(all_ub) <= 2 and set(names) <= {"cup_ecdsa::parse_etag"}, "%d unsafe blocks, none outside cup_ecdsa::parse_etag (whose two are justified by C01-R6)" % len(all_ub), "hand-written unsafe blocks: %s" % [(W.by_id[u["body"]]["name"] if u["body"] in W.by_id else u["body"], u["sp"]["l"]) for u in all_ub])
    uf = [b["name"] for b in c.bodies if b.get("unsafe") and "x" not in b["sp"] and not any(x in b["id"] for x in TEST_SUPPORT)]
    R.check("C14-R3", "unsafe-fns", not uf, "no unsafe fn", "unsafe fns: %s" % uf)

    # ---------------------------------------------------------------- R5 parser configuration
    R.rule("C14-R5", "serde_json's recursion limit is in force: the unbounded_depth feature is not enabled and disable_recursion_limit has no caller")
    feats = None
    try:
        out = subprocess.run(["cargo", "metadata", "--offline", "--format-version", "1"], cwd=facts.REPO, stdout=subprocess.PIPE, stderr=subprocess.DEVNULL, text=True, env=dict(os.environ, CARGO_NET_OFFLINE="true"))
        md = json.loads(out.stdout)
        for n in md.get("resolve", {}).get("nodes", []):
            if n["id"].split("#")[-1].startswith("serde_json@") or "/serde_json-" in n["id"] or n["id"].startswith("serde_json "):
                feats = n.get("features", [])
    except Exception as e:  # noqa
        feats = None
    if feats is None:
        R.inconclusive("C14-R5", "serde-json-features", "cargo metadata --offline did not yield serde_json's resolved features")
    else:
        R.check("C14-R5", "serde-json-features", "unbounded_depth" not in feats, "serde_json features: %s" % feats, "serde_json is built with unbounded_depth: deeply nested input overflows the stack")
    callers = []
    for b in c.bodies + F.server.bodies:
        for bi, t in BV.of(b).calls():
            if (t.get("name") or "") == "disable_recursion_limit":
                callers.append(b["name"])
    R.check("C14-R5", "recursion-limit-kept", not callers, "disable_recursion_limit is never called", "disable_recursion_limit is called in %s" % callers)


# ---------------------------------------------------------------------- proof helpers

    # ---------------------------------------------------------------- lock discipline (shared engine va/locks.py)
    R.rule("C14-R7", "the flow cannot wait for itself: no mutex (storage, app set) is taken while a guard of the same kind is held, directly or in a callee; two kinds are always taken in the same order (storage before app set); no event is emitted while a guard is held")
    from .. import locks as _locks
    _locks.check(R, "C14-R7", sm.w, [sm.c], floor_regions=12)


def _callers(W, reachable, bid):
    out = []
    for r in reachable:
        bv = W.bv(r)
        for bi, t in bv.calls():
            if t.get("callee_id") == bid or t.get("resolved_id") == bid:
                out.append((bv, bi, t))
    return out


def _param_env(W, reachable, bv, env_by_body):
    """Intervals of a function's parameters as the union over its (all local) call sites."""
    cs = _callers(W, reachable, bv.id)
    if not cs:
        return None
    env = []
    for i in range(1, bv.argc + 1):
        lo = hi = None
        for (cbv, bi, t) in cs:
            e = env_by_body.get(cbv.id + "#strict") or env_by_body.get(cbv.id, [])
            iv = intervals.ival(cbv.crate, cbv.trace_op(t["args"][i - 1]), e)
            if iv is None:
                lo = hi = None
                break
            lo = iv[0] if lo is None else min(lo, iv[0])
            hi = iv[1] if hi is None else max(hi, iv[1])
        if lo is not None:
            env.append((("param", i), (lo, hi)))
    return env


def _param_env_proof(W, reachable, bv, site, env_by_body):
    env = _param_env(W, reachable, bv, env_by_body)
    if not env:
        return None
    # values of an unknown call (e.g. rand::random) of unsigned type: use the type range through Rem
    p = prove_overflow(bv, site, env)
    return ("with parameters in %s: " % [(e[0][1], e[1]) for e in env] + p) if p else None


def _nonzero_divisor(W, reachable, bv, site, env_by_body):
    # the assert's condition is `divisor == 0` (expected false); the message operand is the dividend
    cond = strip(bv.trace_op(site["t"]["cond"]))
    if not (cond[0] == "binop" and cond[1] == "Eq" and lib.term_const(bv.crate, cond[3]) == 0):
        return None
    for env in ([], _param_env(W, reachable, bv, env_by_body) or []):
        iv = intervals.ival(bv.crate, cond[2], env)
        if iv and (iv[0] > 0 or iv[1] < 0):
            return "divisor in %s" % (iv,)
    return None


def _bounds_proof(bv, site):
    ops = site["t"].get("ops", [])
    if len(ops) != 2:
        return None
    ln = intervals.ival(bv.crate, bv.trace_op(ops[0]))
    idx_t = strip(bv.trace_op(ops[1]))
    if ln is None:
        return None
    for (a, b, truth) in bv.bool_edges(lambda t: t[0] == "binop" and t[1] in ("Ge", "Gt", "Lt", "Le")):
        t = bv.trace_op(bv.blocks[a]["t"]["o"])
        while t[0] == "unop":
            t = t[2]
        if strip(t[2]) != idx_t:
            continue
        k = lib.term_const(bv.crate, t[3])
        if k is None:
            continue
        # edge on which idx < k (or <= k)
        lt = (t[1] == "Ge" and not truth) or (t[1] == "Lt" and truth)
        le = (t[1] == "Gt" and not truth) or (t[1] == "Le" and truth)
        if (lt and k <= ln[0]) or (le and k < ln[0]):
            if bv.dominated_by_edge(site["bi"], [(a, b)]):
                return "index %s %d on the dominating edge, length %d" % ("<" if lt else "<=", k, ln[0])
    return None


def _slice_after_prefix(bv, site):
    t = site["t"]
    a0 = strip(bv.trace_op(t["args"][0]))
    rng = bv.trace_op(t["args"][1])
    starts = [x for x in walk(rng) if x[0] == "agg" and x[2] and x[2].endswith("RangeFrom::RangeFrom")]
    if not starts:
        return None
    st = strip(starts[0][3][0])
    if not (st[0] == "call" and st[1].endswith("::len")):
        return None
    prefix = strip(st[2][0])
    for (a, b, truth) in bv.bool_edges(lambda x: x[0] == "call" and x[1].endswith("::starts_with")):
        tt = bv.trace_op(bv.blocks[a]["t"]["o"])
        if truth and strip(tt[2][0]) == a0 and _same_value(strip(tt[2][1]), prefix) and bv.dominated_by_edge(site["bi"], [(a, b)]):
            return "slice from prefix.len() is dominated by starts_with(prefix) == true"
    return None


def _same_value(a, b):
    while a[0] in ("ref", "deref", "cast"):
        a = a[2] if a[0] == "cast" else a[1]
    while b[0] in ("ref", "deref", "cast"):
        b = b[2] if b[0] == "cast" else b[1]
    return a == b


def _array_prefix_proof(bv, site):
    """From<[u32; N]> for Version: split_at_mut(v.len()) / copy_from_slice(&v) on a [u32; 4] with N <= 4 by type."""
    b = bv.body
    if b.get("item") != "from" or not b.get("inputs"):
        return None
    src = bv.crate.types[b["inputs"][0]]
    if src.get("k") != "array":
        return None
    try:
        n = int(str(src.get("len")).split("_")[0].split(" ")[0])
    except ValueError:
        return None
    zero4 = any(s_["k"] == "assign" and s_["r"]["k"] == "repeat" and str(s_["r"]["n"]).startswith("4") for bl in bv.blocks for s_ in bl["s"])
    if zero4 and n <= 4:
        return "source array length %d <= 4 by type; destination is [_; 4]; prefix split at v.len()" % n
    return None


def _select_liveness(sm, S):
    from .c11 import select_sites, _same_pin
    out = {}
    for (cx, sn, info) in select_sites(sm, S):
        clo = None
        for k, a in info.items():
            pass
        sites = S._selects.get(cx.bv.id, {})
        arms = sites.get(S.nodes[sn].bi, {})
        cid = next((a["closure"] for a in arms.values()), None)
        loop = smod.local_loop(S, sn, cx)
        live = False
        for k, a in info.items():
            if a["kind"] == "control":
                continue
            creators = [x for x in walk(a["term"]) if x[0] == "call" and (x[1].startswith("time::Timer") or x[1].endswith("::fuse") or "make_wait" in x[1] or "start_update_check" in x[1])]
            cnodes = [n.idx for n in S.nodes if n.ctx is cx and n.bi in set(x[3] for x in creators) and n.idx in S.live]
            if not loop or any(x in loop for x in cnodes):
                live = True
                continue
            sets = [n.idx for n in S.nodes if n.ctx is cx and n.idx in S.live and n.term["k"] == "call" and lib.callee_is(n.term, "std::pin::Pin::<Ptr>::set") and _same_pin(cx.bv.trace_op(n.term["args"][0]), cx.bv.trace_op(a["cap"]))]
            starts = [b for (_, b) in a["edges"]]
            if starts and sn not in reach_in(S, starts, cx, cut_nodes=sets):
                live = True
        if cid:
            out[cid] = live
    return out


def _result_uses(bv, bi, t):
    """How is the (awaited) result of a storage call used?  [(kind, detail, loc)]"""
    uses = []
    # follow the future: dest -> into_future -> awaitee -> poll -> (Ready).0 -> locals
    tracked = set()
    fut = set()
    if not t["dest"].get("p"):
        fut.add(t["dest"]["l"])
    res = set()
    changed = True
    guard = 0
    while changed and guard < 50:
        changed = False
        guard += 1
        for b2 in sorted(bv.reach0):
            bl = bv.blocks[b2]
            for s_ in bl["s"]:
                if s_["k"] != "assign" or s_["p"].get("p"):
                    continue
                r = s_["r"]
                d = s_["p"]["l"]
                if r["k"] == "use":
                    pl = r["o"].get("m") or r["o"].get("c")
                    if pl is None:
                        continue
                    if not pl.get("p") and pl["l"] in fut and d not in fut:
                        fut.add(d)
                        changed = True
                    if not pl.get("p") and pl["l"] in res and d not in res:
                        res.add(d)
                        changed = True
                    pj = pl.get("p", [])
                    if len(pj) == 2 and pj[0]["k"] == "downcast" and pj[0].get("n") == "Ready" and pl["l"] in tracked and d not in res:
                        res.add(d)
                        changed = True
                elif r["k"] == "ref":
                    pl = r["p"]
                    if not pl.get("p") and pl["l"] in fut and d not in fut:
                        fut.add(d)
                        changed = True
                    if [e["k"] for e in pl.get("p", [])] == ["deref"] and pl["l"] in fut and d not in fut:
                        fut.add(d)
                        changed = True
            tt = bl["t"]
            if tt["k"] == "call" and not tt["dest"].get("p"):
                args_l = [(a.get("m") or a.get("c") or {}).get("l") for a in tt["args"] if not (a.get("m") or a.get("c") or {}).get("p")]
                cal = lib.norm(tt.get("callee") or "")
                d = tt["dest"]["l"]
                if any(a in fut for a in args_l):
                    if cal in ("std::future::IntoFuture::into_future", "std::pin::Pin::<Ptr>::new_unchecked") and d not in fut:
                        fut.add(d)
                        changed = True
                    elif cal.endswith("Future::poll") and d not in tracked:
                        tracked.add(d)
                        changed = True
                    elif cal.endswith("unwrap_or_else") or cal.endswith("TryFutureExt::unwrap_or_else") or cal.endswith("FutureExt::boxed") or cal.endswith("FutureExt::map"):
                        if d not in fut:
                            fut.add(d)
                            changed = True
    # the result may also be returned as a future (wrappers): dest flows to _0
    for b2 in sorted(bv.reach0):
        bl = bv.blocks[b2]
        tt = bl["t"]
        if tt["k"] == "call":
            args_l = [(a.get("m") or a.get("c") or {}).get("l") for a in tt["args"] if not (a.get("m") or a.get("c") or {}).get("p")]
            cal = lib.norm(tt.get("callee") or "")
            if any(a in res for a in args_l):
                nm = cal.split("::")[-1]
                if nm in ("unwrap", "expect", "unwrap_err", "expect_err"):
                    uses.append((nm if nm in ("unwrap", "expect") else "unwrap", cal, lib.loc(bv, b2)))
                elif nm in ("unwrap_or_else", "unwrap_or_default", "unwrap_or", "ok", "is_ok", "is_err", "drop", "branch", "map_err", "or_else"):
                    uses.append(("handled:" + nm, cal, lib.loc(bv, b2)))
                elif is_logging_span(tt["sp"]):
                    uses.append(("logged", cal, lib.loc(bv, b2)))
                else:
                    uses.append(("other-call", cal, lib.loc(bv, b2)))
        if tt["k"] == "switch":
            sub = bv.switch_subject(b2)
            if sub is not None and not sub[0].get("p") and sub[0]["l"] in res:
                uses.append(("matched", "", lib.loc(bv, b2)))
    if not uses:
        uses.append(("ignored-or-returned", "", lib.loc(bv, bi)))
    return uses
