"""C13 — Event stream is ordered, lossless and back-pressured (narrow structural claim)."""
import re
from ..core import BV, strip, walk, fmt_t
from .. import lib, guards, sm as smod, terms
from ..sm import reach, path, reach_in, reach_pf


def run(F, R):
    sm = smod.get(F)
    c = sm.c
    S = sm.S_check
    W = sm.w
    smod.preconditions(sm, R, "C13-pre")
    R.trust("futures::channel::mpsc::channel(0): with zero capacity a send completes only when the receiver took the item; future::join; rustc await lowering")
    R.assume("NOT decided: that Generator::poll_next delivers every item exactly once and in order under every polling schedule, that a completion follows, that wake-ups are never lost and no schedule deadlocks. These quantify over interleavings of poll calls and the internals of futures::channel::mpsc; no CFG, typestate or ownership argument bounds them. Only the code-side necessary conditions R1-R4 are decided.")

    # ---------------------------------------------------------------- R1 emission is awaited immediately
    R.rule("C13-R1", "every future returned by Yield::yield_/yield_all is immediately awaited in the same body (never dropped unpolled, stored, joined with later effects or spawned)")
    n = 0
    for b in c.bodies:
        bv = BV.of(b)
        for bi, t in bv.calls():
            if lib.norm(t.get("callee") or "") not in ("async_generator::Yield::<I>::yield_", "async_generator::Yield::<I>::yield_all"):
                continue
            if b["id"].startswith("omaha_client::async_generator"):
                continue
            n += 1
            dest = t["dest"]
            nxt = t.get("t")
            ok = False
            det = "no successor"
            if nxt is not None and not dest.get("p"):
                tt = bv.blocks[nxt]["t"]
                if tt["k"] == "call" and tt.get("callee") == "std::future::IntoFuture::into_future" and "await" in tt["sp"].get("x", ""):
                    a = tt["args"][0]
                    pl = a.get("m")
                    ok = pl is not None and not pl.get("p") and pl["l"] == dest["l"]
                    det = "into_future(move _%d)" % dest["l"]
                else:
                    det = "next terminator: %s %s" % (tt["k"], lib.norm(tt.get("callee") or ""))
            # no other use of the future local
            uses = 0
            for bl in bv.blocks:
                if bl.get("cleanup"):
                    continue
                for s_ in bl["s"]:
                    if s_["k"] == "assign" and _mentions(s_["r"], dest["l"]):
                        uses += 1
                tt = bl["t"]
                if tt["k"] == "call" and any(_mentions(a_, dest["l"]) for a_ in tt["args"]):
                    uses += 1
            key = "%s#%d" % (b["name"].split("::")[-2] if "::" in b["name"] else b["name"], len([1 for x in R.instances if x["rule"] == "C13-R1" and x["key"].startswith((b["name"].split("::")[-2] if "::" in b["name"] else b["name"]) + "#")]))
            R.check("C13-R1", key, ok and uses == 1, det, "the emission future is not awaited immediately (%s, %d uses): the producer can run ahead of, or never deliver to, its consumer" % (det, uses), lib.loc(bv, bi))
    R.floor("C13-R1", "emission sites", n, 8)
    # and in the event skeleton: after each emission node, the next effect is reached only through the await
    ys = sm.yields(S)
    R.count("emission_nodes_in_one_check", len(ys))

    # ---------------------------------------------------------------- R2 rendezvous capacity
    R.rule("C13-R2", "every mpsc channel backing the generator, the progress observer and the control handle has capacity 0")
    chans = []
    for b in c.bodies:
        if "::mock" in b["id"] or "::tests" in b["id"] or "test_support" in b["id"]:
            continue
        bv = BV.of(b)
        for bi, t in bv.calls():
            if lib.norm(t.get("callee") or "").endswith("mpsc::channel"):
                chans.append((bv, bi, t))
    if R.floor("C13-R2", "mpsc::channel constructions", len(chans), 3):
        for (bv, bi, t) in chans:
            cap = lib.term_const(c, strip(bv.trace_op(t["args"][0])))
            R.check("C13-R2", "capacity:" + (bv.body.get("item") or bv.name.split("::")[-2]), cap == 0, "capacity 0", "channel capacity is %r: emissions complete before the consumer takes them" % cap, lib.loc(bv, bi))

    # ---------------------------------------------------------------- R3 single, unforgeable producer
    R.rule("C13-R3", "Yield's sender field is private, Yield is not Clone, and Yield values are only constructed inside generate()")
    y = c.adts.get("async_generator::Yield")
    if R.floor("C13-R3", "Yield type", 1 if y else 0, 1):
        f = y["variants"][0]["fields"]
        R.check("C13-R3", "private-field", len(f) == 1 and not f[0]["pub"], "Yield(private Sender)", "Yield's sender is public: events can be forged")
        cl = [i for i in c.impls if i.get("trait") in ("std::clone::Clone", "std::marker::Copy") and i["self"].startswith("async_generator::Yield")]
        R.check("C13-R3", "not-clone", not cl, "no Clone/Copy impl", "Yield is Clone: several producers can interleave emissions")
        makers = []
        for b in c.bodies:
            bv = BV.of(b)
            for bi in bv.reach0:
                for s_ in bv.blocks[bi]["s"]:
                    if s_["k"] == "assign" and s_["r"]["k"] == "agg" and s_["r"].get("d") == "async_generator::Yield":
                        makers.append(b["name"])
        R.check("C13-R3", "constructed-only-in-generate", makers and all(m == "async_generator::generate" for m in makers), "constructed in %s" % sorted(set(makers)), "Yield is constructed in %s" % sorted(set(makers)))

    # ---------------------------------------------------------------- R4 progress before outcome
    R.rule("C13-R4", "the install future and the progress forwarder are joined; progress events are only emitted by the forwarder; outcome announcements are dominated by the install's completion; the observer (only sender of the progress channel) is dropped when the install ends")
    pi = sm.env(S, "Installer", "perform_install")
    ipc = sm.yields(S, "InstallProgressChange")
    if R.floor("C13-R4", "perform_install / progress emission", min(len(pi), len(ipc)), 1):
        a_ctx = S.nodes[pi[0]].ctx
        b_ctx = S.nodes[ipc[0]].ctx
        how_a, how_b = a_ctx.how, b_ctx.how
        joined = how_a[0] == "chain" and how_b[0] == "chain" and how_a[1] is how_b[1] and lib.norm(how_a[1].get("resolved") or "").find("Join") >= 0
        R.check("C13-R4", "joined", joined, "both async blocks are polled by one future::join", "install and progress forwarding are not combined with future::join (%s / %s)" % (how_a[0], how_b[0]))
        R.check("C13-R4", "progress-only-in-forwarder", all(S.nodes[x].ctx is b_ctx for x in ipc), "InstallProgressChange only in the forwarder", "InstallProgressChange is emitted outside the forwarder")
        outcome = sm.yields(S, "InstallerError") + [x for x in sm.metrics(S) if S.ev[x][1] in ("SuccessfulUpdateDuration", "FailedUpdateDuration", "FailedUpdateDuration|SuccessfulUpdateDuration", "SuccessfulUpdateFromFirstSeen")]
        r_ = reach(S, [S.root.entry], cut_nodes=list(b_ctx.returns))
        R.check("C13-R4", "outcome-after-join", outcome and not any(x in r_ for x in outcome), "install outcome is announced only after install and forwarder both finished", "an install outcome can be announced before all progress was delivered")
        # observer dropped at the end of the install block
        av = a_ctx.bv
        drops = [bi for bi, t in av.calls() if lib.norm(t.get("callee") or "") == "std::mem::drop" and "StateMachineProgressObserver" in av.crate.types[t["argt"][0]]["s"]]
        pib = [bi for bi, t in av.calls() if t.get("trait") == "installer::Installer" and t["name"] == "perform_install"]
        ok = len(drops) == 1 and pib and not (set(av.exits()) & av.reach_from(pib, avoid=drops))
        R.check("C13-R4", "observer-dropped", ok, "drop(observer) on every path after perform_install", "the progress observer outlives the install: the forwarder may never terminate")
        # forwarder: loops on recv.next() until None
        bvv = b_ctx.bv
        nx = [bi for bi, t in bvv.calls() if lib.callee_is(t, "futures::StreamExt::next")]
        R.check("C13-R4", "forwarder-drains", len(nx) == 1 and bool(bvv.sccs()), "forwarder loops on recv.next() until the channel closes", "the forwarder does not drain the progress channel")
        # every value taken from the channel is forwarded: the channel is read in one place only, and what is emitted is that read's payload
        other_reads = [lib.norm(t.get("callee") or "") for _, t in bvv.calls() if t.get("name") in ("try_recv", "try_next", "poll_next", "poll_next_unpin", "next_many", "ready_chunks", "now_or_never") ]
        ys_ = [(bi, t) for bi, t in bvv.calls() if lib.norm(t.get("callee") or "") in ("async_generator::Yield::<I>::yield_", "async_generator::Yield::<I>::yield_all")]
        pay_ok = False
        det_ = ""
        if len(ys_) == 1:
            ev_ = bvv.trace_op(ys_[0][1]["args"][1])
            pc_ = [x for x in walk(ev_) if x[0] == "agg" and x[2] and x[2].endswith("InstallProgressChange")]
            if pc_:
                alts_ = lib.alts(pc_[0][3][0])
                det_ = " | ".join(terms.render(bvv, a_, W, {})[:80] for a_ in alts_)
                pay_ok = len(alts_) == 1 and alts_[0][0] == "field" and lib.strip_refs(alts_[0][1])[0] == "downcast" and lib.strip_refs(alts_[0][1])[2] == "Some" and (lib.head_call(alts_[0]) or "").endswith("StreamExt::next")
        R.check("C13-R4", "forwarder-forwards-every-value", not other_reads and pay_ok, "each received progress value is the one emitted: " + det_,
                "the forwarder can take a progress value off the channel without emitting it (other reads: %s; emitted: %s)" % (other_reads, det_))
        # .. on every way round the loop: from one read of the channel the next read is only reached through the emission
        if len(nx) == 1 and len(ys_) == 1:
            skip_ = nx[0] in bvv.reach_from(list(bvv.succ[nx[0]]), avoid=[ys_[0][0]])
            R.check("C13-R4", "forwarder-emits-on-every-iteration", not skip_, "between two reads of the progress channel the value read is always emitted",
                    "the forwarder can go from one read of the progress channel to the next without emitting what it read (a reported progress value is dropped)", lib.loc(bvv, nx[0]))
        # observer holds the only sender
        hv = a_ctx.parent.bv
        mk = [(bi, t) for bi, t in hv.calls() if lib.norm(t.get("callee") or "").endswith("mpsc::channel")]
        obs = []
        for bi in hv.reach0:
            for s_ in hv.blocks[bi]["s"]:
                if s_["k"] == "assign" and s_["r"]["k"] == "agg" and (s_["r"].get("d") or "").endswith("StateMachineProgressObserver"):
                    obs.append(terms.render(hv, hv._trace_rv(s_["r"], None, 0), W, {}))
        R.check("C13-R4", "observer-owns-sender", len(mk) == 1 and len(obs) == 1 and re.fullmatch(r"StateMachineProgressObserver\{channel\([^)]*\)\.0\}", obs[0]) is not None, str(obs), "the progress sender is not moved into the observer: %s" % obs)

    # ---------------------------------------------------------------- R5 the emission future ends with a flush (handshake)
    # the observer end: every value the installer reports is put on the channel, unconditionally and unchanged
    ob = [b for b in c.bodies if b["kind"] == "coroutine" and "::observer::" in b["id"] and "::receive_progress::" in b["id"]]
    fnb = [b for b in c.bodies if b["kind"] == "fn" and "::observer::" in b["id"] and b["id"].endswith("::receive_progress")]
    named_ = None
    if fnb and not ob:
        # `self.send_progress(progress).boxed()`: the async block became a named private async fn
        hs_ = lib.async_callees(W, BV.of(fnb[0]))
        if len(hs_) == 1:
            named_ = hs_[0]
            ob = [named_[2].body]
    if R.floor("C13-R4", "ProgressObserver::receive_progress of the state machine's observer", min(len(ob), len(fnb)), 1):
        ov = BV.of(ob[0])
        fv = BV.of(fnb[0])
        sends = [(bi, t) for bi, t in ov.calls() if lib.callee_is(t, "send") and "SinkExt" in (t.get("callee") or "")]
        rets = [bi for bi in ov.reach0 if ov.blocks[bi]["t"]["k"] == "return"]
        always = len(sends) == 1 and not (set(rets) & ov.reach_from([0], avoid=[sends[0][0]]))
        # the value: InstallProgress{ progress = the fn's own `progress` parameter, captured as is }
        caps = terms.render(fv, fv.trace_local(0), W, {})
        val = terms.render(ov, ov.trace_op(sends[0][1]["args"][1]), W, {}) if sends else ""
        m_ = re.fullmatch(r"InstallProgress\{param1\.(\d+)\}", val)
        capt = re.search(r"\{closure#0\}\{([^}]*)\}", caps)
        cap_list = [x.strip() for x in capt.group(1).split(",")] if capt else []
        same = bool(m_) and int(m_.group(1)) < len(cap_list) and cap_list[int(m_.group(1))] == "param3"
        if named_ is not None and sends:
            up_ = lib.async_param_to_arg(W, fv, named_[1], ov, [x for x in walk(ov.trace_op(sends[0][1]["args"][1])) if x[0] == "agg"][0][3][0] if [x for x in walk(ov.trace_op(sends[0][1]["args"][1])) if x[0] == "agg"] else ("undef",))
            same = up_ is not None and lib.strip_refs(up_) == ("param", 3)
            cap_list = ["(named async fn) progress <- %s" % (fmt_t(up_) if up_ is not None else "?")]
        no_branch = not any(ov.blocks[bi]["t"]["k"] == "switch" and ov.switch_subject(bi) is None and bi in ov.reach_from([0], avoid=[sends[0][0]]) for bi in ov.reach0) if sends else False
        R.check("C13-R4", "observer-sends-every-value", always and same, "receive_progress sends InstallProgress{progress} for every value, before anything else",
                "the observer does not put every reported value on the channel unconditionally and unchanged (send on every path: %s, value: %s, captured: %s, no test before the send: %s)" % (always, val[:80], cap_list, no_branch), lib.loc(ov, sends[0][0]) if sends else None)
    R.rule("C13-R5", "the futures built by Yield::yield_/yield_all (and by the progress observer) complete only after the rendezvous channel was flushed: the sink operation is send/send_all, or every feed/start_send is followed by flush on all paths")
    FLUSHING = ("send", "send_all", "flush", "close")
    NONFLUSHING = ("feed", "start_send", "try_send", "poll_ready", "start_send_unpin")
    n_ops = 0
    for b in c.bodies:
        idn = b["id"].replace("omaha_client::", "")
        own = (idn.startswith("async_generator::") and ("yield_" in idn or "yield_all" in idn)) or ("StateMachineProgressObserver" in (W.by_id.get(b.get("parent") or "", {}).get("impl_self") or "") or "StateMachineProgressObserver" in (b.get("impl_self") or ""))
        if not own or idn.startswith("async_generator::tests") or "::tests::" in idn:
            continue
        bv = BV.of(b)
        ops = [(bi, t) for bi, t in bv.calls() if (lib.norm(t.get("callee") or "").startswith("futures::SinkExt::") or lib.norm(t.get("callee") or "").startswith("futures::Sink::") or "mpsc::Sender" in lib.norm(t.get("callee") or "")) and t.get("name") in FLUSHING + NONFLUSHING]
        fl = [bi for bi, t in ops if t["name"] in ("flush", "close", "send", "send_all")]
        for bi, t in ops:
            n_ops += 1
            key = "%s:%s" % (idn.split("::{closure")[0].split("::")[-1] + ("{async}" if "{closure" in idn else ""), t["name"])
            if t["name"] in FLUSHING:
                R.check("C13-R5", "flushing-op:" + key, True, "%s completes after the receiver took the item(s)" % t["name"])
            else:
                later = [x for x in fl if x != bi]
                esc = set(bv.exits()) & bv.reach_from([bi], avoid=later)
                R.check("C13-R5", "flushing-op:" + key, bool(later) and not esc, "%s followed by a flush on every path" % t["name"],
                        "`%s` queues the item without waiting for the consumer and no flush follows on every path: code after the emission can run before the event was taken" % t["name"], lib.loc(bv, bi))
    R.floor("C13-R5", "sink operations in the emission helpers", n_ops, 3)

    # ---------------------------------------------------------------- R6 the generator is not "terminated" while its task still runs
    R.rule("C13-R6", "FusedStream::is_terminated of the generator can only answer true when the task itself is terminated (a consumer that stops polling on is_terminated must not abandon a running task before its completion was delivered)")
    it = [b for b in c.bodies if b.get("item") == "is_terminated" and (b.get("impl_self") or "").startswith("async_generator::Generator")]
    if R.floor("C13-R6", "FusedStream::is_terminated for Generator", len(it), 1):
        iv = BV.of(it[0])
        te = [(a, b) for (a, b, tr) in iv.bool_edges(lambda t: t[0] == "call" and lib.norm(t[1]).endswith("is_terminated") and lib.apath(t).endswith(".task)")) if tr]
        # blocks reachable without crossing "task is terminated": every value given to the result there must be `false`
        seen_ = set()
        st_ = [0]
        cut_ = set(te)
        while st_:
            a_ = st_.pop()
            if a_ in seen_:
                continue
            seen_.add(a_)
            for b_ in iv.succ[a_]:
                if (a_, b_) not in cut_:
                    st_.append(b_)
        bad_ = []
        for (bi, si_, kind, x) in iv.defs.get(0, []):
            if bi in seen_:
                v_ = lib.term_const(c, strip(iv._trace_rv(x, None, 0))) if kind == "rv" else None
                # a result that is itself the answer of task.is_terminated() is fine too
                tm_ = strip(iv._trace_rv(x, None, 0)) if kind == "rv" else ("call", (x.get("callee") or ""), [iv.trace_op(a__) for a__ in x.get("args", [])], bi)
                is_task = tm_[0] == "call" and lib.norm(tm_[1]).endswith("is_terminated") and lib.apath(tm_).endswith(".task)")
                if v_ != 0 and not is_task:
                    bad_.append(lib.loc(iv, bi))
        R.check("C13-R6", "terminated-implies-task-terminated", bool(te) and not bad_, "is_terminated() == true only behind task.is_terminated() == true",
                "is_terminated() can answer true while the task has not terminated (result set at %s without testing the task)" % bad_)

    # ---------------------------------------------------------------- R7 the consumer's waker reaches both the task and the channel
    R.rule("C13-R7", "Generator::poll_next polls the task and the item channel with the consumer's own task context (so whichever becomes ready wakes the consumer) and reads the channel in no other way")
    pn = [b for b in c.bodies if b.get("item") == "poll_next" and (b.get("impl_self") or "").startswith("async_generator::Generator")]
    if R.floor("C13-R7", "Stream::poll_next for Generator", len(pn), 1):
        pv = BV.of(pn[0])
        polls = [(bi, t) for bi, t in pv.calls() if t.get("name") in ("poll", "poll_next", "poll_unpin", "poll_next_unpin") and t.get("trait")]
        other = [lib.norm(t.get("callee") or "") for _, t in pv.calls() if t.get("name") in ("try_recv", "try_next", "now_or_never", "next", "try_poll_next")]
        cx_ok = []
        for bi, t in polls:
            ca = lib.strip_refs(pv.trace_op(t["args"][-1])) if t.get("args") else ("undef",)
            cx_ok.append(ca == ("param", 2))
        names_ = sorted(t["name"] for _, t in polls)
        R.check("C13-R7", "polls-with-consumer-context", "poll" in names_ and "poll_next" in names_ and all(cx_ok) and not other, "task: Future::poll(cx); channel: Stream::poll_next(cx)",
                "Generator::poll_next does not poll both the task and the channel with the consumer's context (polls: %s with own cx %s; other channel reads: %s): a wake-up can be lost" % (names_, cx_ok, other))

    # ---------------------------------------------------------------- lock discipline (shared engine va/locks.py)
    R.rule("C13-R8", "lock discipline: no event is emitted while a mutex guard is held (a consumer that takes the same shared mutex between two polls would stop the flow for good), no mutex is taken while a guard of the same kind is held, and two kinds are always taken in the same order")
    from .. import locks as _locks
    _locks.check(R, "C13-R8", sm.w, [sm.c], floor_regions=12)
    # .. and across the two halves of a `select!` that runs a check beside the control channel: while an arm's body runs,
    # the check future is suspended, possibly inside one of its held regions (it keeps the app-set and storage mutexes across
    # storage awaits).  Code in the control arm that takes a mutex the check takes waits for a guard only the suspended
    # future can release: the task stops for good.
    from .c11 import select_sites as _select_sites
    Sr_ = sm.S_run
    summ_ = _locks.Summaries(sm.w)
    n_beside = 0
    for (cx_, sn_, info_) in _select_sites(sm, Sr_):
        tasks_ = [a_ for a_ in info_.values() if a_["kind"] in ("task", "other")]
        ctrl_ = [a_ for a_ in info_.values() if a_["kind"] == "control"]
        if not tasks_ or not ctrl_:
            continue
        n_beside += 1
        # what the task beside it can acquire
        held_kinds = set()
        for a_ in tasks_:
            for y_ in walk(a_["term"]):
                if y_[0] == "agg" and y_[1] in ("coroutine", "closure") and y_[2] in sm.w.by_id:
                    held_kinds |= set(summ_.of(sm.w.by_id[y_[2]])[0])
                if y_[0] == "call":
                    for cb_ in _locks._async_body(sm.w, sm.w.by_id.get(y_[1], {}).get("id") if y_[1] in sm.w.by_id else None):
                        held_kinds |= set(summ_.of(cb_)[0])
        if not held_kinds:
            # the future is created elsewhere and only polled here: take what the whole check flow acquires
            for b_ in sm.c.bodies:
                if b_.get("item") == "start_update_check" or (b_.get("parent") and sm.w.by_id.get(b_["parent"], {}).get("item") == "start_update_check"):
                    held_kinds |= set(summ_.of(b_)[0])
        starts_ = [b for a_ in ctrl_ for (_, b) in a_["edges"]]
        body_ = reach_pf(Sr_, starts_, cut_nodes=[sn_]) if starts_ else set()
        taken_ = []
        for x_ in body_:
            nd_ = Sr_.nodes[x_]
            if not smod.descends(nd_.ctx, cx_) or nd_.term["k"] != "call":
                continue
            k_ = _locks.lock_kind_of_call(sm.c, nd_.term)
            if k_ is not None and k_ in held_kinds:
                taken_.append((k_, nd_.loc()))
        R.check("C13-R8", "control-arm-beside-check-takes-no-shared-mutex:" + (cx_.bv.body.get("item") or cx_.bv.id.split("::")[-2]), not taken_,
                "the arm that answers requests while a check runs takes none of the mutexes the check holds across awaits (%s)" % sorted(held_kinds),
                "the arm that answers requests while a check runs locks %s, which the suspended check may be holding: the task waits for itself" % sorted(set(k for k, _ in taken_)),
                taken_[0][1] if taken_ else None)
    R.floor("C13-R8", "selects that run a check beside the control channel", n_beside, 1)


def _mentions(x, l):
    if isinstance(x, dict):
        if x.get("l") == l and "k" not in x and ("p" in x or set(x.keys()) <= {"l", "p", "t"}):
            return True
        return any(_mentions(v, l) for v in x.values())
    if isinstance(x, list):
        return any(_mentions(v, l) for v in x)
    return False
