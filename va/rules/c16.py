"""C16 — Response parser is total and faithful (schema + structural clauses)."""
import json, os
from ..core import is_logging_span, BV, strip, walk, fmt_t
from .. import lib, guards, terms, flow, schema, facts, census


def run(F, R):
    c = F.client
    W = flow.World([c])
    R.trust("serde_json (totality on arbitrary bytes, recursion limit 128), serde derive semantics (missing Option field = None, unknown keys ignored unless flattened)")
    R.assume("totality of serde_json itself and fidelity beyond the schema table are not decided")
    table = json.load(open(os.path.join(facts.VERIF, "tables", "omaha_v3_response.json")))

    # ---------------------------------------------------------------- R1 deserialisation schema
    R.rule("C16-R1", "the deserialisation schema extracted from the Deserialize impls (keys, required/optional, type widths, flatten catch-alls, status identifiers) covers the Omaha v3 response table")
    n = 0
    # the document wrapper is whatever type parse_json_response parses into (it is a private helper type: its path is not
    # part of the protocol, its shape {"response": Response} is)
    wrapper_ty = None
    pj0 = [b for b in lib.bodies(c, item="parse_json_response", kind="fn")]
    if pj0:
        for _, t0 in BV.of(pj0[0]).calls():
            if lib.callee_is(t0, "protocol::response::parse_safe_json"):
                tys0 = [lib.norm(c.types[x]["s"]) for x in t0.get("substs", []) if isinstance(x, int)]
                if len(tys0) == 1:
                    wrapper_ty = tys0[0]
    for ty, exp in table["structs"].items():
        if ty.endswith("::ResponseWrapper") and wrapper_ty and schema.de_schema(W, c, ty) is None:
            ty = wrapper_ty
        s = schema.de_schema(W, c, ty)
        short = ty.split("::")[-1]
        if s is None or s.get("kind") != "struct":
            R.violation("C16-R1", "struct:" + short, "no derived struct Deserialize for %s" % ty)
            continue
        n += 1
        got = {f["key"]: f for f in s["fields"]}
        for key, (req, typ) in exp["fields"].items():
            f = got.get(key)
            if f is None:
                R.violation("C16-R1", "field:%s.%s" % (short, key), "%s no longer reads the key %r (renamed or removed)" % (ty, key))
                continue
            want_req = req == "!"
            ok_req = f["required"] == want_req and not (want_req and f["default"])
            R.check("C16-R1", "field:%s.%s" % (short, key), ok_req and f["type"] == typ, "%s %s" % (req, typ),
                    "%s.%s is read as %s %s, expected %s %s" % (short, key, "required" if f["required"] and not f["default"] else "optional", f["type"], "required" if want_req else "optional", typ))
        extra_required = [k for k, f in got.items() if k not in exp["fields"] and f["required"] and not f["default"]]
        R.check("C16-R1", "no-new-required-key:" + short, not extra_required, "no required key beyond the protocol's", "%s additionally requires %s: valid documents are rejected" % (ty, extra_required))
        ids = s.get("identifiers")
        if ids is not None:
            # the names the field visitor answers to are exactly the keys (an alias makes another attribute — e.g. an
            # extension attribute called "name" — land in a protocol field, or two spellings collide as duplicates)
            R.check("C16-R1", "no-alias:" + short, sorted(ids) == sorted(got), "the visitor recognises exactly the %d keys" % len(got), "%s also answers to %s" % (ty, sorted(set(ids) - set(got)) or ids))
        R.check("C16-R1", "flatten:" + short, s["flatten"] == exp["flatten"], str(s["flatten"]), "%s flattens %s, expected %s" % (ty, s["flatten"], exp["flatten"]))
        if exp["flatten"]:
            R.check("C16-R1", "unknown-keys-kept:" + short, s.get("unknown_keys") == "collected", "unknown attributes are collected for the flattened members", "%s drops unknown attributes" % ty)
        # every key is stored into its own struct field
        adt = c.adts.get(ty)
        decl = [f_["n"] for f_ in adt["variants"][0]["fields"]] if adt else []
        R.check("C16-R1", "constructs:" + short, s.get("constructs") == decl, "all %d fields constructed" % len(decl), "%s constructs %s, declared %s" % (ty, s.get("constructs"), decl))
    R.floor("C16-R1", "response structs with an extracted schema", n, 15)
    st = schema.identifier_enum(W, c, "protocol::response::OmahaStatus")
    if st is None:
        R.violation("C16-R1", "status", "OmahaStatus has no identifier visitor")
    else:
        R.check("C16-R1", "status-table", st["table"] == table["status"]["table"], str(st["table"]), "status strings map to %s, expected %s" % (st["table"], table["status"]["table"]))
        R.check("C16-R1", "status-catch-all", st["catch_all"] is not None and st["catch_all"].endswith(table["status"]["catch_all_variant"] + ")") and "from(s)" in st["catch_all"], str(st["catch_all"]), "unknown status strings become %s" % st["catch_all"])
        R.check("C16-R1", "status-request", st["requests"] == ["deserialize_identifier"], str(st["requests"]), "OmahaStatus asks the deserializer for %s" % st["requests"])

    # ---------------------------------------------------------------- R2 wrapper and prefix
    R.rule("C16-R2", "parse_json_response reads {\"response\": ..} and accepts the )]}'\\n prefix by slicing after a dominating starts_with; both branches parse the same type with serde_json::from_slice")
    pj = lib.one(R, "C16-R2", c, "parse_json_response", item="parse_json_response", kind="fn")
    ps = lib.one(R, "C16-R2", c, "parse_safe_json", item="parse_safe_json", kind="fn")
    if pj:
        ret = terms.render(pj, pj.trace_local(0), W, {1: "json"}, transparent=set(terms.TRANSPARENT) | {"std::ops::Try::branch"})
        # Ok(parse_safe_json(json)?.response)  or  parse_safe_json(json).map(|w| w.response)
        R.check("C16-R2", "wrapper", "Ok{parse_safe_json(json)@Continue.0.response}" in ret or ret == "map(parse_safe_json(json), |$1| $1.response)", ret[:120], "parse_json_response returns %s" % ret[:160])
        # .. and does nothing else to what was parsed (no pass over the response that could alter, bound or drop what the server sent)
        extra = sorted(set(lib.norm(t.get("callee") or "?").split("::")[-1] for _, t in pj.calls() if not is_logging_span(t["sp"])) - {"parse_safe_json", "branch", "from_residual", "map", "map_err"})
        R.check("C16-R2", "wrapper-only", not extra and not pj.sccs(), "parse_json_response only unwraps {\"response\": ..}", "parse_json_response post-processes the parsed response (%s%s): values are no longer preserved as sent" % (extra, ", loop" if pj.sccs() else ""))
        call = [t for _, t in pj.calls() if lib.callee_is(t, "protocol::response::parse_safe_json")]
        tys = [lib.norm(c.types[x]["s"]) for t in call for x in t.get("substs", []) if isinstance(x, int)]
        wsch = schema.de_schema(W, c, tys[0]) if len(tys) == 1 else None
        wkeys = [(f_["key"], f_["required"], f_["type"]) for f_ in (wsch or {}).get("fields", [])]
        R.check("C16-R2", "wrapper-type", wkeys == [("response", True, "protocol::response::Response")], "parsed as %s = {\"response\": Response}" % tys, "parse_safe_json is instantiated at %s, which reads %s" % (tys, wkeys))
    if ps:
        fs = [(bi, t) for bi, t in ps.calls() if lib.callee_is(t, "serde_json::from_slice")]
        R.check("C16-R2", "two-branches-one-parser", len(fs) in (1, 2) and len(set(tuple(t.get("substs", [])) for _, t in fs)) == 1, "every branch parses with serde_json::from_slice::<T>", "parser calls: %s" % [lib.norm(t.get("callee")) for _, t in ps.calls()])
        # what the parser is fed: the raw input, or the input after the prefix
        fed = set()
        from .. import optnorm
        for _, t in fs:
            for kind_, a_ in optnorm.value_alts(W, ps, ps.trace_op(t["args"][0])):
                r_ = terms.render(ps, a_, W, {1: "raw"})
                fed.add(r_ + "@Some.0" if kind_ == "payload" and not r_.endswith("@Some.0") else r_)
        sw = [(a, b, tr) for (a, b, tr) in ps.bool_edges(lambda t: t[0] == "call" and t[1].endswith("::starts_with"))]
        sp = [t for _, t in ps.calls() if lib.norm(t.get("callee") or "").endswith("::strip_prefix")]
        pref = None
        if sw:
            tt = ps.trace_op(ps.blocks[sw[0][0]]["t"]["o"])
            pref = lib.term_const(c, terms._unref(tt[2][1]))
            recv = terms.render(ps, tt[2][0], W, {1: "raw"})
            R.check("C16-R2", "prefix-constant", pref is not None and list(pref) == table["xssi_prefix"] and recv == "raw", "prefix %r tested on the raw input" % pref, "prefix tested: %r on %s" % (pref, recv))
            args = sorted(fed)
            R.check("C16-R2", "parsed-slices", len(args) == 2 and args[1] == "raw" and args[0].startswith("index(raw, RangeFrom{len("), str(args), "the parser is fed %s" % args)
            idx = [s_ for s_ in census.panic_sites(ps)]
            from .c14 import _slice_after_prefix
            bad = [s_ for s_ in idx if not (s_["desc"] == "api:Index::index" and _slice_after_prefix(ps, s_))]
            R.check("C16-R2", "slice-guarded", idx and not bad, "the slice is dominated by starts_with(prefix) == true and starts at prefix.len()", "unguarded panic-capable sites in parse_safe_json: %s" % [s_["desc"] for s_ in bad])
        elif len(sp) == 1:
            # raw.strip_prefix(PREFIX): the remainder when the prefix is there, None otherwise (no slicing to justify)
            pref = lib.term_const(c, terms._unref(ps.trace_op(sp[0]["args"][1])))
            recv = terms.render(ps, ps.trace_op(sp[0]["args"][0]), W, {1: "raw"})
            R.check("C16-R2", "prefix-constant", pref is not None and list(pref) == table["xssi_prefix"] and recv == "raw", "prefix %r stripped from the raw input" % pref, "prefix stripped: %r from %s" % (pref, recv))
            args = sorted(fed)
            R.check("C16-R2", "parsed-slices", len(args) == 2 and "raw" in args and any(a_.startswith("strip_prefix(raw, ") and a_.endswith("@Some.0") for a_ in args), str(args), "the parser is fed %s" % args)
            idx = census.panic_sites(ps)
            R.check("C16-R2", "slice-guarded", not idx, "no panic-capable site (strip_prefix spelling)", "panic-capable sites in parse_safe_json: %s" % [s_["desc"] for s_ in idx])
        else:
            R.violation("C16-R2", "prefix-constant", "parse_safe_json neither tests starts_with nor strips the prefix")

    # ---------------------------------------------------------------- R3 recursion limit + local panic census
    R.rule("C16-R3", "serde_json's recursion limit is in force and the response module has no panic-capable site of its own")
    callers = [b["name"] for b in c.bodies for _, t in BV.of(b).calls() if (t.get("name") or "") == "disable_recursion_limit"]
    R.check("C16-R3", "recursion-limit-kept", not callers, "disable_recursion_limit is never called", "disable_recursion_limit called in %s" % callers)
    import subprocess
    feats = None
    try:
        out = subprocess.run(["cargo", "metadata", "--offline", "--format-version", "1"], cwd=facts.REPO, stdout=subprocess.PIPE, stderr=subprocess.DEVNULL, text=True, env=dict(os.environ, CARGO_NET_OFFLINE="true"))
        for nd in json.loads(out.stdout).get("resolve", {}).get("nodes", []):
            if "serde_json" in nd["id"].split("#")[-1].split("@")[0] or "/serde_json-" in nd["id"]:
                feats = nd.get("features", [])
    except Exception:
        feats = None
    if feats is None:
        R.inconclusive("C16-R3", "serde-json-features", "cargo metadata --offline did not yield serde_json's features")
    else:
        R.check("C16-R3", "serde-json-features", "unbounded_depth" not in feats, "serde_json features %s" % feats, "serde_json is built with unbounded_depth")
    nb = 0
    for b in c.bodies:
        if b["id"].startswith("omaha_client::protocol::response") and "::tests" not in b["id"]:
            nb += 1
            v = BV.of(b)
            for s_ in census.panic_sites(v):
                if v is ps or (ps is not None and v.id == ps.id):
                    continue
                if s_["desc"].startswith("assert:Overflow(Add)") and b.get("derived"):
                    continue  # derive field counting over constants; proved by interval in C14-R1
                R.violation("C16-R3", "panic-site:" + s_["key"], "panic-capable site %s in the response parser (%s)" % (s_["desc"], v.name), s_["loc"])
    R.floor("C16-R3", "bodies of the response module", nb, 60)
    R.holds("C16-R3", "panic-census", "%d bodies of protocol::response scanned" % nb)

    # ---------------------------------------------------------------- R4 full URLs
    R.rule("C16-R4", "get_all_full_urls is every codebase joined with every package name (codebases outer, packages inner, no filtering)")
    UC = "protocol::response::UpdateCheck"
    g = lib.one(R, "C16-R4", c, "UpdateCheck::get_all_full_urls", item="get_all_full_urls", impl_self=UC)
    gc = lib.one(R, "C16-R4", c, "UpdateCheck::get_all_url_codebases", item="get_all_url_codebases", impl_self=UC)
    gp = lib.one(R, "C16-R4", c, "UpdateCheck::get_all_packages", item="get_all_packages", impl_self=UC)
    if g and gc and gp:
        r = terms.render(g, g.trace_local(0), W, {1: "self"})
        exp = "flat_map(get_all_url_codebases(self), |$1| map(get_all_packages(self), |$1| fmt('{0}{1}', display($1), display($1.name))))"
        # inner closure parameters are renamed positionally; compare modulo the captured codebase
        ok = r.startswith("flat_map(get_all_url_codebases(self), |$1| map(get_all_packages(") and "fmt('{0}{1}', display(" in r and ".name)" in r
        R.check("C16-R4", "full-urls", ok, r[:200], "get_all_full_urls is %s" % r[:240])
        rc = terms.render(gc, gc.trace_local(0), W, {1: "self"})
        R.check("C16-R4", "codebases", rc == "map(flat_map(iter(self.urls), |$1| $1.url), |$1| as_str($1.codebase))" or rc == "map(flat_map(iter(self.urls), |$1| $1.url), |$1| $1.codebase)", rc, "codebases are %s" % rc)
        rp = terms.render(gp, gp.trace_local(0), W, {1: "self"})
        R.check("C16-R4", "packages", rp == "flat_map(iter(self.manifest), |$1| $1.packages.package)", rp, "packages are %s" % rp)
        for v in (g, gc, gp):
            names = [lib.norm(t.get("callee")).split("::")[-1] for _, t in v.calls()] + [lib.norm(t.get("callee")).split("::")[-1] for cb in lib.closures_of(c, v.id) for _, t in BV.of(cb).calls()]
            bad = [x for x in names if x in ("filter", "filter_map", "skip", "take", "step_by", "skip_while", "take_while", "dedup", "rev")]
            R.check("C16-R4", "no-dropping-adaptor:" + v.body["item"], not bad, "no filtering adaptor", "%s uses %s" % (v.body["item"], bad))
