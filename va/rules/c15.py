"""C15 — Requests have exactly the Omaha v3 wire shape (schema + provenance clauses)."""
import json, os
import re
from ..core import BV, strip, walk, fmt_t
from .. import lib, guards, terms, flow, schema, facts

RB = "request_builder::RequestBuilder"


def run(F, R):
    c = F.client
    W = flow.World([c])
    R.trust("serde / serde_json serialisation of the extracted schema (derive semantics), uuid::fmt::Braced, http::request::Builder")
    R.assume("byte-exact JSON for all inputs is not decided; the serialisation schema (keys, order, omission predicates, numeric codes) and the provenance of every header and field are")
    table = json.load(open(os.path.join(facts.VERIF, "tables", "omaha_v3_request.json")))

    # ---------------------------------------------------------------- R1 serialisation schema
    # .. "updatecheck flags only when true" has two halves: the skip predicates of the schema (below), and every true flag
    # of the parameters reaching the UpdateCheck that is serialised (shared with C05-R3)
    from . import c05 as _c05
    from .. import report as _report
    _c05._builder_field_flow(_report.SubsetAlias(R, {"C05-R3": "C15-R1"}, prefix="flags:", keys={"updatecheck-flags"}), c, W)
    R.rule("C15-R1", "the serialisation schema extracted from the Serialize impls in force (keys, order, skip predicates, flattening, enum codes, GUID/Version forms) equals the Omaha v3 request table")
    n = 0
    for ty, exp in table["structs"].items():
        s = schema.ser_schema(W, c, ty)
        if s is None or s.get("kind") not in ("struct", "map"):
            R.violation("C15-R1", "struct:" + ty.split("::")[-1], "no struct-like Serialize impl for %s (%s)" % (ty, s and s.get("kind")))
            continue
        n += 1
        got = []
        for it in s["items"]:
            if "flatten" in it:
                got.append(["<flatten>", it["flatten"]])
            else:
                got.append([it["key"], it["skip_if"]])
        R.check("C15-R1", "struct:" + ty.split("::")[-1], got == exp["items"], "%d keys in order" % len(got), "%s serialises as %s, expected %s" % (ty, got, exp["items"]))
        # each key reads its own field exactly once
        fields = [it.get("field") or it.get("flatten") for it in s["items"]]
        adt = c.adts.get(ty)
        decl = [f["n"] for f in adt["variants"][0]["fields"]] if adt else []
        R.check("C15-R1", "fields:" + ty.split("::")[-1], fields == decl, "every declared field is emitted once, in declaration order", "%s emits fields %s, declared %s" % (ty, fields, decl))
        for key, vt in table.get("value_types", {}).get(ty, {}).items():
            it = [x for x in s["items"] if x.get("key") == key]
            R.check("C15-R1", "type:%s.%s" % (ty.split("::")[-1], key), it and it[0]["type"] == vt, vt, "%s.%s is serialised from %s, expected %s" % (ty, key, it and it[0]["type"], vt))
        if exp["kind"] == "map":
            R.check("C15-R1", "kind:" + ty.split("::")[-1], s["kind"] == "map", "serialised as a map (flattened members)", "%s is no longer serialised as a map" % ty)
    R.floor("C15-R1", "request structs with an extracted schema", n, 8)
    for ty, exp in table["enums"].items():
        s = schema.ser_schema(W, c, ty)
        got = (s or {}).get("variants")
        R.check("C15-R1", "enum:" + ty.split("::")[-1], s is not None and s.get("kind") == exp["kind"] and got == exp["variants"], str(got), "%s serialises as %s (%s), expected %s" % (ty, got, s and s.get("kind"), exp["variants"]))
        adt = c.adts.get(ty)
        if adt and exp["kind"] == "repr":
            decl = {v["n"]: int(v["discr"]) for v in adt["variants"]}
            R.check("C15-R1", "discriminants:" + ty.split("::")[-1], decl == exp["variants"], "declared discriminants match", "declared discriminants %s" % decl)
    for ty, exp in table["custom"].items():
        s = schema.ser_schema(W, c, ty)
        R.check("C15-R1", "custom:" + ty.split("::")[-1], s is not None and s.get("kind") == "custom" and s.get("render") == exp, str(s and s.get("render")), "%s serialises as %s, expected %s" % (ty, s and s.get("render"), exp))
    # Option<GUID> etc. go through the standard impls: nothing else implements Serialize for the request types
    extra = sorted(set(b["impl_self"] for b in c.bodies if b.get("item") == "serialize" and (b.get("impl_self") or "").startswith("protocol::request::") and b["impl_self"] not in list(table["structs"]) + list(table["enums"]) + list(table["custom"])))
    R.check("C15-R1", "no-unlisted-request-type", not extra, "all serialisable request types are in the table", "request types without a table row: %s" % extra)

    # ---------------------------------------------------------------- R2 envelope and headers
    R.rule("C15-R2", "POST to config.service_url with JSON content type, updater-name header from the config, app-id header from the FIRST entry, and every body field from its source")
    bi = lib.one(R, "C15-R2", c, "RequestBuilder::build_intermediate", item="build_intermediate", impl_self=RB)
    if bi:
        N = {1: "self", 2: "handler"}
        from .. import optnorm
        ag = [x for x in walk(optnorm.inline_all(W, bi, bi.trace_local(0))) if x[0] == "agg" and x[2] and x[2].endswith("Intermediate::Intermediate")]
        if R.floor("C15-R2", "Intermediate construction", len(ag), 1):
            f = dict(zip(ag[0][4], [terms.render(bi, v, W, N) for v in ag[0][3]]))
            R.check("C15-R2", "uri", f.get("uri") == "self.config.service_url", f.get("uri"), "uri <- %s" % f.get("uri"))
            exp_body = "RequestWrapper{Request{to_string('3.0'), self.config.updater.name, to_string(self.config.updater.version), self.params.source, 1, self.request_id, self.session_id, self.config.os, collect::<std::vec::Vec<protocol::request::App>>(map(cloned(iter(self.app_entries)), <protocol::request::App as std::convert::From<request_builder::AppEntry>>::from))}}"
            _nt = lambda x: re.sub(r"collect::<[^(]*>\(", "collect(", x or "")   # the collection type is fixed by the field's type
            R.check("C15-R2", "body-fields", _nt(f.get("body")) == _nt(exp_body), (f.get("body") or "")[:200], "body is %s, expected %s" % (f.get("body"), exp_body))
            rq = [x for x in walk(ag[0][3][ag[0][4].index("body")]) if x[0] == "agg" and x[2] == "protocol::request::Request::Request"]
            if rq:
                R.check("C15-R2", "body-field-names", rq[0][4] == ["protocol_version", "updater", "updater_version", "install_source", "is_machine", "request_id", "session_id", "os", "apps"], str(rq[0][4]), "Request fields: %s" % rq[0][4])
        pv = c.consts.get("protocol::PROTOCOL_V3")
        R.check("C15-R2", "protocol-constant", pv and pv.get("str") == table["protocol_version"], "PROTOCOL_V3 = %r" % (pv and pv.get("str")), "PROTOCOL_V3 = %r" % (pv and pv.get("str")))
        tuples = []
        for hv_ in lib.with_private_callees(W, bi):
            for b in sorted(hv_.reach0):
                for s_ in hv_.blocks[b]["s"]:
                    if s_["k"] == "assign" and s_["r"]["k"] == "agg" and s_["r"].get("ak") == "tuple" and len(s_["r"]["ops"]) == 2:
                        t = hv_._trace_rv(s_["r"], None, 0)
                        k = terms.render(hv_, t[3][0], W, N)
                        v = terms.render(hv_, t[3][1], W, N)
                        if k.startswith("'") or "HEADER" in k or "header" in k.lower():
                            tuples.append((k, v))
        hdr = dict(tuples)
        R.check("C15-R2", "header:content-type", any(k in ("as_str(http::header::CONTENT_TYPE)", "as_str(hyper::header::CONTENT_TYPE)", "'content-type'") and v == "to_string('application/json')" for k, v in tuples), "content-type: application/json", "content-type header: %s" % [kv for kv in tuples if "CONTENT" in kv[0].upper()])
        R.check("C15-R2", "header:updater", hdr.get("'X-Goog-Update-Updater'") == "self.config.updater.name", hdr.get("'X-Goog-Update-Updater'"), "updater header <- %s" % hdr.get("'X-Goog-Update-Updater'"))
        aid_ = hdr.get("'X-Goog-Update-AppId'")
        FIRSTS = ("first(self.app_entries)", "get(self.app_entries, 0)", "next(iter(self.app_entries))")
        if aid_ is None:
            # the pair may be built by a closure mapped over the first entry: `self.app_entries.first().map(|e| (HEADER_APP_ID, e.app.id.clone()))`
            for hv_ in lib.with_private_callees(W, bi):
                for bi2_, t2_ in hv_.calls():
                    if not lib.callee_is(t2_, "std::option::Option::<T>::map") or len(t2_["args"]) != 2:
                        continue
                    src_ = terms.render(hv_, hv_.trace_op(t2_["args"][0]), W, N)
                    clo_ = [x for x in walk(hv_.trace_op(t2_["args"][1])) if x[0] == "agg" and x[1] == "closure" and x[2] in W.by_id]
                    if src_ not in FIRSTS or not clo_:
                        continue
                    cb_ = W.bv(clo_[0][2])
                    rt_ = strip(cb_.trace_local(0))
                    if rt_[0] == "agg" and rt_[1] == "tuple" and len(rt_[3]) == 2 and terms.render(cb_, rt_[3][0], W, {}) == "'X-Goog-Update-AppId'" and terms.render(cb_, rt_[3][1], W, {}) == "param2.app.id":
                        aid_ = src_ + "@Some.0.app.id"
        if aid_ is None:
            R.inconclusive("C15-R2", "header:app-id", "no (HEADER_APP_ID, value) pair found in build_intermediate, its private helpers or a closure mapped over the first entry")
        else:
            R.check("C15-R2", "header:app-id", aid_ in tuple(f_ + "@Some.0.app.id" for f_ in FIRSTS), str(aid_), "app-id header <- %s (must be the first entry)" % aid_)
        R.check("C15-R2", "header:interactivity", "'X-Goog-Update-Interactivity'" in hdr, "interactivity header present (value table: C05-R3)", "no interactivity header")
        for k, cname in (("updater", "protocol::request::HEADER_UPDATER_NAME"), ("interactivity", "protocol::request::HEADER_INTERACTIVITY"), ("appid", "protocol::request::HEADER_APP_ID")):
            cv = c.consts.get(cname)
            R.check("C15-R2", "header-name:" + k, cv and cv.get("str") == table["headers"][k], str(cv and cv.get("str")), "%s = %r" % (cname, cv and cv.get("str")))
    conv = [b for b in c.bodies if b["item"] == "from" and "request_builder::Intermediate" in [c.types[a]["s"] for a in b.get("impl_trait_args", []) if isinstance(a, int)] and "http::Request" in (b.get("impl_self") or "")]
    if R.floor("C15-R2", "From<Intermediate> for Result<http::Request>", len(conv), 1):
        cv = BV.of(conv[0])
        post = [t for _, t in cv.calls() if lib.callee_is(t, "post")]
        R.check("C15-R2", "method-post", len(post) == 1 and "Request" in lib.norm(post[0].get("callee")), "hyper::Request::post", "request method constructor: %s" % [lib.norm(t.get("callee")) for t in post])
        hd = [t for _, t in cv.calls() if lib.callee_is(t, "http::request::Builder::header")]
        ok = len(hd) == 1 and bool(cv.sccs())
        if hd:
            a1 = terms.render(cv, cv.trace_op(hd[0]["args"][1]), W, {1: "im"})
            a2 = terms.render(cv, cv.trace_op(hd[0]["args"][2]), W, {1: "im"})
            ok = ok and "next(into_iter(im.headers))" in a1 and "next(into_iter(im.headers))" in a2 and a1.endswith(".0") and a2.endswith(".1")
        else:
            # the same copy written as a fold: headers.iter().fold(post(uri), |b, (k, v)| b.header(*k, v))
            for _, ft in cv.calls():
                if not lib.callee_is(ft, "std::iter::Iterator::fold") or len(ft["args"]) != 3:
                    continue
                src = terms.render(cv, cv.trace_op(ft["args"][0]), W, {1: "im"})
                clo = [x for x in walk(cv.trace_op(ft["args"][2])) if x[0] == "agg" and x[1] == "closure"]
                if not clo:
                    continue
                fb = W.bv(clo[0][2])
                fh = [t for _, t in fb.calls() if lib.callee_is(t, "http::request::Builder::header")]
                if len(fh) == 1 and src in ("iter(im.headers)", "into_iter(im.headers)"):
                    b0 = terms.render(fb, fb.trace_op(fh[0]["args"][0]), W, {})
                    k0 = terms.render(fb, fb.trace_op(fh[0]["args"][1]), W, {})
                    v0 = terms.render(fb, fb.trace_op(fh[0]["args"][2]), W, {})
                    rr = lib.strip_refs(fb.trace_local(0))
                    ok = b0 == "param2" and k0 == "param3.0" and v0 == "param3.1" and rr[0] == "call" and lib.callee_is({"callee": rr[1]}, "http::request::Builder::header")
        R.check("C15-R2", "all-headers-copied", ok, "every (name, value) of intermediate.headers becomes a header", "headers are not copied 1:1 from intermediate.headers")

    # ---------------------------------------------------------------- R3 merge and order
    R.rule("C15-R3", "apps are merged by id (first insertion wins position and cohort, later operations modify that entry), nothing else mutates the entry list, and the wire list is the entry list mapped 1:1 in order")
    im = lib.one(R, "C15-R3", c, "RequestBuilder::insert_and_modify_entry", item="insert_and_modify_entry", impl_self=RB)
    if im:
        N = {1: "self", 2: "app", 3: "modify"}
        find = [t for _, t in im.calls() if lib.callee_is(t, "std::iter::Iterator::find") or lib.callee_is(t, "std::iter::Iterator::position")]
        if not find:
            R.inconclusive("C15-R3", "lookup-by-id", "insert_and_modify_entry looks the entry up with neither Iterator::find nor Iterator::position; the merge-by-id rule does not read that spelling")
        else:
            ok = len(find) == 1 and terms.render(im, im.trace_op(find[0]["args"][0]), W, N) in ("iter_mut(self.app_entries)", "iter(self.app_entries)") and terms.render(im, im.trace_op(find[0]["args"][1]), W, N) == "|$1| eq($1.app.id, app.id)"
            R.check("C15-R3", "lookup-by-id", ok, "iter_mut().find(|e| e.app.id == app.id) (or position)", "entry lookup is %s" % [terms.render(im, im.trace_op(a), W, N) for t in find for a in t["args"]])
        push = [(bi_, t) for bi_, t in im.calls() if lib.callee_is(t, "push")]
        ok = len(push) == 1 and terms.render(im, im.trace_op(push[0][1]["args"][0]), W, N) == "self.app_entries" and terms.render(im, im.trace_op(push[0][1]["args"][1]), W, N) == "new(app)"
        R.check("C15-R3", "append-new-entry", ok, "otherwise push(AppEntry::new(app)) at the end", "new entries are added with %s" % [lib.norm(t.get("callee")) for _, t in push])
        # found => modify existing (no push); not found => push
        sw = [b for b in sorted(im.reach0) if im.blocks[b]["t"]["k"] == "switch" and len(im.succ[b]) > 1 and im.switch_subject(b) is not None and (lib.head_call(guards.switch_info(im, b).term) or "").endswith(("Iterator::find", "Iterator::position"))]
        if sw and push:
            si = guards.switch_info(im, sw[0])
            some = [(sw[0], b) for b in im.succ[sw[0]] if "Some" in si.edge_names(im, b)]
            none = [(sw[0], b) for b in im.succ[sw[0]] if "Some" not in si.edge_names(im, b)]
            R.check("C15-R3", "push-only-if-absent", im.dominated_by_edge(push[0][0], none) and push[0][0] not in im.reach_from([b for _, b in some], avoid=[sw[0]]), "push only when no entry with that id exists", "an app with an existing id is appended again")
        muts = sorted(set(lib.norm(t.get("callee")).split("::")[-1] for b in c.bodies if (b.get("impl_self") or "").startswith(RB) or (W.by_id.get(b.get("parent") or "", {}).get("impl_self") or "").startswith(RB) for _, t in BV.of(b).calls() if t["args"] and "app_entries" in lib.apath(BV.of(b).trace_op(t["args"][0])) and lib.norm(t.get("callee")).split("::")[-1] in ("push", "insert", "remove", "swap_remove", "clear", "retain", "sort", "sort_by", "sort_by_key", "dedup", "dedup_by_key", "reverse", "truncate", "drain", "pop", "swap", "rotate_left", "rotate_right", "extend", "append")))
        R.check("C15-R3", "no-other-mutation", muts == ["push"], "the entry list is only appended to", "app_entries is mutated with %s" % muts)
    ae = c.adts.get("request_builder::AppEntry")
    for item, field in (("add_update_check", "update_check"), ("add_ping", "ping"), ("add_event", "events")):
        b = lib.bodies(c, item=item, impl_self=RB)
        if not R.floor("C15-R3", item, len(b), 1):
            continue
        cl = lib.closures_of(c, b[0]["id"])
        ws = []
        calls = []
        for cb in cl:
            v = BV.of(cb)
            ws += [smod_chain(p) for (bi_, si_, p, r) in v.field_writes if bi_ in v.reach0]
            calls += [(lib.norm(t.get("callee")).split("::")[-1], lib.apath(v.trace_op(t["args"][0]))) for _, t in v.calls() if t["args"]]
        touched = sorted(set([w[-1] for w in ws if w] + [a.split(".")[-1] for n_, a in calls if n_ in ("push",)]))
        R.check("C15-R3", "modifies-own-member:" + item, touched == [field], "%s touches only entry.%s" % (item, field), "%s touches %s" % (item, touched))
    # the id setters set their own field and carry every other field of the builder over unchanged (whatever the call order)
    for setter in ("request_id", "session_id"):
        sb_ = lib.bodies(c, item=setter, impl_self=RB)
        if not R.floor("C15-R3", "RequestBuilder::" + setter, len(sb_), 1):
            continue
        sv_ = BV.of(sb_[0])
        ret_ = strip(sv_.trace_local(0))
        if ret_[0] == "agg" and len(ret_) > 4 and (ret_[2] or "").endswith("RequestBuilder::RequestBuilder"):
            got_ = dict(zip(ret_[4], [terms.render(sv_, v_, W, {1: "self", 2: "id"}) for v_ in ret_[3]]))
            bad_ = {k_: v_ for k_, v_ in got_.items() if (v_ != "Some{id}" if k_ == setter else v_ != "self." + k_)}
            R.check("C15-R3", "setter-preserves-others:" + setter, not bad_, "%s(id) = {%s: Some(id), ..self}" % (setter, setter), "%s(id) also changes %s" % (setter, bad_))
        else:
            ws_ = [smod_chain(p_) for (bi_, si_, p_, r_) in sv_.field_writes if bi_ in sv_.reach0]
            R.check("C15-R3", "setter-preserves-others:" + setter, ret_ == ("param", 1) and ws_ and all(w_[-1:] == [setter] for w_ in ws_), "%s(id) writes only self.%s" % (setter, setter), "%s(id) writes %s" % (setter, ws_))
    fa = [b for b in lib.bodies(c, item="from", impl_self="protocol::request::App", impl_trait="std::convert::From")]
    if R.floor("C15-R3", "From<AppEntry> for protocol::request::App", len(fa), 1):
        fv = BV.of(fa[0])
        ag = [x for x in walk(fv.trace_local(0)) if x[0] == "agg" and x[2] == "protocol::request::App::App"]
        if ag:
            from .. import optnorm
            got = dict(zip(ag[0][4], [terms.render(fv, v, W, {1: "entry"}) for v in ag[0][3]]))
            got["ping"] = optnorm.option_desc(W, fv, ag[0][3][ag[0][4].index("ping")], {1: "entry"})
            exp = {"id": "entry.app.id", "version": "to_string(entry.app.version)", "fingerprint": "entry.app.fingerprint", "cohort": "Some{entry.app.cohort}", "update_check": "entry.update_check", "events": "entry.events",
                   "ping": "None|Some{Ping{entry.app.user_counting@ClientRegulatedByDate.0, entry.app.user_counting@ClientRegulatedByDate.0}}", "extra_fields": "entry.app.extra_fields"}
            R.check("C15-R3", "entry-to-wire", got == exp, "every wire field from its entry member", "wire app built as %s" % {k: v for k, v in got.items() if exp.get(k) != v})

    # ---------------------------------------------------------------- R4 builder unaltered
    R.rule("C15-R4", "build takes &self and RequestBuilder has no interior mutability (Freeze), so building cannot alter or consume the builder")
    bd = lib.bodies(c, item="build", impl_self=RB)
    if R.floor("C15-R4", "RequestBuilder::build", len(bd), 1):
        t0 = c.types[bd[0]["inputs"][0]]
        R.check("C15-R4", "takes-shared-ref", t0.get("k") == "ref" and not t0.get("m"), t0["s"], "build takes %s" % t0["s"])
        R.check("C15-R4", "freeze", c.freeze.get(RB) is True, "RequestBuilder: Freeze (asked of the compiler)", "RequestBuilder is not Freeze (interior mutability): %s" % c.freeze.get(RB))
        ub = [u for u in c.unsafe_blocks if "x" not in u["sp"] and "request_builder" in u["body"]]
        R.check("C15-R4", "no-unsafe", not ub, "no unsafe in request_builder", "unsafe blocks in request_builder: %s" % ub)


def smod_chain(place):
    return [e.get("n", str(e.get("i"))) for e in place.get("p", []) if e["k"] == "field"]
