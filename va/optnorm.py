"""Normalisation of Option/Result-valued terms into their leaf alternatives, independent of how the
computation is spelt: combinators (`and_then`, `map`, `ok()`, `unwrap_or..`), `?`, `match`, a helper
function or a closure all reduce to the same set of leaves

    ("none",)                       the value is None / an early `?` exit
    ("some", payload_term)          Some(payload)
    ("other", term)                 anything this module does not understand (callers fail closed on it)

together with the set of bodies that were looked into (so that a caller can run path rules in them)."""
import re
from . import lib
from .core import BV

OPTION = "std::option::Option::<T>::"


def _ann(cb):
    """return-value term of a closure/function body with the display names of its calls fixed (they are looked up in cb)"""
    from . import terms
    return terms.annotate_names(cb, cb.trace_local(0))


def _unref(t):
    while t[0] in ("ref", "deref"):
        t = t[1]
    return t


def _never_ok(a):
    a = _unref(a)
    if a[0] == "call" and lib.norm(a[1]).endswith("FromResidual::from_residual"):
        return True
    if a[0] == "agg" and (a[2] or "").split("::")[-1] in ("Err", "None", "Break"):
        return True
    return False


def _prune_phi_for_payload(inner):
    """alternatives of `inner` that can carry a success payload (drops `?` residuals and Err/None aggregates)"""
    x = inner
    if x[0] in ("ref", "deref"):
        return (x[0], _prune_phi_for_payload(x[1])) + tuple(x[2:])
    if x[0] == "call" and lib.norm(x[1]) == "std::ops::Try::branch" and x[2]:
        return (x[0], x[1], [_prune_phi_for_payload(x[2][0])] + list(x[2][1:])) + tuple(x[3:])
    if x[0] == "phi":
        keep = [a for a in x[1] if not _never_ok(a)]
        if keep and len(keep) < len(x[1]):
            return keep[0] if len(keep) == 1 else ("phi", keep)
    return x


def simplify(t):
    """field(aggregate, i) -> i-th operand (after substituting a closure value for its environment parameter);
    success-payload projections of a merged value ignore the alternatives that are always failures."""
    if isinstance(t, tuple):
        t = tuple(simplify(x) for x in t)
        if t and t[0] == "downcast" and len(t) >= 3 and t[2] in ("Ok", "Some", "Continue"):
            t = (t[0], _prune_phi_for_payload(t[1])) + tuple(t[2:])
        if t and t[0] == "field" and (t[3] if len(t) > 3 else t[2]) == 0 and _unref(t[1])[0] == "downcast" and _unref(t[1])[2] in ("Ok", "Some", "Continue"):
            # the success payload of a value that was just built as Some(x) / Ok(x) is x
            inner = _unref(_unref(t[1])[1])
            if inner[0] == "call" and lib.norm(inner[1]) == "std::ops::Try::branch" and inner[2]:
                inner = _unref(inner[2][0])
            if inner[0] == "agg" and (inner[2] or "").split("::")[-1] in ("Some", "Ok") and len(inner[3]) == 1:
                return inner[3][0]
        if t and t[0] == "field" and len(t) >= 3:
            base = _unref(t[1])
            idx = t[3] if len(t) > 3 else t[2]
            if base[0] == "agg" and isinstance(idx, int) and len(base) > 3 and idx < len(base[3]) and base[1] in ("closure", "tuple"):
                return base[3][idx]
        return t
    if isinstance(t, list):
        return [simplify(x) for x in t]
    return t


def _closure_of(t):
    for y in ([t] if t[0] == "agg" else []) + [x for x in _walk(t)]:
        if y[0] == "agg" and y[1] == "closure":
            return y
    return None


def _walk(t):
    if isinstance(t, tuple):
        yield t
        for x in t:
            if isinstance(x, (tuple, list)):
                for y in _walk(x):
                    yield y
    elif isinstance(t, list):
        for x in t:
            for y in _walk(x):
                yield y


def _local_callee(W, bv, x):
    if len(x) < 4 or not isinstance(x[3], int) or x[3] >= len(bv.blocks):
        return None
    term = bv.blocks[x[3]]["t"]
    if term.get("k") != "call" or term.get("callee") != x[1] or term.get("trait"):
        return None
    rid = term.get("resolved_id") or term.get("callee_id")
    cb = W.by_id.get(rid) if rid else None
    if cb is None:
        cands = [b for b in W.by_id.values() if b.get("kind") == "fn" and (b["name"] == x[1] or b["name"].endswith("::" + x[1]) or x[1].endswith(b["name"]))]
        cb = cands[0] if len(cands) == 1 else None
    if cb is None or cb.get("kind") != "fn":
        return None
    cv = BV.of(cb)
    return cv if cv.argc == len(x[2]) else None


RESULT = "std::result::Result::<T, E>::"


def res_leaves(W, bv, t, bodies=None, depth=0):
    """Leaf alternatives of a Result-valued term: [("ok", payload) | ("err", payload) | ("other", term)].
    `map`/`map_err`/`and_then`/`ok_or` and merges are looked through; any other Result-valued term r is its own two
    alternatives (r@Ok.0, r@Err.0)."""
    if bodies is None:
        bodies = []
    if depth > 12:
        return [("other", t)]
    t = _unref(t)
    if t[0] == "phi":
        out = []
        for a in t[1]:
            out += res_leaves(W, bv, a, bodies, depth + 1)
        return out
    if t[0] == "agg":
        vn = (t[2] or "").split("::")[-1]
        if vn in ("Ok", "Err") and len(t[3]) == 1:
            return [(vn.lower(), t[3][0])]
        return [("other", t)]
    if t[0] == "call":
        callee = lib.norm(t[1])
        if callee in (RESULT + "map", RESULT + "map_err", RESULT + "and_then") and len(t[2]) == 2:
            inner = res_leaves(W, bv, t[2][0], bodies, depth + 1)
            clo = _closure_of(t[2][1])
            fnp = _unref(t[2][1])
            fdef = None
            if clo is None and fnp[0] == "const" and isinstance(fnp[1], dict):
                ty_ = bv.crate.types[fnp[1]["t"]] if isinstance(fnp[1].get("t"), int) else {}
                fdef = fnp[1].get("def") or (ty_.get("d") if ty_.get("k") == "fndef" else None)
            side = "err" if callee.endswith("map_err") else "ok"
            out = []
            for l in inner:
                if l[0] != side:
                    out.append(l)
                    continue
                if clo is not None and clo[2] in W.by_id:
                    cb = W.bv(clo[2])
                    if cb not in bodies:
                        bodies.append(cb)
                    body = simplify(lib.subst_params(_ann(cb), [clo, l[1]]))
                    if callee.endswith("and_then"):
                        out += res_leaves(W, cb, body, bodies, depth + 1)
                    elif side == "err":
                        # keep where the error came from (the closure may turn it into `()` after logging it)
                        out.append((side, ("call", "map_err", [l[1], body], None, "map_err")))
                    else:
                        out.append((side, body))
                elif fdef:
                    app = ("call", fdef, [l[1]], None, fdef.split("::")[-1])
                    if callee.endswith("and_then"):
                        out += [("ok", ("field", ("downcast", app, "Ok"), "0", 0)), ("err", ("field", ("downcast", app, "Err"), "0", 0))]
                    else:
                        out.append((side, app))
                else:
                    return [("other", t)]
            return out
        if callee == OPTION + "ok_or" and len(t[2]) == 2:
            out = []
            for l in leaves(W, bv, t[2][0], bodies, depth + 1):
                out.append(("ok", l[1]) if l[0] == "some" else (("err", t[2][1]) if l[0] == "none" else ("other", t)))
            return out
        if callee in lib.WRAPPERS and callee.split("::")[-1] in ("clone", "into", "from") and t[2]:
            return res_leaves(W, bv, t[2][0], bodies, depth + 1)
    return [("ok", ("field", ("downcast", t, "Ok"), "0", 0)), ("err", ("field", ("downcast", t, "Err"), "0", 0))]


def leaves(W, bv, t, bodies=None, depth=0, none_from=None):
    """-> list of leaves; `bodies` (a list) collects the BVs whose code contributed alternatives; `none_from` (a list)
    collects the error payloads that `Result::ok()` turned into None."""
    if bodies is None:
        bodies = []
    if bv not in bodies:
        bodies.append(bv)
    if depth > 12:
        return [("other", t)]
    t = _unref(t)
    k = t[0]
    if k == "phi":
        out = []
        for a in t[1]:
            out += leaves(W, bv, a, bodies, depth + 1, none_from)
        return out
    if k == "agg":
        vn = (t[2] or "").split("::")[-1]
        if vn == "None":
            return [("none",)]
        if vn == "Some" and len(t[3]) == 1:
            return [("some", t[3][0])]
        return [("other", t)]
    if k == "field" and (t[3] if len(t) > 3 else t[2]) == 0 and _unref(t[1])[0] == "downcast" and _unref(t[1])[2] in ("Continue", "Ok"):
        # `opt_of_result.transpose()?`  (Option<Result<T,E>> -> Option<T>): the leaves of the option, each payload's Ok value
        inner = _unref(_unref(t[1])[1])
        if inner[0] == "call" and lib.norm(inner[1]) == "std::ops::Try::branch" and inner[2]:
            inner = _unref(inner[2][0])
        if inner[0] == "call" and lib.norm(inner[1]).endswith("::transpose") and inner[2]:
            out = []
            for l in leaves(W, bv, inner[2][0], bodies, depth + 1, none_from):
                out.append(("some", ("field", ("downcast", l[1], "Ok"), "0", 0)) if l[0] == "some" else l)
            return out
    if k == "call":
        callee = lib.norm(t[1])
        if callee.endswith("FromResidual::from_residual"):
            return [("none",)]
        if callee == "core::bool::<impl bool>::then" or callee.endswith("bool>::then") or callee.endswith("bool::then"):
            clo = _closure_of(t[2][1]) if len(t[2]) == 2 else None
            if clo is not None and clo[2] in W.by_id:
                cb = W.bv(clo[2])
                if cb not in bodies:
                    bodies.append(cb)
                return [("none",), ("some", simplify(lib.subst_params(_ann(cb), [clo])))]
        if callee in ("core::bool::<impl bool>::then_some",) or callee.endswith("bool::then_some"):
            return [("none",), ("some", t[2][1])]
        if callee in lib.WRAPPERS and callee.split("::")[-1] in ("clone", "into", "from") and t[2]:
            return leaves(W, bv, t[2][0], bodies, depth + 1, none_from)
        if callee == RESULT + "ok" and len(t[2]) == 1:
            out = []
            for l in res_leaves(W, bv, t[2][0], bodies, depth + 1):
                if l[0] == "ok":
                    out.append(("some", l[1]))
                elif l[0] == "err":
                    out.append(("none",))
                    if none_from is not None:
                        none_from.append(l[1])
                else:
                    return [("other", t)]
            return out
        if callee == OPTION + "filter" and len(t[2]) == 2:
            # x.filter(p): every Some alternative of x may also become None (the predicate is checked by whoever needs it)
            out = []
            from . import terms as _terms
            clo = _closure_of(t[2][1])
            pred = "?"
            if clo is not None and clo[2] in W.by_id:
                cbp = W.bv(clo[2])
                pred = _terms.render(cbp, cbp.trace_local(0), W, {})
            else:
                pred = _terms.render(bv, t[2][1], W, {})
            for l in leaves(W, bv, t[2][0], bodies, depth + 1, none_from):
                if l[0] == "some":
                    # the alternative survives only under the predicate: keep it visible (a third element), so that
                    # `x.filter(p)` is never mistaken for `x`
                    out += [("none",), ("some", l[1], (l[2] + " & " if len(l) > 2 else "") + pred)]
                elif l[0] == "none":
                    out.append(l)
                else:
                    return [("other", t)]
            return out
        if callee in (OPTION + "and_then", OPTION + "map") and len(t[2]) == 2:
            clo = _closure_of(t[2][1])
            fnpath = _unref(t[2][1])
            fdef = None
            if clo is None and fnpath[0] == "const" and isinstance(fnpath[1], dict):
                fdef = fnpath[1].get("def")
                ty_ = bv.crate.types[fnpath[1]["t"]] if isinstance(fnpath[1].get("t"), int) else {}
                if not fdef and ty_.get("k") == "fndef":
                    fdef = ty_.get("d")
            if fdef:
                # a function path instead of a closure: x.and_then(f) / x.map(f)
                payload = payload_of(W, bv, t[2][0], bodies)
                app = ("call", fdef, [payload], None, fdef.split("::")[-1])
                if callee.endswith("and_then"):
                    return [("none",), ("other", app)]
                return [("none",), ("some", app)]
            if clo is not None and clo[2] in W.by_id:
                cb = W.bv(clo[2])
                payload = payload_of(W, bv, t[2][0], bodies)
                body = simplify(lib.subst_params(_ann(cb), [clo, payload]))
                if cb not in bodies:
                    bodies.append(cb)
                if callee.endswith("and_then"):
                    return [("none",)] + leaves(W, cb, body, bodies, depth + 1, none_from)
                return [("none",), ("some", body)]
            return [("other", t)]
        cv = _local_callee(W, bv, t)
        if cv is not None:
            body = simplify(lib.subst_params(cv.trace_local(0), list(t[2])))
            return leaves(W, cv, body, bodies, depth + 1, none_from)
    return [("other", t)]


def _match_paren(s, i):
    """index of the ')' matching the '(' at s[i]"""
    d = 0
    for j in range(i, len(s)):
        if s[j] == "(":
            d += 1
        elif s[j] == ")":
            d -= 1
            if d == 0:
                return j
    return -1


def payload_of(W, bv, x, bodies=None):
    """Success payload of an Option-valued term: x.map(f) carries f(payload of x); anything else its Some field."""
    y = _unref(x)
    if y[0] == "call" and lib.norm(y[1]) == OPTION + "map" and len(y[2]) == 2:
        clo = _closure_of(y[2][1])
        if clo is not None and clo[2] in W.by_id:
            cb = W.bv(clo[2])
            if bodies is not None and cb not in bodies:
                bodies.append(cb)
            return simplify(lib.subst_params(_ann(cb), [clo, payload_of(W, bv, y[2][0], bodies)]))
    if y[0] == "call" and lib.norm(y[1]) == OPTION + "filter" and len(y[2]) == 2:
        return payload_of(W, bv, y[2][0], bodies)
    if y[0] == "agg" and (y[2] or "").split("::")[-1] == "Some" and len(y[3]) == 1:
        return y[3][0]
    return ("field", ("downcast", x, "Some"), "0", 0)


def canon(s):
    """Canonical spelling of a rendered term: payload projections of `?`/match/combinators are one thing, and a
    single-use closure applied through and_then/map is the call itself:  and_then(A, |$1| f($1)) == f(A@OK)."""
    s = re.sub(r"@(Continue|Ok|Some)\.0", "@OK", s)
    # `x?` is `branch(x)@Continue.0`: the branch wrapper carries no information once the payload projection is canonical
    while True:
        m = re.search(r"(?<![A-Za-z_])branch\(", s)
        if not m:
            break
        c = _match_paren(s, m.end() - 1)
        if c < 0:
            break
        s = s[:m.start()] + s[m.end():c] + s[c + 1:]
    # `ok(A)@OK` (payload of Result::ok) and `map_err(A, f)@OK` / `inspect_err(A, f)@OK` are the Ok payload of A itself
    # (not `or_else`: its closure can turn an Err into an Ok of its own)
    for _ in range(20):
        hit = False
        for m_ in re.finditer(r"(?<![A-Za-z_])(ok|map_err|inspect_err)\(", s):
            o = m_.end() - 1
            c = _match_paren(s, o)
            if c < 0 or not s.startswith("@OK", c + 1):
                continue
            inner = s[o + 1:c]
            if m_.group(1) != "ok":
                d = 0
                cut = -1
                for j, ch in enumerate(inner):
                    if ch in "([{":
                        d += 1
                    elif ch in ")]}":
                        d -= 1
                    elif d == 0 and inner.startswith(", ", j):
                        cut = j
                        break
                if cut < 0:
                    continue
                inner = inner[:cut]
            s = s[:m_.start()] + inner + s[c + 1:]
            hit = True
            break
        if not hit:
            break
    # map(A, f)@OK with f a function path  ==  f(A@OK)
    for _ in range(20):
        m = None
        for m_ in re.finditer(r"(?<![A-Za-z_])map\(", s):
            o = m_.end() - 1
            c = _match_paren(s, o)
            if c < 0 or not s.startswith("@OK", c + 1):
                continue
            inner = s[o + 1:c]
            d = 0
            cut = -1
            for j, ch in enumerate(inner):
                if ch == "(":
                    d += 1
                elif ch == ")":
                    d -= 1
                elif d == 0 and inner.startswith(", ", j):
                    cut = j
            if cut < 0:
                continue
            a, f = inner[:cut], inner[cut + 2:]
            if not re.fullmatch(r"[A-Za-z_][A-Za-z_0-9:]*", f):
                continue
            s = s[:m_.start()] + "%s(%s@OK)" % (f.split("::")[-1], a) + s[c + 1 + len("@OK"):]
            m = m_
            break
        if m is None:
            break
    for _ in range(20):
        changed = False
        for m in re.finditer(r"(?<![A-Za-z_])and_then\(", s):
            o = m.end() - 1
            c = _match_paren(s, o)
            if c < 0:
                continue
            inner = s[o + 1:c]
            # split at the top-level ", |$1| "
            d = 0
            cut = -1
            for j, ch in enumerate(inner):
                if ch == "(":
                    d += 1
                elif ch == ")":
                    d -= 1
                elif d == 0 and inner.startswith(", |$1| ", j):
                    cut = j
                    break
            if cut < 0:
                continue
            a, f = inner[:cut], inner[cut + len(", |$1| "):]
            fm = re.fullmatch(r"([A-Za-z_:<>0-9]+)\(\$1\)", f)
            if not fm:
                continue
            s = s[:m.start()] + "%s(%s@OK)" % (fm.group(1), a) + s[c + 1:]
            changed = True
            break
        if not changed:
            break
    return s


VALUE_TRANSPARENT = ("std::option::Option::<T>::as_deref", "std::option::Option::<T>::as_ref", "std::string::String::as_str", "std::ops::Deref::deref",
                     "std::convert::AsRef::as_ref", "std::borrow::Borrow::borrow", "std::clone::Clone::clone", "std::option::Option::<&T>::cloned", "std::option::Option::<&T>::copied")


def value_alts(W, bv, t, depth=0):
    """Alternatives of a plain (non-Option) value, looking through `unwrap_or(x, d)`, `unwrap_or_else(x, || d)`,
    `unwrap_or_default`, matches (phi) and borrow/deref adapters: [("payload", x) | ("value", term)]"""
    t = _unref(t)
    if depth > 10:
        return [("value", t)]
    if t[0] == "phi":
        out = []
        for a in t[1]:
            out += value_alts(W, bv, a, depth + 1)
        return out
    if t[0] == "call":
        callee = lib.norm(t[1])
        if callee in VALUE_TRANSPARENT and t[2]:
            return value_alts(W, bv, t[2][0], depth + 1)
        if callee in (OPTION + "unwrap_or", OPTION + "unwrap_or_else") and len(t[2]) == 2:
            x = _unref(t[2][0])
            while x[0] == "call" and lib.norm(x[1]) in VALUE_TRANSPARENT and x[2]:
                x = _unref(x[2][0])
            out = [("payload", x)]
            d = t[2][1]
            if callee.endswith("unwrap_or_else"):
                clo = _closure_of(d)
                if clo is not None and clo[2] in W.by_id:
                    cb = W.bv(clo[2])
                    d = simplify(lib.subst_params(_ann(cb), [clo]))
                    return out + value_alts(W, cb, d, depth + 1)
            return out + value_alts(W, bv, d, depth + 1)
    if t[0] == "field" and _unref(t[1])[0] == "downcast" and _unref(t[1])[2] in ("Some", "Ok", "Continue"):
        x = _unref(_unref(t[1])[1])
        while x[0] == "call" and lib.norm(x[1]) in VALUE_TRANSPARENT and x[2]:
            x = _unref(x[2][0])
        return [("payload", x)]
    return [("value", t)]


def inline_all(W, bv, t, keep=lambda name: False):
    return simplify(_inline_all(W, bv, t, keep, (), 0))


def _inline_all(W, bv, t, keep=lambda name: False, _stack=(), _depth=0):
    """Replace, anywhere in a value term, calls to local synchronous non-trait functions by the callee's return-value
    term with the arguments substituted (recursively), except callees for which keep(short name) is true (the named
    primitives a rule talks about).  A private helper extracted from an expression then renders like the expression."""
    if _depth > 400:
        return t
    if isinstance(t, list):
        return [_inline_all(W, bv, x, keep, _stack, _depth + 1) for x in t]
    if not isinstance(t, tuple):
        return t
    if t and t[0] == "call" and len(t) >= 4 and isinstance(t[2], list):
        args = [_inline_all(W, bv, a, keep, _stack, _depth + 1) for a in t[2]]
        cv = _local_callee(W, bv, t)
        short = lib.norm(t[1]).split("::")[-1]
        # only private functions are inlined: a public function is part of the vocabulary the rules are written in
        if cv is not None and not cv.body.get("pub") and not keep(short) and cv.id not in _stack and len(cv.blocks) < 400:
            from . import terms as _terms
            body = _inline_all(W, cv, _terms.annotate_names(cv, cv.trace_local(0)), keep, _stack + (cv.id,), _depth + 1)
            return simplify(lib.subst_params(body, args))
        # a local closure bound to a variable and called: `let f = |d| ..; f(x)` is the closure's body at x
        if lib.norm(t[1]) in ("std::ops::Fn::call", "std::ops::FnMut::call_mut", "std::ops::FnOnce::call_once") and len(args) == 2:
            clo = _closure_of(args[0])
            tup = _unref(args[1])
            if clo is not None and clo[2] in W.by_id and clo[2] not in _stack and tup[0] == "agg" and tup[1] == "tuple":
                cb = W.bv(clo[2])
                body = _inline_all(W, cb, _ann(cb), keep, _stack + (clo[2],), _depth + 1)
                return simplify(lib.subst_params(body, [clo] + list(tup[3])))
        return (t[0], t[1], args) + tuple(t[3:])
    return tuple(_inline_all(W, bv, x, keep, _stack, _depth + 1) if isinstance(x, (tuple, list)) else x for x in t)


def option_desc(W, bv, t, names=None):
    """Canonical description of an Option-valued term by its leaves: 'None|Some{<payload>}' (sorted, duplicates folded),
    the same for an if/else, a match, `cond.then(|| ..)`, `x.map(..)` .."""
    from . import terms
    out = set()
    for l in leaves(W, bv, t):
        if l[0] == "none":
            out.add("None")
        elif l[0] == "some":
            out.add("Some{%s}" % terms.render(bv, l[1], W, names or {}) + ("?[%s]" % l[2] if len(l) > 2 else ""))
        else:
            out.add("?" + terms.render(bv, l[1], W, names or {}))
    return "|".join(sorted(out))


def await_callee(W, bv, t):
    """t = the value of `<local async fn>(args).await`  ->  (coroutine BV, [argument terms in bv]); else None.
    In terms an await is poll(new_unchecked(&mut into_future(f(args))), cx)@Ready.0."""
    from .core import BV
    x = _unref(t)
    if not (x[0] == "field" and _unref(x[1])[0] == "downcast" and _unref(x[1])[2] == "Ready"):
        return None
    p = _unref(_unref(x[1])[1])
    if not (p[0] == "call" and lib.norm(p[1]).split("::")[-1] in ("poll",) and p[2]):
        return None
    r = _unref(p[2][0])
    for _ in range(6):
        if r[0] == "call" and lib.norm(r[1]).split("::")[-1] in ("new_unchecked", "into_future", "new", "as_mut") and r[2]:
            r = _unref(r[2][0])
        else:
            break
    if r[0] != "call" or len(r) < 4 or not isinstance(r[3], int) or r[3] >= len(bv.blocks):
        return None
    term = bv.blocks[r[3]]["t"]
    if term.get("k") != "call" or term.get("callee") != r[1]:
        return None
    cid = term.get("resolved_id") or term.get("callee_id")
    cb = W.by_id.get((cid or "") + "::{closure#0}")
    if cid not in W.by_id or cb is None or cb.get("kind") != "coroutine":
        return None
    return BV.of(cb), list(r[2])


def async_return(W, cv, args, term=None):
    """The return value of the async fn body cv (or another of its terms) with its captured parameters replaced by the
    caller's argument terms."""
    def sub(t):
        if isinstance(t, list):
            return [sub(x) for x in t]
        if not isinstance(t, tuple):
            return t
        i = lib.async_upvar_param_index(W, cv, t) if t and t[0] in ("field", "deref", "ref") else None
        if i is not None and i - 1 < len(args):
            return args[i - 1]
        return tuple(sub(x) if isinstance(x, (tuple, list)) else x for x in t)
    from . import terms as _terms
    return simplify(sub(_terms.annotate_names(cv, cv.trace_local(0) if term is None else term)))


def inline_awaits(W, bv, t, depth=0):
    """Replace every `<private local async fn>(args).await` inside t by the callee's return value."""
    if depth > 6:
        return t
    if isinstance(t, list):
        return [inline_awaits(W, bv, x, depth) for x in t]
    if not isinstance(t, tuple):
        return t
    ac = await_callee(W, bv, t)
    if ac is not None:
        cv, args = ac
        wb = W.by_id.get(cv.body.get("parent"))
        if wb is not None and not wb.get("pub"):
            return inline_awaits(W, cv, async_return(W, cv, [inline_awaits(W, bv, a, depth + 1) for a in args]), depth + 1)
    return tuple(inline_awaits(W, bv, x, depth) if isinstance(x, (tuple, list)) else x for x in t)
