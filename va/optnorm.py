"""Normalisation of Option/Result-valued terms into their leaf alternatives, independent of how the
computation is spelt: combinators (`and_then`, `map`, `ok()`, `unwrap_or..`), `?`, `match`, a helper
function or a closure all reduce to the same set of leaves

    ("none",)                       the value is None / an early `?` exit
    ("some", payload_term)          Some(payload)
    ("other", term)                 anything this module does not understand (callers fail closed on it)

together with the set of bodies that were looked into (so that a caller can run path rules in them)."""
import re
from . import lib
from .core import BV

OPTION = "std::option::Option::<T>::"


def _unref(t):
    while t[0] in ("ref", "deref"):
        t = t[1]
    return t


def simplify(t):
    """field(aggregate, i) -> i-th operand (after substituting a closure value for its environment parameter)."""
    if isinstance(t, tuple):
        t = tuple(simplify(x) for x in t)
        if t and t[0] == "field" and len(t) >= 3:
            base = _unref(t[1])
            if base[0] == "agg" and isinstance(t[2], int) and len(base) > 3 and t[2] < len(base[3]) and base[1] in ("closure", "tuple"):
                return base[3][t[2]]
        return t
    if isinstance(t, list):
        return [simplify(x) for x in t]
    return t


def _closure_of(t):
    for y in ([t] if t[0] == "agg" else []) + [x for x in _walk(t)]:
        if y[0] == "agg" and y[1] == "closure":
            return y
    return None


def _walk(t):
    if isinstance(t, tuple):
        yield t
        for x in t:
            if isinstance(x, (tuple, list)):
                for y in _walk(x):
                    yield y
    elif isinstance(t, list):
        for x in t:
            for y in _walk(x):
                yield y


def _local_callee(W, bv, x):
    if len(x) < 4 or not isinstance(x[3], int) or x[3] >= len(bv.blocks):
        return None
    term = bv.blocks[x[3]]["t"]
    if term.get("k") != "call" or term.get("callee") != x[1] or term.get("trait"):
        return None
    rid = term.get("resolved_id") or term.get("callee_id")
    cb = W.by_id.get(rid) if rid else None
    if cb is None:
        cands = [b for b in W.by_id.values() if b.get("kind") == "fn" and (b["name"] == x[1] or b["name"].endswith("::" + x[1]) or x[1].endswith(b["name"]))]
        cb = cands[0] if len(cands) == 1 else None
    if cb is None or cb.get("kind") != "fn":
        return None
    cv = BV.of(cb)
    return cv if cv.argc == len(x[2]) else None


def leaves(W, bv, t, bodies=None, depth=0):
    """-> list of leaves; `bodies` (a list) collects the BVs whose code contributed alternatives."""
    if bodies is None:
        bodies = []
    if bv not in bodies:
        bodies.append(bv)
    if depth > 12:
        return [("other", t)]
    t = _unref(t)
    k = t[0]
    if k == "phi":
        out = []
        for a in t[1]:
            out += leaves(W, bv, a, bodies, depth + 1)
        return out
    if k == "agg":
        vn = (t[2] or "").split("::")[-1]
        if vn == "None":
            return [("none",)]
        if vn == "Some" and len(t[3]) == 1:
            return [("some", t[3][0])]
        return [("other", t)]
    if k == "call":
        callee = lib.norm(t[1])
        if callee.endswith("FromResidual::from_residual"):
            return [("none",)]
        if callee in lib.WRAPPERS and callee.split("::")[-1] in ("clone", "into", "from") and t[2]:
            return leaves(W, bv, t[2][0], bodies, depth + 1)
        if callee in (OPTION + "and_then", OPTION + "map") and len(t[2]) == 2:
            clo = _closure_of(t[2][1])
            if clo is not None and clo[2] in W.by_id:
                cb = W.bv(clo[2])
                payload = ("field", ("downcast", t[2][0], "Some"), 0)
                body = simplify(lib.subst_params(cb.trace_local(0), [clo, payload]))
                if cb not in bodies:
                    bodies.append(cb)
                if callee.endswith("and_then"):
                    return [("none",)] + leaves(W, cb, body, bodies, depth + 1)
                return [("none",), ("some", body)]
            return [("other", t)]
        cv = _local_callee(W, bv, t)
        if cv is not None:
            body = simplify(lib.subst_params(cv.trace_local(0), list(t[2])))
            return leaves(W, cv, body, bodies, depth + 1)
    return [("other", t)]


def _match_paren(s, i):
    """index of the ')' matching the '(' at s[i]"""
    d = 0
    for j in range(i, len(s)):
        if s[j] == "(":
            d += 1
        elif s[j] == ")":
            d -= 1
            if d == 0:
                return j
    return -1


def canon(s):
    """Canonical spelling of a rendered term: payload projections of `?`/match/combinators are one thing, and a
    single-use closure applied through and_then/map is the call itself:  and_then(A, |$1| f($1)) == f(A@OK)."""
    s = re.sub(r"@(Continue|Ok|Some)\.0", "@OK", s)
    # `x?` is `branch(x)@Continue.0`: the branch wrapper carries no information once the payload projection is canonical
    while True:
        m = re.search(r"(?<![A-Za-z_])branch\(", s)
        if not m:
            break
        c = _match_paren(s, m.end() - 1)
        if c < 0:
            break
        s = s[:m.start()] + s[m.end():c] + s[c + 1:]
    for _ in range(20):
        changed = False
        for m in re.finditer(r"(?<![A-Za-z_])and_then\(", s):
            o = m.end() - 1
            c = _match_paren(s, o)
            if c < 0:
                continue
            inner = s[o + 1:c]
            # split at the top-level ", |$1| "
            d = 0
            cut = -1
            for j, ch in enumerate(inner):
                if ch == "(":
                    d += 1
                elif ch == ")":
                    d -= 1
                elif d == 0 and inner.startswith(", |$1| ", j):
                    cut = j
                    break
            if cut < 0:
                continue
            a, f = inner[:cut], inner[cut + len(", |$1| "):]
            fm = re.fullmatch(r"([A-Za-z_:<>0-9]+)\(\$1\)", f)
            if not fm:
                continue
            s = s[:m.start()] + "%s(%s@OK)" % (fm.group(1), a) + s[c + 1:]
            changed = True
            break
        if not changed:
            break
    return s
