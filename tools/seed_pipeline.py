#!/usr/bin/env python3
# Kept from the round-8 session: paths (/tmp/agent8-*, /var/tmp/seedres8, a frozen copy of /verif in /var/tmp/verif-first8, six pre-warmed target dirs /var/tmp/seedtarget-N) are that session's; adjust per round.
"""Round-8 pipeline: for every delivered seed (agent dir /tmp/agent8-Cnn/OUT/{patch,demo,meta}k) run (1) the owning check of a frozen
copy of /verif on a scratch copy of /repo with the patch (first-shown verdict), (2) tools/confirm_seed.py."""
import concurrent.futures, glob, json, os, queue, re, shutil, subprocess, sys, tempfile, time
RES = "/var/tmp/seedres8"
V = "/var/tmp/verif-first8"
targets = queue.Queue()
for i in range(6):
    targets.put("/var/tmp/seedtarget-%d" % i)
done = set()

def process(pid, k):
    sid = "%sr8-%s" % (pid, k)
    out = "/tmp/agent8-%s/OUT" % pid
    bk = "/var/tmp/agent8-backup/%s" % pid
    os.makedirs(bk, exist_ok=True)
    for f in ("patch%s.diff", "demo%s.rs", "meta%s.json"):
        shutil.copy(os.path.join(out, f % k), bk)
    meta = json.load(open(os.path.join(out, "meta%s.json" % k)))
    patch = os.path.join(bk, "patch%s.diff" % k)
    # (1) first-shown verdict
    d = tempfile.mkdtemp(prefix="verif-first-", dir="/var/tmp")
    try:
        subprocess.run(["rsync", "-a", "--exclude", "target", "--exclude", ".git", "/repo/", d + "/"], check=True)
        r = subprocess.run(["patch", "-p1", "-s", "-i", patch], cwd=d, stdout=subprocess.PIPE, stderr=subprocess.STDOUT, text=True)
        if r.returncode != 0:
            open(os.path.join(RES, sid + ".check"), "w").write("PATCH DOES NOT APPLY\n" + r.stdout)
        else:
            env = dict(os.environ, VERIF_REPO=d, VERIF_EVIDENCE_DIR=os.path.join(d, ".evidence"))
            r = subprocess.run([sys.executable, "-m", "va.check", pid], cwd=V, env=env, stdout=subprocess.PIPE, stderr=subprocess.STDOUT, text=True)
            open(os.path.join(RES, sid + ".check"), "w").write(r.stdout + "\nEXIT %d\n" % r.returncode)
    finally:
        shutil.rmtree(d, ignore_errors=True)
    # (2) confirmation
    t = targets.get()
    try:
        mode = meta.get("demo_mode", "tests:omaha-client")
        cmd = [sys.executable, "/verif/tools/confirm_seed.py", patch, os.path.join(bk, "demo%s.rs" % k), mode]
        if meta.get("demo_filter"):
            cmd.append(meta["demo_filter"])
        r = subprocess.run(cmd, env=dict(os.environ, SEED_TARGET=t), stdout=subprocess.PIPE, stderr=subprocess.PIPE, text=True)
        open(os.path.join(RES, sid + ".confirm.json"), "w").write(r.stdout if r.stdout.strip().startswith("{") else json.dumps({"confirmed": False, "error": (r.stdout + r.stderr)[-2000:]}))
    finally:
        targets.put(t)
    c = json.load(open(os.path.join(RES, sid + ".confirm.json")))
    chk = open(os.path.join(RES, sid + ".check")).read()
    print(time.strftime("%H:%M:%S"), sid, "confirmed" if c.get("confirmed") else "NOT-CONFIRMED", "caught" if "VIOLATION property=" in chk else ("inconclusive" if "INCONCLUSIVE" in chk else "missed"), flush=True)

with concurrent.futures.ThreadPoolExecutor(6) as ex:
    t_end = time.time() + float(sys.argv[1]) * 60
    futs = []
    while time.time() < t_end:
        for mp in glob.glob("/tmp/agent8-C*/OUT/meta[12].json"):
            pid = re.search(r"agent8-(C\d\d)", mp).group(1); k = mp[-6]
            if (pid, k) in done: continue
            o = os.path.dirname(mp)
            fs = [mp, os.path.join(o, "patch%s.diff" % k), os.path.join(o, "demo%s.rs" % k)]
            if not all(os.path.exists(f) and os.path.getsize(f) > 0 for f in fs): continue
            if time.time() - max(os.path.getmtime(f) for f in fs) < 45: continue
            try: json.load(open(mp))
            except Exception: continue
            done.add((pid, k))
            futs.append(ex.submit(process, pid, k))
        if os.path.exists("/var/tmp/pipeline8.stop"): break
        time.sleep(10)
    for f in futs:
        try: f.result()
        except Exception as e: print("ERR", e, flush=True)
