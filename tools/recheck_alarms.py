#!/usr/bin/env python3
"""Re-run only the (benign patch, check) pairs that alarmed in the given run_mutants logs; print current status."""
import re, subprocess, sys, os, concurrent.futures
V = os.path.dirname(os.path.dirname(os.path.abspath(__file__)))
pairs = {}
for log in sys.argv[1:]:
    for line in open(log):
        m = re.match(r"(mutants/benign/\S+)\s+(C\d\d)\s+(DETECTED|INCONCLUSIVE|BUILD-FAILED)", line)
        if m:
            pairs.setdefault(m.group(1), set()).add(m.group(2))
def run(item):
    p, pids = item
    r = subprocess.run([os.path.join(V, "tools", "mutant.sh"), os.path.join(V, p)] + sorted(pids), stdout=subprocess.PIPE, stderr=subprocess.STDOUT, text=True, cwd=V)
    out = []
    for pid in sorted(pids):
        m = re.search(r"^%s: (\d+) rule instances, (\d+) hold, \d+ known findings, (\d+) violations, (\d+) inconclusive" % pid, r.stdout, re.M)
        keys = re.findall(r"^  rule (%s-\S+) key (.+)$" % pid, r.stdout, re.M)
        inc = re.findall(r"^INCONCLUSIVE property=%s rule=(\S+) key=(.+?) reason" % pid, r.stdout, re.M)
        st = "?" if not m else ("ALARM" if int(m.group(3)) else ("inconclusive" if int(m.group(4)) else "silent"))
        out.append("%-32s %s %-12s %s %s" % (os.path.basename(p), pid, st, keys[:3], inc[:2]))
    return out
with concurrent.futures.ThreadPoolExecutor(max_workers=4) as ex:
    for res in ex.map(run, sorted(pairs.items())):
        for l in res:
            print(l, flush=True)
