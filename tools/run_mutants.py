#!/usr/bin/env python3
"""Apply every seeded variant under mutants/<Cnn>/*.patch (and seeded/<id>/patch.diff) to a scratch copy
of /repo's current tree, run the owning property's check there and record whether it fired.
  tools/run_mutants.py [Cnn ...] [--jobs N] [--benign]
Never touches /repo; scratch copies live under /var/tmp and are removed. Writes mutants/RESULTS.json."""
import concurrent.futures, glob, json, os, re, shutil, subprocess, sys, tempfile, time
V = os.path.dirname(os.path.dirname(os.path.abspath(__file__)))


def run_one(patch, pids):
    d = tempfile.mkdtemp(prefix="verif-mut-", dir="/var/tmp")
    try:
        subprocess.run(["rsync", "-a", "--exclude", "target", "--exclude", ".git", "/repo/", d + "/"], check=True)
        r = subprocess.run(["patch", "-p1", "-s", "-i", patch], cwd=d, stdout=subprocess.PIPE, stderr=subprocess.STDOUT, text=True)
        if r.returncode != 0:
            return {"patch": os.path.relpath(patch, V), "applied": False, "detail": r.stdout[-300:]}
        out = {"patch": os.path.relpath(patch, V), "applied": True, "checks": {}}
        if len(pids) > 1:
            # all properties in one process: facts, supergraphs and reachability memos are shared
            env = dict(os.environ, VERIF_REPO=d, VERIF_EVIDENCE_DIR=os.path.join(d, ".evidence"))
            t0 = time.time()
            r = subprocess.run([sys.executable, "-m", "va.checkall"] + list(pids), cwd=V, env=env, stdout=subprocess.PIPE, stderr=subprocess.STDOUT, text=True)
            parts = re.split(r"^@@ (C\d\d) (\d+)$", r.stdout, flags=re.M)
            for i in range(1, len(parts) - 2, 3):
                pid, rc, txt = parts[i], int(parts[i + 1]), parts[i + 2]
                keys = re.findall(r"^  rule (\S+) key (.+)$", txt, re.M)
                out["checks"][pid] = {"exit": rc, "violations": [list(k) for k in keys][:6], "inconclusive": len(re.findall(r"^INCONCLUSIVE", txt, re.M)),
                                      "build_failed": "error: could not compile" in r.stdout or "error[E" in r.stdout, "wall_s": round(time.time() - t0, 1)}
            for pid in pids:
                if pid not in out["checks"]:
                    out["checks"][pid] = {"exit": 2, "violations": [], "inconclusive": 1, "build_failed": "error: could not compile" in r.stdout, "wall_s": 0, "note": "no output"}
            return out
        for pid in pids:
            env = dict(os.environ, VERIF_REPO=d, VERIF_EVIDENCE_DIR=os.path.join(d, ".evidence"))
            t0 = time.time()
            r = subprocess.run([sys.executable, "-m", "va.check", pid], cwd=V, env=env, stdout=subprocess.PIPE, stderr=subprocess.STDOUT, text=True)
            keys = re.findall(r"^  rule (\S+) key (.+)$", r.stdout, re.M)
            out["checks"][pid] = {"exit": r.returncode, "violations": [list(k) for k in keys][:6], "inconclusive": len(re.findall(r"^INCONCLUSIVE", r.stdout, re.M)),
                                  "build_failed": "error: could not compile" in r.stdout or "error[E" in r.stdout, "wall_s": round(time.time() - t0, 1)}
        return out
    finally:
        shutil.rmtree(d, ignore_errors=True)


def main():
    args = [a for a in sys.argv[1:] if not a.startswith("--")]
    jobs = 6
    for a in sys.argv[1:]:
        if a.startswith("--jobs="):
            jobs = int(a.split("=")[1])
    benign = "--benign" in sys.argv
    work = []
    if benign:
        allp = os.environ["VERIF_PIDS"].split(",") if os.environ.get("VERIF_PIDS") else ["C%02d" % i for i in range(1, 21)]   # subset: quick regression after a rule change
        for p in sorted(glob.glob(os.path.join(V, "mutants", "benign", "*.patch"))):
            if args and not any(a in os.path.basename(p) for a in args):
                continue
            work.append((p, allp))
    else:
        for p in sorted(glob.glob(os.path.join(V, "mutants", "C*", "*.patch"))):
            pid = os.path.basename(os.path.dirname(p))
            if args and pid not in args:
                continue
            work.append((p, [pid]))
        for p in sorted(glob.glob(os.path.join(V, "seeded", "*", "patch.diff"))):
            meta = os.path.join(os.path.dirname(p), "meta.json")
            pid = json.load(open(meta)).get("property") if os.path.exists(meta) else None
            if pid and (not args or pid in args):
                work.append((p, [pid]))
    if os.environ.get("VERIF_ONLY"):      # e.g. VERIF_ONLY=r8- with all property ids as arguments: add one round to RESULTS.json
        work = [w for w in work if os.environ["VERIF_ONLY"] in w[0]]
    res = []
    with concurrent.futures.ThreadPoolExecutor(max_workers=jobs) as ex:
        futs = [ex.submit(run_one, p, pids) for p, pids in work]
        for f in concurrent.futures.as_completed(futs):
            r = f.result()
            res.append(r)
            if r["applied"]:
                for pid, c in r["checks"].items():
                    status = "BUILD-FAILED" if c["build_failed"] else ("DETECTED" if c["exit"] == 1 else ("INCONCLUSIVE" if c["exit"] == 2 else "silent"))
                    print("%-34s %s %-13s %s" % (r["patch"], pid, status, c["violations"][:2]))
            else:
                print("%-34s PATCH-FAILED" % r["patch"])
            sys.stdout.flush()
    res.sort(key=lambda r: r["patch"])
    if os.environ.get("VERIF_NO_RESULTS"):
        return      # called from a check's thorough tier: the outcome goes into that run's evidence only
    name = "RESULTS_benign.json" if benign else "RESULTS.json"
    old = {}
    path = os.path.join(V, "mutants", name)
    if os.path.exists(path) and args:
        old = {r["patch"]: r for r in json.load(open(path))}
    for r in res:
        old[r["patch"]] = r
    json.dump(sorted(old.values(), key=lambda r: r["patch"]) if args else res, open(path, "w"), indent=1)


if __name__ == "__main__":
    main()
