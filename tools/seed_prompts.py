# Kept from the round-8 session: writes one prompt per property (property text only) to /var/tmp/prompts8/.
import json
props = {json.loads(l)['id']: json.loads(l) for l in open('/verif/properties.jsonl')}
T = '''You are helping to evaluate verification tooling for the Rust project google/omaha-client. You have your own scratch git worktree of the repository at {d} (work ONLY there; never touch /repo or /verif, never run `git stash`, `git worktree`, or any git command that changes branches; `git diff` and `git checkout -- <file>` inside your worktree are fine). The sandbox has no network: always use `cargo ... --offline`. A warm build cache is already in {d}/target.

Here is a semantic property of omaha-client that should hold:

ID: {id}
TITLE: {title}
{body}

YOUR TASK: write up to TWO independent, different source changes ("seeds") to omaha-client (non-test code of the workspace crates) that each BREAK this property, while
 (a) the workspace still compiles,
 (b) the entire existing test suite still passes unedited (`cargo test --offline --workspace` in {d}: 248 unit tests + doctests), and
 (c) you have a demonstration: a Rust test (preferably an integration test file placed at omaha-client/tests/seed_demo.rs or mock-omaha-server/tests/seed_demo.rs that uses only the public API; if private items are needed, a `#[test]`/`#[fuchsia_async...]`-free plain `#[test]` fn using `futures::executor::block_on`, to be inserted inside the existing `mod tests` of one source file) that FAILS with your change and PASSES on the unchanged tree.

Style of change wanted this round: the kind of subtle defect a real commit introduces — it must need something specific to manifest: two cooperating sites that each look fine alone (e.g. a helper changed in one file and a caller relying on its old contract in another), a particular multi-step sequence of operations (second update check, a retry after a specific failure, state surviving from a previous attempt/restart), a fault at one particular point (storage error on the Nth call, a lock held, a timer firing early), a particular interleaving, or an unusual-but-valid input (boundary values, empty lists, duplicate entries, non-ASCII, maximum widths). NOT a change that ordinary use exposes at once, not a deleted feature, not a change to tests, and not a panic placed in a log statement. Prefer changes in a different function/clause of the property for seed 1 and seed 2. Keep each patch small (typically 3-25 changed lines) and plausible as a refactor/optimisation/bug-fix by a maintainer.

Time budget: you have about 12 minutes in total. Deliver seed 1 completely first (after about 7 minutes stop exploring and finish what you have); write seed 2 only if time allows. One good confirmed seed is better than two unconfirmed.

DELIVERABLES in {d}/OUT/ (k = 1 or 2):
 - patch<k>.diff : `git diff` of ONLY the source change (not the demo), relative to the repo root, applying with `patch -p1` to a clean tree
 - demo<k>.rs    : the demonstration test source
 - meta<k>.json  : {{"property": "{id}", "summary": "<what the change does>", "what_it_needs_to_manifest": "<the specific sequence/fault/input/interleaving>", "files_changed": [..], "demo_mode": "tests:omaha-client" | "tests:mock-omaha-server" | "append:<path of source file whose mod tests receives the demo>", "demo_filter": "<test fn name, for append mode>"}}
Before finishing, restore your worktree to a clean state (`git checkout -- .` and remove the demo file) after each seed so that seed 2 is independent of seed 1. In your final message state briefly for each seed: what it changes, and the test results you observed (suite with change; demo with/without).'''
for pid, p in props.items():
    body = "\n".join("%s: %s" % (k.upper(), json.dumps(v, ensure_ascii=False) if not isinstance(v, str) else v) for k, v in p.items() if k not in ("id", "title"))
    open('/var/tmp/prompts8/%s.txt' % pid, 'w').write(T.format(d='/tmp/agent8-%s' % pid, id=pid, title=p.get('title', ''), body=body))
print(open('/var/tmp/prompts8/C07.txt').read()[:3000])
