#!/usr/bin/env python3
"""tools/mkmut.py <out.patch> <file> <<< 'OLD\n===\nNEW'  — create a unified diff against /repo by
replacing OLD with NEW (exact, must be unique) in <file> (path relative to /repo). Several
file/OLD/NEW triples may be given on stdin separated by a line '#### <file>'."""
import difflib, sys
out = sys.argv[1]
cur = sys.argv[2] if len(sys.argv) > 2 else None
text = sys.stdin.read()
parts = []
buf = []
for line in text.split("\n"):
    if line.startswith("#### "):
        if buf and cur:
            parts.append((cur, "\n".join(buf)))
        cur = line[5:].strip()
        buf = []
    else:
        buf.append(line)
if buf and cur:
    parts.append((cur, "\n".join(buf)))
diff = []
files = {}
for f, body in parts:
    if "\n===\n" not in body:
        continue
    old, new = body.split("\n===\n", 1)
    old = old.strip("\n")
    new = new.strip("\n")
    src = files.get(f)
    if src is None:
        src = open("/repo/" + f).read()
        files[f] = src
    if src.count(old) != 1:
        sys.exit("OLD text occurs %d times in %s" % (src.count(old), f))
    files[f] = src.replace(old, new)
for f, new in files.items():
    orig = open("/repo/" + f).read()
    diff.extend(difflib.unified_diff(orig.splitlines(True), new.splitlines(True), "a/" + f, "b/" + f))
open(out, "w").write("".join(diff))
print("wrote", out, len(diff), "lines")
