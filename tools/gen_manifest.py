#!/usr/bin/env python3
"""Generate /verif/MANIFEST.json from the per-property table below (kept next to the rules)."""
import json, os, sys
V = os.path.dirname(os.path.dirname(os.path.abspath(__file__)))
sys.path.insert(0, V)
from va.claims import CLAIMS, NOT_APPLICABLE

props = [json.loads(l) for l in open(os.path.join(V, "properties.jsonl"))]
ids = [p["id"] for p in props]
checks = []
na = []
for pid in ids:
    if pid in CLAIMS and os.path.exists(os.path.join(V, "va", "rules", pid.lower() + ".py")):
        c = CLAIMS[pid]
        checks.append({
            "property_id": pid,
            "quick_cmd": "./check %s --tier quick" % pid,
            "thorough_cmd": "./check %s --tier thorough" % pid,
            "evidence_file": "/verif/evidence/%s.json" % pid,
            "replay_cmd_template": "./check %s --replay {path}" % pid,
            "engine": c.get("engine", "facts-driver+rules"),
            "level_claimed": {"category": "other", "text": c["text"], "design_ref": c.get("design_ref", "DESIGN.md §4 " + pid)},
            "level_note": c["note"],
            "technique": c["technique"],
        })
    else:
        na.append({"property_id": pid, "reason": NOT_APPLICABLE.get(pid, "static rules for this property are not implemented yet in this tree; no claim is made")})
m = {
    "version": 1,
    "setup_cmd": "./setup.sh",
    "hooks": {
        "guard": "google_omaha_client_verif",
        "enable": "none needed: the static analysis reads /repo's working tree as it is (cargo +nightly check with a rustc_private wrapper)",
        "baseline_off_cmd": "cd /repo && cargo test --workspace --no-fail-fast --offline",
        "source_commits": [],
        "add_only": True,
    },
    "engines": [
        {"name": "facts-driver", "path": "driver/", "serves_properties": ids, "kind_free_text": "rustc_private driver dumping pre-borrowck MIR, ADTs, impls, consts of the type-checked workspace as JSON"},
        {"name": "rules", "path": "va/", "serves_properties": [c["property_id"] for c in checks], "kind_free_text": "Python analyses over the facts: interprocedural event skeleton, outcome-labelled guards, provenance/terms, intervals, censuses, schema extraction"},
        {"name": "witness", "path": "witness/", "serves_properties": ["C11", "C13", "C15"], "kind_free_text": "compile_fail / compile-pass doctests (type-level witnesses), thorough tier"},
    ],
    "checks": checks,
    "not_applicable": na,
    "notes": "Technique family: static analysis. Every verdict is computed from /repo's current source without running it. See DESIGN.md.",
}
json.dump(m, open(os.path.join(V, "MANIFEST.json"), "w"), indent=1)
print("claimed:", [c["property_id"] for c in checks])
print("not_applicable:", [n["property_id"] for n in na])
