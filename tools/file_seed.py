#!/usr/bin/env python3
"""tools/file_seed.py <agent dir> <k> <seed id> — file an externally proposed breaking change that was confirmed with
tools/confirm_seed.py: copies patch + demonstration into seeded/<seed id>/ and writes meta.json (property, what the
change needs to manifest, what was run to confirm it, what the checks said when first shown the change)."""
import json, os, re, shutil, sys
V = os.path.dirname(os.path.dirname(os.path.abspath(__file__)))
adir, k, sid = sys.argv[1], sys.argv[2], sys.argv[3]
res = sys.argv[4] if len(sys.argv) > 4 else "/var/tmp/seedres"
out = os.path.join(adir, "OUT")
am = json.load(open(os.path.join(out, "meta%s.json" % k)))
conf = json.load(open(os.path.join(res, "%s.confirm.json" % sid)))
assert conf.get("confirmed") is True, "not confirmed: %s" % sid
first = open(os.path.join(res, "%s.check" % sid)).read() if os.path.exists(os.path.join(res, "%s.check" % sid)) else ""
d = os.path.join(V, "seeded", sid)
os.makedirs(d, exist_ok=True)
shutil.copy(os.path.join(out, "patch%s.diff" % k), os.path.join(d, "patch.diff"))
shutil.copy(os.path.join(out, "demo%s.rs" % k), os.path.join(d, "demo.rs"))
viol = [list(x) for x in re.findall(r"^  rule (\S+) key (.+)$", first, re.M)]
m = re.search(r"^(C\d\d): .*$", first, re.M)
status = "caught" if "VIOLATION property=" in first else ("inconclusive" if "INCONCLUSIVE" in first else "missed")
mode = conf["mode"]
kind, where = mode.split(":", 1)
place = {"tests": "new integration test file %s/tests/seed_demo.rs" % where, "cat": "appended at the end of %s" % where, "append": "inserted before the final `}` of %s (inside its `mod tests`)" % where}[kind]
meta = {
    "property": am["property"],
    "origin": "fresh sub-agent given only the property text and a scratch worktree",
    "summary": am.get("summary"),
    "what_it_needs_to_manifest": am.get("what_it_needs_to_manifest"),
    "files_changed": am.get("files_changed"),
    "demonstration": {"file": "demo.rs", "placement": place},
    "confirmed_by": {
        "tool": "tools/confirm_seed.py (scratch copy of /repo under /var/tmp, removed afterwards)",
        "existing_suite_with_change": conf["existing_suite_with_change"],
        "demo_with_change": conf["demo_with_change"],
        "demo_without_change": conf["demo_without_change"],
        "commands": ["cargo test --offline --workspace --no-fail-fast   (with the change: all %d pass)" % conf["existing_suite_with_change"]["passed"],
                     "cargo test --offline --workspace %s   (demo: fails with the change, passes without)" % ("--test seed_demo" if kind == "tests" else "--lib -- <demo test filter>")],
    },
    "first_shown_to_checks": {"owning_check": am["property"], "status": status, "violations": viol[:6], "summary_line": m.group(0) if m else None},
}
json.dump(meta, open(os.path.join(d, "meta.json"), "w"), indent=1)
print(sid, status, viol[:2])
