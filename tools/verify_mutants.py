#!/usr/bin/env python3
"""For every seeded variant: does it still compile and pass the repository's pinned test suite?
(248 tests: cargo test --workspace --offline).  Records mutants/TESTS.json.  Scratch copies under
/var/tmp, one reusable target dir per worker, all removed at the end."""
import concurrent.futures, glob, json, os, queue, re, shutil, subprocess, sys, tempfile
V = os.path.dirname(os.path.dirname(os.path.abspath(__file__)))
JOBS = int(os.environ.get("JOBS", "3"))
targets = queue.Queue()
tdirs = []
for i in range(JOBS):
    t = tempfile.mkdtemp(prefix="verif-muttest-target-", dir="/var/tmp")
    tdirs.append(t)
    targets.put(t)


def run_one(patch):
    d = tempfile.mkdtemp(prefix="verif-muttest-", dir="/var/tmp")
    t = targets.get()
    try:
        subprocess.run(["rsync", "-a", "--exclude", "target", "--exclude", ".git", "/repo/", d + "/"], check=True)
        r = subprocess.run(["patch", "-p1", "-s", "-i", patch], cwd=d, stdout=subprocess.PIPE, stderr=subprocess.STDOUT, text=True)
        if r.returncode != 0:
            return {"patch": os.path.relpath(patch, V), "applied": False}
        # fresh mtimes: the target dir is shared between scratch copies and cargo's freshness test is mtime-based
        subprocess.run(["find", d, "-name", "*.rs", "-exec", "touch", "{}", "+"], check=True)
        env = dict(os.environ, CARGO_TARGET_DIR=t, CARGO_NET_OFFLINE="true")
        try:
            r = subprocess.run(["timeout", "-k", "10", "900", "cargo", "test", "--workspace", "--offline", "--no-fail-fast"], cwd=d, env=env, stdout=subprocess.PIPE, stderr=subprocess.STDOUT, text=True)
        except Exception as e:      # pragma: no cover
            return {"patch": os.path.relpath(patch, V), "applied": True, "compiles": None, "passed": 0, "failed": 0, "failing": [], "error": str(e)}
        if r.returncode in (124, 137):
            # a test of the repository's suite never finishes with this variant: the suite does not pass
            subprocess.run(["pkill", "-9", "-f", t + "/debug/deps/"], stdout=subprocess.DEVNULL, stderr=subprocess.DEVNULL)
            return {"patch": os.path.relpath(patch, V), "applied": True, "compiles": True, "passed": 0, "failed": 1, "failing": ["<suite hangs (15 min timeout)>"]}
        passed = sum(int(x) for x in re.findall(r"test result: \w+\. (\d+) passed", r.stdout))
        failed = sum(int(x) for x in re.findall(r"test result: \w+\. \d+ passed; (\d+) failed", r.stdout))
        compiled = "error: could not compile" not in r.stdout
        failing = re.findall(r"^test (\S+) \.\.\. FAILED", r.stdout, re.M)
        return {"patch": os.path.relpath(patch, V), "applied": True, "compiles": compiled, "passed": passed, "failed": failed, "failing": failing[:8]}
    finally:
        targets.put(t)
        shutil.rmtree(d, ignore_errors=True)


def main():
    args = sys.argv[1:]
    pats = sorted(glob.glob(os.path.join(V, "mutants", "C*", "*.patch"))) + sorted(glob.glob(os.path.join(V, "mutants", "benign", "*.patch"))) + sorted(glob.glob(os.path.join(V, "seeded", "*", "patch.diff")))
    if args:
        pats = [p for p in pats if any(a in p for a in args)]
    path = os.path.join(V, "mutants", "TESTS.json")
    old = {r["patch"]: r for r in json.load(open(path))} if os.path.exists(path) else {}
    try:
        with concurrent.futures.ThreadPoolExecutor(max_workers=JOBS) as ex:
            for r in ex.map(run_one, pats):
                old[r["patch"]] = r
                print(r)
                sys.stdout.flush()
                json.dump(sorted(old.values(), key=lambda r: r["patch"]), open(path, "w"), indent=1)
    finally:
        for t in tdirs:
            shutil.rmtree(t, ignore_errors=True)


if __name__ == "__main__":
    main()
