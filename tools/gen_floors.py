#!/usr/bin/env python3
"""Regenerate tables/instance_floors.json from the evidence of a run on the pinned tree:
floor = 60% of the instances each rule produced (at least 1); after regenerating, floors of existing rules are only ever lowered and new rules start at 3 at most (see DESIGN 10.2).  Run by hand after reviewing the counts."""
import glob, json, os
V = os.path.dirname(os.path.dirname(os.path.abspath(__file__)))
out = {}
for f in sorted(glob.glob(os.path.join(V, "evidence", "C*.json"))):
    e = json.load(open(f))
    pid = e["property_id"]
    counts = e["coverage"].get("instances_per_rule", {})
    out[pid] = {r: max(1, int(n * 0.6)) for r, n in sorted(counts.items()) if not r.endswith("-pre") and r != "engine"}
json.dump(out, open(os.path.join(V, "tables", "instance_floors.json"), "w"), indent=1, sort_keys=True)
print(json.dumps(out, indent=1)[:3000])
